#!/usr/bin/env python3
"""Regenerate the machine-derived tables of DESIGN.md (between <!-- GEN:name --> and <!-- /GEN:name --> markers)
from props.py, evidence/*.json, KNOWN_FINDINGS.txt and seeded/RESULTS.json.  Run from /verif after the checks."""
import json
import os
import re
import sys

HERE = os.path.dirname(os.path.dirname(os.path.abspath(__file__)))
sys.path.insert(0, HERE)
os.chdir(HERE)
from props import PROPS  # noqa


def status_table():
    rows = ['| property | functions under contract (proved from the current source) | obligations (quick) | back ends | solver s | bounded cases (quick) | known findings |',
            '|---|---|---|---|---|---|---|']
    for pid in sorted(PROPS):
        p = os.path.join('evidence', pid + '.json')
        if not os.path.exists(p):
            rows.append('| %s | (no evidence yet) | | | | | |' % pid)
            continue
        e = json.load(open(p))
        c = e.get('coverage', {})
        fns = [f['function'].replace('dawgie.', '') for f in c.get('functions_under_contract', [])]
        be = ', '.join('%s %s' % (k, v) for k, v in sorted((c.get('obligations_by_backend') or {}).items()))
        b = c.get('bounded') or {}
        cases = b.get('cases', c.get('bounded_cases', '-'))
        kf = len(c.get('known_findings_matched', []) or [])
        rows.append('| %s | %s | %s/%s | %s | %s | %s | %s |' % (
            pid, ', '.join('`%s`' % f for f in fns) or '— (bounded only)', c.get('discharged', 0), c.get('obligations', 0), be or '-',
            c.get('solver_time_s', '-'), cases, kf))
    return '\n'.join(rows)


def findings_table():
    fixed, open_ = [], []
    for line in open('KNOWN_FINDINGS.txt'):
        line = line.strip()
        m = re.match(r'fixed:\s+property=(\S+)\s+(\S+)\s+(.*)', line)
        if m:
            fixed.append(m.groups())
        m = re.match(r'finding:\s+property=(\S+)\s+key=(\S+)\s+::\s*(.*)', line)
        if m:
            open_.append(m.groups())
    rows = ['| property | /repo commit | what failed on the pinned tree |', '|---|---|---|']
    rows += ['| %s | `%s` | %s |' % r for r in fixed]
    rows += ['', '| property | key of the listed finding | what fails |', '|---|---|---|']
    rows += ['| %s | `%s` | %s |' % r for r in open_]
    return '\n'.join(rows)


def seeded_table():
    p = os.path.join('seeded', 'RESULTS.json')
    if not os.path.exists(p):
        return '(no seeded run recorded)'
    r = json.load(open(p))
    rows = ['| change | what it breaks | proof layer | bounded layer | first failing obligation / witness |', '|---|---|---|---|---|']
    for k in sorted(r):
        v = r[k]
        meta = {}
        mp = os.path.join('seeded', k, 'meta.json')
        if os.path.exists(mp):
            meta = json.load(open(mp))
        if not v.get('applies', True):
            rows.append('| %s | %s | patch no longer applies | | |' % (k, (meta.get('summary') or '')[:160]))
            continue
        po, bo = v.get('proof_only') or {}, v.get('bounded_only') or {}
        full = v.get('full') or {}
        first = (po.get('violations') or bo.get('violations') or full.get('violations') or [''])[0]
        f = lambda d: 'caught' if d.get('exit') == 1 else ('-' if d.get('exit') == 0 else ('exit %s' % d.get('exit') if d else 'n/a'))
        rows.append('| %s | %s | %s | %s | `%s` |' % (k, (meta.get('summary') or '').replace('|', '/')[:200], f(po), f(bo),
                                                     first.replace('.json', '')[:90]))
    n = sum(1 for v in r.values() if v.get('detected'))
    rows.append('')
    rows.append('%d of %d applicable changes are reported by `./check <id>` (exit 1 with a VIOLATION line); %d by the proof layer alone.' % (
        n, sum(1 for v in r.values() if v.get('applies', True)), sum(1 for v in r.values() if (v.get('proof_only') or {}).get('exit') == 1)))
    return '\n'.join(rows)


GEN = {'status': status_table, 'findings': findings_table, 'seeded': seeded_table}


def main():
    s = open('DESIGN.md').read()
    for name, fn in GEN.items():
        a, b = '<!-- GEN:%s -->' % name, '<!-- /GEN:%s -->' % name
        if a in s and b in s:
            i, j = s.index(a) + len(a), s.index(b)
            s = s[:i] + '\n' + fn() + '\n' + s[j:]
    open('DESIGN.md', 'w').write(s)
    print('DESIGN.md tables regenerated')


if __name__ == '__main__':
    main()
