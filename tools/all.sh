#!/bin/bash
# run every check (quick); args are passed through (e.g. --no-bounded)
cd "$(dirname "$0")/.."
fail=0
for p in C01 C02 C03 C04 C05 C06 C07 C08 C09 C10 C11 C12 C13 C14 C15 C16 C17 C18 C19 C20; do
  out=$(./check $p "$@" 2>&1); rc=$?
  echo "$out" | tail -1 | cut -c1-200
  if [ $rc -ne 0 ]; then fail=1; echo "$out" | grep -E "VIOLATION|UNDECIDED|MACHINERY|NOTE" | head -5 | cut -c1-300; fi
done
./check --selftest | tail -1; [ ${PIPESTATUS[0]} -ne 0 ] && fail=1
exit $fail
