#!/usr/bin/env python3
"""Regenerate /verif/MANIFEST.json from props.py (run from /verif)."""
import json, sys, os
sys.path.insert(0, os.path.dirname(os.path.dirname(os.path.abspath(__file__))))
from props import PROPS
NOT_APPLICABLE = {}
checks = []
for pid in sorted(PROPS):
    s = PROPS[pid]
    proved = bool(s.get('contracts'))
    checks.append({
        'property_id': pid,
        'quick_cmd': './check %s --tier quick' % pid,
        'thorough_cmd': './check %s --tier thorough' % pid,
        'evidence_file': 'evidence/%s.json' % pid,
        'replay_cmd_template': './check %s --replay {path}' % pid,
        'engine': 'pyvc',
        'level_claimed': {'category': s.get('level', 'other'),
                          'text': s['explanation'] + ('' if proved else ' (bounded stand-in only; counted as exploration, not proof)'),
                          'design_ref': 'DESIGN.md §4 ' + pid},
        'level_note': 'Trusted: ' + '; '.join(s.get('trusted_base', []) or ['nothing beyond the common assumptions']) + '. Assumed: ' + '; '.join(a.split(':')[0] for a in s['assumptions'][3:]),
        'technique': s.get('technique', ''),
    })
m = {
    'version': 1,
    'setup_cmd': './check --setup',
    'hooks': {'guard': 'DAWGIE_VERIF', 'enable': 'no source hooks: contracts are sidecar files under /verif/contracts and the bounded monitors patch module attributes in the check process only',
              'baseline_off_cmd': 'cd /repo && /venv/bin/python -m pytest -ra -q -p no:cacheprovider --timeout=900 --continue-on-collection-errors',
              'source_commits': [], 'add_only': True},
    'engines': [{'name': 'pyvc', 'path': 'pyvc/', 'serves_properties': sorted(PROPS),
                 'kind_free_text': 'verification-condition generator over the real Python AST + z3/cvc5 (contract-based deductive verification); harness/ holds the labelled bounded stand-ins'}],
    'checks': checks,
    'notes': 'Exit codes: 0 held, 1 violation (VIOLATION line), 2 undecided, 3 machinery failure. VERIF_REPO selects the tree (default /repo). Known findings: KNOWN_FINDINGS.txt.',
    'not_applicable': [{'property_id': k, 'reason': v} for k, v in sorted(NOT_APPLICABLE.items())],
}
json.dump(m, open('MANIFEST.json', 'w'), indent=1)
print('MANIFEST.json written with', len(checks), 'checks')
