#!/bin/bash
# usage: tools/mutate.sh <file-relative-to-Python> <python-regex> <replacement> -- <command...>
# runs <command> with VERIF_REPO pointing at a scratch copy of /repo/Python with one textual edit applied
set -e
f="$1"; pat="$2"; rep="$3"; shift 3; [ "$1" = "--" ] && shift
d=$(mktemp -d /tmp/mut.XXXXXX)
mkdir -p $d/Python && cp -r /repo/Python/dawgie $d/Python/
python3 - "$d/Python/$f" "$pat" "$rep" <<'PY'
import re,sys
p,pat,rep=sys.argv[1:4]
s=open(p).read()
n=len(re.findall(pat,s,flags=re.S))
if n!=1: sys.exit('pattern matches %d times'%n)
open(p,'w').write(re.sub(pat,rep,s,count=1,flags=re.S))
PY
VERIF_REPO=$d PYTHONPATH=$d/Python "$@" || true
rm -rf $d
