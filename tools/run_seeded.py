#!/usr/bin/env python3
"""For every /verif/seeded/<id>/: confirm the demonstration (PASS on the clean tree, FAIL with the patch) and run
the property's check against a scratch copy with the patch applied.  Writes seeded/RESULTS.json.
usage: tools/run_seeded.py [ids...]"""
import json, os, re, shutil, subprocess, sys, tempfile
HERE = os.path.dirname(os.path.dirname(os.path.abspath(__file__)))
SEED = os.path.join(HERE, 'seeded')
argv = sys.argv[1:]
jobs = 1
if argv and argv[0] == '--jobs':
    jobs, argv = int(argv[1]), argv[2:]
ids = argv or sorted(d for d in os.listdir(SEED) if os.path.isdir(os.path.join(SEED, d)))
RESULTS = os.environ.get('SEEDED_RESULTS') or os.path.join(SEED, 'RESULTS.json')
if jobs > 1:
    # several changes at a time: one child per slice, each with its own result file, merged at the end
    os.makedirs(os.path.join(HERE, '.scratch'), exist_ok=True)
    kids = []
    groups = {}
    for i in ids:          # all changes of one property stay in one child (replay files are per property)
        groups.setdefault(i.split('_')[0], []).append(i)
    pids = sorted(groups)
    for k in range(jobs):
        part = [i for pp in pids[k::jobs] for i in groups[pp]]
        if not part:
            continue
        out = os.path.join(HERE, '.scratch', 'seeded_results.%d.json' % k)
        if os.path.exists(out):
            os.unlink(out)
        kids.append((out, subprocess.Popen([sys.executable, os.path.abspath(__file__)] + part, env=dict(os.environ, SEEDED_RESULTS=out))))
    for out, p in kids:
        p.wait()
    res = json.load(open(os.path.join(SEED, 'RESULTS.json'))) if os.path.exists(os.path.join(SEED, 'RESULTS.json')) else {}
    for out, p in kids:
        if os.path.exists(out):
            res.update(json.load(open(out)))
    json.dump(res, open(os.path.join(SEED, 'RESULTS.json'), 'w'), indent=1, sort_keys=True)
    sys.exit(0)
res = {}
if os.path.exists(RESULTS):
    res = json.load(open(RESULTS))


def run(cmd, env=None, timeout=900, cwd=None):
    e = dict(os.environ)
    e.update(env or {})
    p = subprocess.run(cmd, shell=True, capture_output=True, text=True, env=e, timeout=timeout, cwd=cwd)
    return p.returncode, (p.stdout or '') + (p.stderr or '')


for sid in ids:
    d = os.path.join(SEED, sid)
    pid = sid.split('_')[0]
    clean = tempfile.mkdtemp(prefix='seedc_')
    mut = tempfile.mkdtemp(prefix='seedm_')
    try:
        for t in (clean, mut):
            shutil.copytree('/repo/Python', os.path.join(t, 'Python'))
            shutil.copytree('/repo/Test', os.path.join(t, 'Test'))
        rc, out = run('patch -p1 --no-backup-if-mismatch -s < %s' % os.path.join(d, 'patch.diff'), cwd=mut)
        r = {'property': pid, 'applies': rc == 0}
        if rc != 0:
            r['apply_error'] = out[-300:]
            res[sid] = r
            print(sid, 'PATCH DOES NOT APPLY', out[-200:].replace('\n', ' '))
            continue
        py = '/venv/bin/python'
        rc1, o1 = run('%s %s' % (py, os.path.join(d, 'demo.py')), {'TREE': clean, 'PYTHONPATH': clean + '/Python', 'TMPDIR': clean}, 600)
        rc2, o2 = run('%s %s' % (py, os.path.join(d, 'demo.py')), {'TREE': mut, 'PYTHONPATH': mut + '/Python', 'TMPDIR': mut}, 600)
        r['demo_clean'] = 'PASS' if rc1 == 0 else 'rc%d %s' % (rc1, o1[-200:])
        r['demo_mutant'] = 'FAIL' if rc2 != 0 else 'PASS(!)'
        r['demo_mutant_msg'] = ([l for l in o2.splitlines() if l.startswith('FAIL')] or [''])[0][:300]
        for mode, flag in (('proof_only', '--no-bounded'), ('bounded_only', '--no-proof')):
            rc3, o3 = run('./check %s %s' % (pid, flag), {'VERIF_REPO': mut}, 1500, cwd=HERE)
            viol = [l for l in o3.splitlines() if l.startswith('VIOLATION')]
            r[mode] = {'exit': rc3, 'violations': [re.sub(r'.*replay=\S*/', '', v) for v in viol][:6],
                       'notes': [l[:160] for l in o3.splitlines() if l.startswith(('NOTE', 'UNDECIDED', 'MACHINERY'))][:4]}
        # a bounded witness must replay: on the changed tree it reproduces (exit 1), on the unchanged tree it does not (exit 0)
        bfiles = [v for v in r['bounded_only']['violations'] if v.startswith('bounded_')]
        if bfiles:
            rp = os.path.join(HERE, 'replays', pid, bfiles[0].split()[0])
            rc4, o4 = run('./check %s --replay %s' % (pid, rp), {'VERIF_REPO': mut}, 900, cwd=HERE)
            rc5, o5 = run('./check %s --replay %s' % (pid, rp), {'VERIF_REPO': '/repo'}, 900, cwd=HERE)
            r['replay'] = {'file': bfiles[0].split()[0], 'on_changed_tree_exit': rc4, 'on_unchanged_tree_exit': rc5}
        # the full check is the two layers together: it exits 1 when either does
        exits = [r['proof_only']['exit'], r['bounded_only']['exit']]
        r['full'] = {'exit': 1 if 1 in exits else max(e for e in exits if e != 3) if any(e != 3 for e in exits) else 3, 'violations': r['proof_only']['violations'] + r['bounded_only']['violations'], 'notes': []}
        r['detected'] = r['full']['exit'] == 1
        res[sid] = r
        print(sid, 'demo', r['demo_clean'], r['demo_mutant'], '| check exit', r['full']['exit'], 'proof', r['proof_only']['exit'], 'bounded', r['bounded_only']['exit'],
              (r['proof_only']['violations'] or r['bounded_only']['violations'] or [''])[0][:90], '| replay', (r.get('replay') or {}).get('on_changed_tree_exit'), (r.get('replay') or {}).get('on_unchanged_tree_exit'))
    finally:
        shutil.rmtree(clean, ignore_errors=True)
        shutil.rmtree(mut, ignore_errors=True)
    json.dump(res, open(RESULTS, 'w'), indent=1, sort_keys=True)
# restore the evidence of the unchanged tree is the caller's job (checks rewrite evidence/<id>.json)
