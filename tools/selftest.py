#!/usr/bin/env python3
"""Self-test of the verifier on a corpus of micro functions (selftest/): every contract that holds must verify,
every deliberately broken function must fail at the named obligation, a function that never returns and a contradictory
precondition must be flagged.  Run with /verif/.venv/bin/python (./check --selftest does that).  Exit 0 iff all as expected."""
import os
import sys
HERE = os.path.dirname(os.path.dirname(os.path.abspath(__file__)))
os.environ['VERIF_REPO'] = os.path.join(HERE, 'selftest')
sys.path[:0] = [HERE, os.path.join(HERE, 'selftest')]
import contracts_st as cs                   # noqa: E402
from pyvc.run import verify_contract        # noqa: E402


def main():
    bad = 0
    for path, k in cs.W.contracts.items():
        rep = verify_contract(cs.W, k)
        failed = sorted({r.vc.name for r in rep.results if not r.ok and r.vc.expect != 'sat'})
        undecided = [r.vc.name for r in rep.results if r.status == 'unknown']
        canary_dead = [r.vc.name for r in rep.results if r.vc.expect == 'sat' and not r.ok]
        exp = k.expect
        if exp == 'verified':
            ok = not rep.error and not failed and not undecided and not canary_dead and rep.results
            got = 'verified (%d obligations)' % len(rep.results) if ok else 'error=%s failed=%s undecided=%s canary=%s' % (rep.error, failed, undecided, canary_dead)
        elif exp.startswith('fails:'):
            want = exp[6:]
            ok = not rep.error and any(want in n for n in failed)
            got = 'failed %s' % failed if failed else 'error=%s NOTHING FAILED' % rep.error
        elif exp.startswith('error:'):
            ok = bool(rep.error) and exp[6:] in rep.error
            got = 'error: %s' % rep.error
        elif exp == 'canary':
            ok = bool(canary_dead) or bool(rep.error)
            got = 'canary not satisfiable: %s %s' % (canary_dead, rep.error or '')
        else:
            ok, got = False, 'unknown expectation'
        print('%-4s %-28s expect %-55s got %s' % ('ok' if ok else 'BAD', k.qual, exp, got[:150]))
        bad += 0 if ok else 1
    print('selftest: %d contracts, %d unexpected' % (len(cs.W.contracts), bad))
    return 1 if bad else 0


if __name__ == '__main__':
    sys.exit(main())
