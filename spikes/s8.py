# Spike: inductive step of chronicle.find's backwards day walk (pointwise in one recorded entry e0),
# for the current code (filter bound = moving cursor) and for the natural repair (filter bound = B0).
from z3 import *
import time
def leap(y): return And(y % 4 == 0, Or(y % 100 != 0, y % 400 == 0))
def dim(y, m): return If(m == 2, If(leap(y), 29, 28), If(Or(m == 4, m == 6, m == 9, m == 11), 30, 31))
def dby(y): y1 = y - 1; return y1*365 + y1/4 - y1/100 + y1/400
def dbm(y, m):
    acc = IntVal(0)
    for k in range(1, 12): acc = acc + If(m > k, dim(y, k), 0)
    return acc
def ordd(y, m, d): return dby(y) + dbm(y, m) + d
def valid(y, m, d): return And(1980 <= y, y <= 2200, 1 <= m, m <= 12, 1 <= d, d <= dim(y, m))
DAY = 86400 * 10**6
# cursor c = (yc, mc, dc, uc) ; entry e0 = (y0, m0, d0, u0) ; requested bounds as timestamps
yc, mc, dc, uc, y0, m0, d0, u0, after, B0 = Ints('yc mc dc uc y0 m0 d0 u0 after B0')
def ts(y, m, d, u): return ordd(y, m, d) * DAY + u
tc, t0 = ts(yc, mc, dc, uc), ts(y0, m0, d0, u0)
base = And(valid(yc, mc, dc), valid(y0, m0, d0), 0 <= uc, uc < DAY, 0 <= u0, u0 < DAY, tc <= B0)
inE = Bool('inE')
def window(F): return And(after < t0, t0 < F)
def Inv(in_, ordc): return in_ == And(window(B0), ordd(y0, m0, d0) > ordc)
ydir, mdir, ddir = Bools('ydir mdir ddir')
fs = And(Implies(y0 == yc, ydir), Implies(And(y0 == yc, m0 == mc), mdir), Implies(And(y0 == yc, m0 == mc, d0 == dc), ddir))  # append() created the dirs
def step(F):
    same_day = And(y0 == yc, m0 == mc, d0 == dc)
    # branch A: all dirs exist -> extend with _load(after, F, day(c)); cursor -= 1 day
    A = And(ydir, mdir, Inv(Or(inE, And(ddir, same_day, window(F))), ordd(yc, mc, dc) - 1))
    # branch B: month dir missing -> cursor = first of month - 1s
    B = And(ydir, Not(mdir), Inv(inE, ordd(yc, mc, 1) - 1))
    # branch C: year dir missing -> cursor = Jan 1 - 1s
    C = And(Not(ydir), Inv(inE, ordd(yc, 1, 1) - 1))
    return Or(A, B, C)
for name, F in (('repaired (filter bound B0)', B0), ('current  (filter bound = cursor)', tc)):
    s = Solver(); s.set('timeout', 60000)
    s.add(base, fs, Inv(inE, ordd(yc, mc, dc)), Not(step(F)))
    t = time.time(); r = s.check(); print(f'{name}: {r} {time.time()-t:.2f}s')
    if r == sat:
        m = s.model(); g = lambda v: m.eval(v, model_completion=True)
        print('   cursor', g(yc), g(mc), g(dc), 'us', g(uc), ' entry', g(y0), g(m0), g(d0), 'us', g(u0), ' B0-tc(days)', g((B0 - tc) / DAY))
