import ast, collections, sys
sys.path.insert(0, '/verif/spikes')
ROOT = '/repo/Python/dawgie/'
TARGETS = {
 'pl/schedule.py': ['_delay','_diff','_is_asp','_priors','build','complete','defer','find','next_job_batch','organize','periodics','purge','update','view_doing','view_todo','view_events'],
 'pl/farm.py': ['Hand._res','Hand._translate','Hand._process','Hand._reg','Hand.connectionLost','Hand.dataReceived','Hand.do','Hand.notify','_put','dispatch','notify_all','rerunid','something_to_do','crew','clear','_cluster_sort','_workers_sort'],
 'pl/dag.py': ['Construct._ancestry','Construct._build_tree','Construct._feedback','Construct._parents','Construct._sub_task','Construct._trim_trees','Construct.trim','Node.add','Node.locate','Node.trim','Node.iter'],
 'util/fifo.py': ['Unique.__init__','Unique.__contains__','Unique.__iter__','Unique.__len__','Unique.add','Unique.copy','Unique.discard','Unique.update','Unique.difference'],
 'util/refs.py': ['algref2svref','as_vref','svref2vref','vref_as_name'],
 'pl/state.py': ['FSM._archive_done','FSM.archive','FSM.is_crew_done','FSM.is_doing_done','FSM.is_todo_done','FSM.is_pipeline_active','FSM.load','FSM.navel_gaze','FSM._navel_gaze','FSM.reload','FSM.reset','FSM.save_prior_state','FSM.set_submit_info','FSM.submit_crossroads','FSM.wait_for_crew','FSM.wait_for_doing','FSM.wait_for_nothing','FSM.wait_for_todo','FSM.construct_attributes'],
 'tools/submit.py': ['Priority.max'],
 'db/shelve/util.py': ['append','construct','dissect','indexed','subset','prime_keys'],
 'db/shelve/__init__.py': ['next','remove','reset','trace','versions','_prime_keys','targets','update'],
 'db/shelve/comms.py': ['Worker.connectionLost','Worker.dataReceived','Worker.do','Worker._do_acquire','Worker._do_release','Worker._lock_db','Worker._unlock_db','Worker._get_db_lock_status','acquire','release'],
 'db/shelve/model.py': ['Interface._load','Interface._update','Interface._update_msv'],
 'db/shelve/search.py': ['SearchImplementation._prime_keys','SearchImplementation._find','SearchImplementation._facet','_subset','_align'],
 'db/basis.py': ['Range.__contains__','SearchFacade._divide','SearchFacade._scrub'],
 'db/util/__init__.py': ['encode','move','decode'],
 'pl/logger/chronicle.py': ['_load','_most_recent_first','append','find'],
 'pl/logger/__init__.py': ['LogSink.dataReceived'],
 'pl/message.py': ['send','receive','make'],
 'security.py': ['TwistedWrapper.process','TwistedWrapper._p1','TwistedWrapper._p2','TwistedWrapper._p3','TwistedWrapper._p4','TwistedWrapper._p5','is_sanctioned','sanctioned'],
 'fe/__init__.py': ['_static'], 'fe/basis.py': ['DynamicContent.__render'],
 '__init__.py': ['Version.__eq__','Version.__ge__','Version.newer','schedule'],
 'pl/version.py': ['current'],
 'tools/compliant.py': ['_walk','_verify','rule_04','rule_05','rule_09','rule_10'],
 'pl/worker/cluster.py': ['execute'], 'pl/worker/__init__.py': ['Context.run'],
}
from mini import find_fn
stm = collections.Counter(); exp = collections.Counter(); calls = collections.Counter(); n=0; loc=0
odd = collections.defaultdict(list)
for f, qs in TARGETS.items():
    for q in qs:
        try: fn = find_fn(ROOT+f, q)
        except StopIteration: print('MISSING', f, q); continue
        n += 1; loc += fn.end_lineno - fn.lineno + 1
        for node in ast.walk(fn):
            t = type(node).__name__
            if isinstance(node, ast.stmt): stm[t]+=1
            elif isinstance(node, ast.expr): exp[t]+=1
            if isinstance(node, ast.Call):
                c = node.func
                name = c.attr if isinstance(c, ast.Attribute) else getattr(c,'id','?')
                calls[name]+=1
            if t in ('Try','With','While','Global','Nonlocal','Yield','YieldFrom','Starred','Lambda','ListComp','SetComp','DictComp','GeneratorExp','JoinedStr','Delete','Raise','Assert','AugAssign','Slice'):
                odd[t].append(f'{f}:{q}')
print(n, 'functions', loc, 'lines')
print('stmts', dict(stm)); print('exprs', dict(exp))
for k,v in odd.items(): print(k, len(v), sorted(set(v))[:12])
print('calls', calls.most_common(90))
