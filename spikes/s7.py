# Spike: inductive step of SearchFacade._scrub's merge loop, pointwise in x. Range(start, stop|None).
from z3 import *
x, ls, lstop, rs, rstop, prev = Ints('x ls lstop rs rstop prev'); lnone, rnone = Bools('lnone rnone')
inM_rest, inU = Bools('inM_rest inU')   # x in merged[:-1] ; x in union(ranges[:k])
def inr(s, stop, none): return And(s <= x, Or(none, x < stop))
Inv = lambda inrest, ls, lstop, lnone, inU: And(inU == Or(inrest, inr(ls, lstop, lnone)))
hyp = And(Inv(inM_rest, ls, lstop, lnone, inU), ls <= rs)   # sortedness: last.start <= r.start
inU2 = Or(inU, inr(rs, rstop, rnone))
# branches of the real loop body
b1 = lnone                                            # continue
b2 = And(Not(lnone), rs > lstop)                      # append
b3 = And(Not(lnone), Not(rs > lstop), Or(rnone, rstop > lstop))   # widen last
b4 = And(Not(lnone), Not(rs > lstop), Not(Or(rnone, rstop > lstop)))  # nothing
post = Or(And(b1, Inv(inM_rest, ls, lstop, lnone, inU2)),
          And(b2, Inv(Or(inM_rest, inr(ls, lstop, lnone)), rs, rstop, rnone, inU2)),
          And(b3, Inv(inM_rest, ls, rstop, rnone, inU2)),
          And(b4, Inv(inM_rest, ls, lstop, lnone, inU2)))
s = Solver(); s.add(hyp, Not(post)); print('merge step inductive:', s.check())
# next-iteration sortedness carried: new last.start <= r.start (for the following r' >= r.start)
s = Solver(); s.add(hyp, b2, Not(rs <= rs)); print('sortedness carried (append):', s.check())
# mutant: '>' -> '>=' in "r.start > merged[-1].stop" is harmless; mutant: drop "r.stop is None or" loses open ranges
b3m = And(Not(lnone), Not(rs > lstop), And(Not(rnone), rstop > lstop)); b4m = And(Not(lnone), Not(rs > lstop), Not(And(Not(rnone), rstop > lstop)))
postm = Or(And(b1, Inv(inM_rest, ls, lstop, lnone, inU2)), And(b2, Inv(Or(inM_rest, inr(ls, lstop, lnone)), rs, rstop, rnone, inU2)),
           And(b3m, Inv(inM_rest, ls, rstop, rnone, inU2)), And(b4m, Inv(inM_rest, ls, lstop, lnone, inU2)))
s = Solver(); s.add(hyp, Not(postm)); r = s.check(); print('mutant (open range dropped):', r, s.model() if r == sat else '')
