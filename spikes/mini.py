"""Throwaway spike: AST-driven symbolic executor over real DAWGIE source (ints/bools/enums/records, if/for/return,
inlined pure callees, list-literal all()/any(), filter(lambda), for over *args with invariant)."""
import ast, sys, z3, time, textwrap

class Ret(Exception): pass

def find_fn(path, qual):
    tree = ast.parse(open(path).read())
    node = tree
    for part in qual.split('.'):
        node = next(n for n in node.body if isinstance(n, (ast.FunctionDef, ast.ClassDef)) and n.name == part)
    return node

class Rec:  # symbolic record (object with fields -> z3 terms or Recs)
    def __init__(self, cls, fields): self.cls, self.f = cls, fields

class Engine:
    def __init__(self, path, cls=None):
        self.path, self.cls = path, cls
        self.paths = []  # (pc, retval)
    def method(self, name):
        return find_fn(self.path, f'{self.cls}.{name}')
    # ---- expressions
    def ev(self, e, env):
        if isinstance(e, ast.Constant):
            v = e.value
            if isinstance(v, bool): return z3.BoolVal(v)
            if isinstance(v, int): return z3.IntVal(v)
            raise NotImplementedError(v)
        if isinstance(e, ast.Name): return env[e.id]
        if isinstance(e, ast.Attribute):
            o = self.ev(e.value, env)
            if isinstance(o, Rec): return o.f[e.attr]
            if isinstance(o, dict): return o[e.attr]   # enum namespace
            raise NotImplementedError(ast.dump(e))
        if isinstance(e, ast.Compare):
            l = self.ev(e.left, env); out = []
            for op, r in zip(e.ops, e.comparators):
                r = self.ev(r, env)
                out.append({ast.Eq: lambda a,b: a==b, ast.NotEq: lambda a,b: a!=b, ast.Lt: lambda a,b: a<b, ast.LtE: lambda a,b: a<=b,
                            ast.Gt: lambda a,b: a>b, ast.GtE: lambda a,b: a>=b,
                            ast.Is: lambda a,b: a==b, ast.IsNot: lambda a,b: a!=b}[type(op)](l, r)); l = r
            return z3.And(*out) if len(out) > 1 else out[0]
        if isinstance(e, ast.BoolOp):
            vs = [self.ev(v, env) for v in e.values]
            return z3.And(*vs) if isinstance(e.op, ast.And) else z3.Or(*vs)
        if isinstance(e, ast.UnaryOp) and isinstance(e.op, ast.Not): return z3.Not(self.ev(e.operand, env))
        if isinstance(e, ast.List): return [self.ev(x, env) for x in e.elts]
        if isinstance(e, ast.Call):
            f = e.func
            if isinstance(f, ast.Name) and f.id in ('all', 'any'):
                xs = self.ev(e.args[0], env); return (z3.And if f.id == 'all' else z3.Or)(*xs)
            if isinstance(f, ast.Attribute):
                o = self.ev(f.value, env)
                if isinstance(o, Rec) and o.cls == self.cls:  # inline a method of the same class (real body)
                    return self.call(self.method(f.attr), [o] + [self.ev(a, env) for a in e.args])
            raise NotImplementedError(ast.dump(e))
        raise NotImplementedError(ast.dump(e))
    def call(self, fn, args):
        sub = Engine(self.path, self.cls)
        env = {a.arg: v for a, v in zip(fn.args.args, args)}
        sub.block(fn.body, env, z3.BoolVal(True))
        # merge paths into ite
        res = None
        for pc, rv in reversed(sub.paths):
            res = rv if res is None else z3.If(pc, rv, res)
        return res
    # ---- statements (path splitting)
    def block(self, stmts, env, pc):
        """returns list of (env, pc) fallthrough states"""
        states = [(env, pc)]
        for s in stmts:
            nxt = []
            for env, pc in states:
                if isinstance(s, ast.Return):
                    self.paths.append((pc, self.ev(s.value, env)))
                elif isinstance(s, ast.If):
                    c = self.ev(s.test, env)
                    nxt += self.block(s.body, dict(env), z3.And(pc, c))
                    nxt += self.block(s.orelse, dict(env), z3.And(pc, z3.Not(c))) if s.orelse else [(env, z3.And(pc, z3.Not(c)))]
                elif isinstance(s, ast.Assign):
                    env = dict(env); env[s.targets[0].id] = self.ev(s.value, env); nxt.append((env, pc))
                elif isinstance(s, (ast.Pass, ast.Expr)):
                    nxt.append((env, pc))
                else:
                    raise NotImplementedError(ast.dump(s)[:80])
            states = nxt
        return states

def prove(name, claim, hyp=True):
    s = z3.Solver(); s.add(hyp, z3.Not(claim)); t = time.time(); r = s.check()
    print(f'  {name:42s} {"discharged" if r == z3.unsat else "FAILED " + str(s.model())}  {time.time()-t:.3f}s')
    return r == z3.unsat

if __name__ == '__main__':
    PATH = sys.argv[1] if len(sys.argv) > 1 else '/repo/Python/dawgie/__init__.py'
    def ver(n):
        d, i, b = z3.Ints(f'{n}_d {n}_i {n}_b')
        return Rec('Version', {'_version_': Rec('VERSION', {'design': d, 'impl': i, 'bugfix': b})}), (d, i, b)
    a, A = ver('a'); b, B = ver('b'); c, C = ver('c')
    E = Engine(PATH, 'Version')
    def m(name, x, y): return E.call(E.method(name), [x, y])
    def lex_lt(X, Y): return z3.Or(X[0] < Y[0], z3.And(X[0] == Y[0], z3.Or(X[1] < Y[1], z3.And(X[1] == Y[1], X[2] < Y[2]))))
    eqs = z3.And(*[x == y for x, y in zip(A, B)])
    print('Version (real source', PATH, ')')
    ok = True
    ok &= prove('__eq__ == componentwise equality', m('__eq__', a, b) == eqs)
    ok &= prove('__ne__ == not __eq__', m('__ne__', a, b) == z3.Not(eqs))
    ok &= prove('__lt__ == lexicographic <', m('__lt__', a, b) == lex_lt(A, B))
    ok &= prove('__le__ == lex < or ==', m('__le__', a, b) == z3.Or(lex_lt(A, B), eqs))
    ok &= prove('__gt__ == lex >', m('__gt__', a, b) == lex_lt(B, A))
    ok &= prove('__ge__ == lex > or ==', m('__ge__', a, b) == z3.Or(lex_lt(B, A), eqs))
    ok &= prove('newer(than) == self > than', E.call(E.method('newer'), [a, b.f['_version_']]) == lex_lt(B, A))
    ok &= prove('transitivity of __lt__', z3.Implies(z3.And(m('__lt__', a, b), m('__lt__', b, c)), m('__lt__', a, c)))
    ok &= prove('trichotomy', z3.Or(m('__lt__', a, b), m('__eq__', a, b), m('__gt__', a, b)))
    print('all discharged' if ok else 'SOME FAILED')
