from z3 import *
import time, subprocess
S = StringSort()
P, V = StringVal(':parent___'), StringVal('___version:')
n, n2, v2, ps, ps2, k = Strings('n n2 v2 ps ps2 k')
def digits(s):  # decimal string of a natural
    return InRe(s, Plus(Range('0','9')))
def sepfree(x): return And(Not(Contains(x, P)), Not(Contains(x, V)))
wf = And(k == Concat(ps2, P, n2, V, v2), digits(ps2), sepfree(n2), InRe(v2, Plus(Union(Range('0','9'), Re('.')))))
sn = Concat(ps, P, n)
pre = And(wf, digits(ps), sepfree(n))
def run(name, goal_neg, to=30):
    s = Solver(); s.set('timeout', to*1000); s.add(pre, goal_neg)
    t=time.time(); r=s.check(); print(f'{name}: z3 {r} {time.time()-t:.2f}s', (s.model()[k], s.model()[n]) if r==sat else '')
    open('q.smt2','w').write('(set-logic ALL)\n'+s.to_smt2())
    t=time.time(); r=subprocess.run(['cvc5','--strings-exp',f'--tlimit={to*1000}','q.smt2'],capture_output=True,text=True); print(f'   cvc5 {r.stdout.strip()[:40]} {r.stderr.strip()[:80]} {time.time()-t:.2f}s')
# current code: startswith(sn)  => exact?   (expect sat = bug)
run('current subset exactness', And(PrefixOf(sn, k), Not(And(n2 == n, ps2 == ps))))
# fixed: startswith(sn+V) => exact
run('fixed subset exactness', And(PrefixOf(Concat(sn, V), k), Not(And(n2 == n, ps2 == ps))))
# completeness of fixed: exact => startswith(sn+V)
run('fixed subset completeness', And(n2 == n, ps2 == ps, Not(PrefixOf(Concat(sn, V), k))))
