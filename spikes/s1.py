# Feasibility: pointwise VC for the inner loops of next_job_batch with z3 sets-as-arrays.
from z3 import *
import time
Tgt = DeclareSort('Tgt'); Node = DeclareSort('Node')
ALL = Const('ALL', Tgt)
SetT = ArraySort(Tgt, BoolSort()); SetN = ArraySort(Node, BoolSort())
todo = Array('todo', Node, SetT); doing = Array('doing', Node, SetT)
inque = Const('inque', SetN); anc = Array('anc', Node, SetN)
job = Const('job', Node)
def P(m,t): return Or(todo[m][t], doing[m][t])
# skolems
t0 = Const('t0', Tgt); m0 = Const('m0', Node)
# --- inner loop over deps: ghost set D (processed deps); loop var m; state: available (SetT)
D = Const('D', SetN); avail = Const('avail', SetT); m = Const('m', Node)
blocked = lambda t, mm: Or(t == ALL, P(mm, ALL), P(mm, t))
# Inv_dep(D, avail): avail subset todo[job]; (m0 in D and blocked(t0,m0)) -> not avail[t0]
t = Const('t', Tgt)
def Inv(D, avail):
    return And(ForAll([t], Implies(avail[t], todo[job][t])),
               Implies(And(D[m0], blocked(t0, m0), todo[job][t0]), Not(avail[t0])))
# body for dep m: inner loop over targets of todo[job] (snapshot). Its own invariant with ghost set T (processed targets)
T = Const('T', SetT); avail2 = Const('avail2', SetT); tg = Const('tg', Tgt)
# inner invariant: avail2 subset avail_in ; (t0 in T and blocked(t0,m)) -> not avail2[t0]; and the outer-fact preserved: not avail_in[t0] -> not avail2[t0]
def InvT(T, a2, a_in):
    return And(ForAll([t], Implies(a2[t], a_in[t])),
               Implies(And(T[t0], blocked(t0, m)), Not(a2[t0])))
# one inner iteration: tg in todo[job], not in T
cleared = Or(tg == ALL, todo[m][ALL], doing[m][ALL])
a_after_clear = If(cleared, K(Tgt, False), avail2)
rem = And(Or(todo[m][tg], doing[m][tg]), a_after_clear[tg])
a_next = If(rem, Store(a_after_clear, tg, False), a_after_clear)
s = Solver()
# VC1: inner preservation
a_in = Const('a_in', SetT)
s.push()
s.add(InvT(T, avail2, a_in), todo[job][tg], Not(T[tg]))
s.add(Not(InvT(Store(T, tg, True), a_next, a_in)))
t1=time.time(); print('inner preservation', s.check(), time.time()-t1); s.pop()
# VC2: inner init
s.push(); s.add(Not(InvT(K(Tgt, False), a_in, a_in))); print('inner init', s.check()); s.pop()
# VC3: outer preservation using inner exit: T == todo[job] (as sets)
s.push()
s.add(Inv(D, a_in), inque[m], anc[job][m], Not(D[m]))
s.add(InvT(T, avail2, a_in), ForAll([t], T[t] == todo[job][t]))
s.add(Not(Inv(Store(D, m, True), avail2)))
t1=time.time(); print('outer preservation', s.check(), time.time()-t1); s.pop()
