from z3 import *
import time
B = SeqSort(BitVecSort(8))
buf = Const('buf', B); n = Int('n')
pack = Function('pack', IntSort(), B)
def U(buf, has, n): return If(has, Concat(pack(n), buf), buf)
s = Solver(); s.set('timeout', 20000)
s.add(0 <= n, n < 2**32, Length(buf) >= n, Length(pack(n)) == 4)
payload = Extract(buf, 0, n); buf2 = Extract(buf, n, Length(buf) - n)
s.add(Not(U(buf, True, n) == Concat(pack(n), payload, U(buf2, False, 0))))
t=time.time(); print('branch2 ground:', s.check(), round(time.time()-t,3))
