from z3 import *
import time
def leap(y): return And(y % 4 == 0, Or(y % 100 != 0, y % 400 == 0))
def dim(y, m): return If(m == 2, If(leap(y), 29, 28), If(Or(m == 4, m == 6, m == 9, m == 11), 30, 31))
def dby(y):  # days before year y
    y1 = y - 1
    return y1*365 + y1/4 - y1/100 + y1/400
def dbm(y, m):
    acc = IntVal(0)
    for k in range(1, 12):
        acc = acc + If(m > k, dim(y, k), 0)
    return acc
def ordd(y, m, d): return dby(y) + dbm(y, m) + d
y, m, d, dom = Ints('y m d dom')
valid = And(1 <= y, y <= 9998, 1 <= m, m <= 12, 1 <= d, d <= dim(y, m), 1 <= dom, dom <= 31)
# current code: next month always
nm = m + 1; ty = y + If(nm == 13, 1, 0); tm = If(nm == 13, 1, nm)
s = Solver(); s.set('timeout', 30000)
s.push(); s.add(valid, Not(dom <= dim(ty, tm)))
t=time.time(); r=s.check(); print('ctor precondition (current code) :', r, round(time.time()-t,3), s.model() if r==sat else ''); s.pop()
s.push(); s.add(valid, dom <= dim(ty, tm), Not(ordd(ty, tm, dom) - ordd(y, m, d) <= 31))
t=time.time(); r=s.check(); print('<= one period ahead (current code):', r, round(time.time()-t,3), s.model() if r==sat else ''); s.pop()
# weekday: isoweekday(ord) = (ord-1)%7+1 ; dow delta
s.push()
now_ord = ordd(y, m, d); today = (now_ord - 1) % 7  # isoweekday-1, since ordinal 1 = Monday
dow = Int('dow'); dd = If(dow < today, 7 + dow - today, dow - today)
s.add(valid, 0 <= dow, dow <= 6, Not(And((now_ord + dd - 1) % 7 == dow, dd >= 0, dd <= 6)))
t=time.time(); print('dow lands on its weekday within a week:', s.check(), round(time.time()-t,3)); s.pop()
