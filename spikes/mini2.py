"""Spike 2: heap + collections + loop invariant + recursive contract, driven by the real AST of schedule.purge."""
import ast, sys, z3, time, itertools
from mini import find_fn
PATH = sys.argv[1] if len(sys.argv) > 1 else '/repo/Python/dawgie/pl/schedule.py'
Node = z3.DeclareSort('Node'); Tgt = z3.DeclareSort('Tgt')
SetT = z3.ArraySort(Tgt, z3.BoolSort())
FIELDS = ('do', 'doing', 'todo')
kids = z3.Function('kids', Node, Node, z3.BoolSort())      # child relation (iteration order irrelevant)
reach = z3.Function('reach', Node, Node, z3.BoolSort())    # desc*  (only true facts of the lfp are asserted)
wit = z3.Function('wit', Node, Node, Node)                 # inversion witness
def reach_facts(terms):
    out = []
    for a in terms:
        out.append(reach(a, a))
        for b in terms:
            out.append(z3.Implies(reach(a, b), z3.Or(a == b, z3.And(kids(a, wit(a, b)), reach(wit(a, b), b)))))
            for c in terms:
                out.append(z3.Implies(z3.And(kids(a, c), reach(c, b)), reach(a, b)))
    return out

class Heap:
    def __init__(self, tag):
        self.f = {k: z3.Array(f'{k}_{tag}', Node, SetT) for k in FIELDS}
    def clone(self): h = Heap.__new__(Heap); h.f = dict(self.f); return h
    def mem(self, k, n, t): return self.f[k][n][t]

# contract of purge (pointwise in n, t): used both to assume (callee) and to prove (this call)
def purge_post(H0, H1, node, target, n, t):
    cl = []
    for k in FIELDS:
        cl += [z3.Implies(reach(node, n), z3.Not(H1.mem(k, n, target))),                        # withdrawn
               z3.Implies(t != target, H1.mem(k, n, t) == H0.mem(k, n, t)),                      # other targets untouched
               z3.Implies(z3.Not(reach(node, n)), H1.mem(k, n, t) == H0.mem(k, n, t)),          # non-descendants untouched
               z3.Implies(H1.mem(k, n, t), H0.mem(k, n, t))]                                     # only removals
    return z3.And(*cl)

class Sym:
    """symbolic execution of purge's real body; node/target symbolic; returns obligations"""
    def __init__(self, fn):
        self.fn = fn; self.obl = []; self.counter = itertools.count()
    def fieldref(self, e, env):
        # node.get('do', [])  -> (field, node)   [Element.get with a constant key]
        assert isinstance(e, ast.Call) and isinstance(e.func, ast.Attribute) and e.func.attr == 'get'
        return e.args[0].value, env[e.func.value.id]
    def cond(self, e, env, H):
        assert isinstance(e, ast.Compare) and isinstance(e.ops[0], ast.In)
        k, n = self.fieldref(e.comparators[0], env)
        return H.mem(k, n, env[e.left.id])
    def run(self, skn, skt):
        node, target = z3.Const('node', Node), z3.Const('target', Tgt)
        env = {'node': node, 'target': target}
        H0 = Heap('pre'); H = H0.clone(); pc = []
        body = [s for s in self.fn.body if not (isinstance(s, ast.Expr) and isinstance(s.value, ast.Constant))]
        for s in body:
            if isinstance(s, ast.If):     # if target in node.get(k, []): node.get(k).remove(target)
                c = self.cond(s.test, env, H)
                call = s.body[0].value; assert call.func.attr == 'remove'
                k, n = self.fieldref(call.func.value, env); t = env[call.args[0].id]
                self.obl.append(('safe.remove@%d' % s.lineno, z3.And(*pc), z3.Implies(c, H.mem(k, n, t))))  # ValueError/KeyError excluded
                new = z3.Store(H.f[k], n, z3.Store(H.f[k][n], t, False))
                H.f[k] = z3.If(c, new, H.f[k])
            elif isinstance(s, ast.For):  # for child in node: purge(child, target)
                assert s.iter.id == 'node'
                Hent = H
                def Inv(done_w, Hx):  # pointwise invariant, ghost 'done' only needed at the witness child
                    w = wit(node, skn)
                    return z3.And(purge_post_loop(Hent, Hx, node, target, skn, skt, done_w))
                def purge_post_loop(Ha, Hb, node, target, n, t, done_w):
                    cl = []
                    for k in FIELDS:
                        cl += [z3.Implies(n == node, Hb.mem(k, n, target) == Ha.mem(k, n, target)),
                               z3.Implies(z3.And(done_w, reach(wit(node, n), n)), z3.Not(Hb.mem(k, n, target))),
                               z3.Implies(t != target, Hb.mem(k, n, t) == Ha.mem(k, n, t)),
                               z3.Implies(z3.Not(reach(node, n)), Hb.mem(k, n, t) == Ha.mem(k, n, t)),
                               z3.Implies(Hb.mem(k, n, t), Ha.mem(k, n, t)),
                               z3.Implies(Hb.mem(k, n, target), Ha.mem(k, n, target))]
                    return z3.And(*cl)
                # init: done = {} , heap = entry heap
                self.obl.append(('inv.0.init', z3.And(*pc), Inv(z3.BoolVal(False), Hent)))
                # step: arbitrary iteration
                Hi = Heap('iter'); done_w = z3.Bool('done_w'); child = z3.Const('child', Node)
                Hj = Heap('after_call')
                terms = [node, child, skn, wit(node, skn)]
                callee = z3.And(*[purge_post(Hi, Hj, child, target, n, t) for n in terms for t in (skt, target)])
                hyp = z3.And(*pc, Inv(done_w, Hi), kids(node, child), callee, *reach_facts(terms))
                done_w2 = z3.Or(done_w, child == wit(node, skn))
                self.obl.append(('inv.0.step', hyp, Inv(done_w2, Hj)))
                # use: after loop every child is done, in particular the witness (if it is a child)
                Hx = Heap('exit'); H = Hx
                pc.append(Inv(kids(node, wit(node, skn)), Hx)); pc += reach_facts([node, skn, wit(node, skn)])
            elif isinstance(s, ast.Return): break
            else: raise NotImplementedError(ast.dump(s)[:60])
        self.obl.append(('post', z3.And(*pc), purge_post(H0, H, node, target, skn, skt)))
        self.obl.append(('canary', z3.And(*pc), z3.BoolVal(False)))
        return self.obl

fn = find_fn(PATH, 'purge')
obl = Sym(fn).run(z3.Const('n0', Node), z3.Const('t1', Tgt))
bad = 0
for name, hyp, goal in obl:
    s = z3.Solver(); s.set('timeout', 10000); s.add(hyp, z3.Not(goal)); t = time.time(); r = s.check()
    exp = z3.sat if name == 'canary' else z3.unsat
    print(f'  purge.{name:22s} {r}  {time.time()-t:.3f}s', '' if r == exp else '   <-- UNEXPECTED')
    bad += r != exp
print('ok' if not bad else f'{bad} unexpected')
