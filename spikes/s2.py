from z3 import *
import time
B = SeqSort(BitVecSort(8))
buf = Const('buf', B); n = Int('n')
pack = Function('pack', IntSort(), B); unpack = Function('unpack', B, IntSort())
x = Const('x', B); i = Int('i')
ax = [ForAll([i], Implies(And(0 <= i, i < 2**32), And(Length(pack(i)) == 4, unpack(pack(i)) == i))),
      ForAll([x], Implies(Length(x) == 4, And(0 <= unpack(x), unpack(x) < 2**32, pack(unpack(x)) == x)))]
def U(buf, has, n): return If(has, Concat(pack(n), buf), buf)
s = Solver(); s.set('timeout', 20000); s.add(ax)
# branch 1: len None, len(buf) >= 4
s.push()
s.add(Length(buf) >= 4)
n1 = unpack(Extract(buf, 0, 4)); buf1 = Extract(buf, 4, Length(buf) - 4)
s.add(Not(U(buf1, True, n1) == U(buf, False, 0)))
t=time.time(); print('branch1 stream preserved:', s.check(), round(time.time()-t,3)); s.pop()
# branch 2: len = n, len(buf) >= n: emits payload buf[:n]; U = pack(n)+payload+U'
s.push()
s.add(0 <= n, n < 2**32, Length(buf) >= n)
payload = Extract(buf, 0, n); buf2 = Extract(buf, n, Length(buf) - n)
s.add(Not(U(buf, True, n) == Concat(pack(n), payload, U(buf2, False, 0))))
t=time.time(); print('branch2 frame stripped:', s.check(), round(time.time()-t,3)); s.pop()
# append: U(buf+data) == U(buf)+data
data = Const('data', B); has = Bool('has')
s.push(); s.add(Not(U(Concat(buf, data), has, n) == Concat(U(buf, has, n), data)))
t=time.time(); print('append:', s.check(), round(time.time()-t,3)); s.pop()
