"""Contracts of the self-test functions; `expect` says what the verifier must answer."""
import z3
from pyvc.world import World
from pyvc.core import QHyp
from pyvc.spec import *     # noqa

W = World()
NREF = Ref('N')
W.declare_fields('N', parents=SetOf(ATOM), mark=INT)
W.class_path['N'] = 'st.cases.N'
W.declare_global('st.cases.LIMIT', INT)
W.invariants = lambda ex, c: []
TAB = MapOf(ATOM, INT)
ITEMS = ListOf(INT)


def _gather(name, expect):
    @contract(W, 'st/cases.py', name)
    class K(ContractBase):
        params = {'nodes': Bag(NREF)}
        returns = SetOf(ATOM)
        modifies = []
        locals = {'acc': SetOf(ATOM)}

        def ensures(c):
            n, x = c.sk('n', NREF), c.sk('x', ATOM)
            return {'collects-every-parent': Implies(And(c['nodes'][n], c.old.f('N.parents', n)[x]), c.result[x])}

        def _inv(c):
            n, x = c.sk('n', NREF), c.sk('x', ATOM)
            return {'so-far': Implies(And(c.done[n], c.old.f('N.parents', n)[x]), c.loc('acc')[x])}
        loops = {'for n in nodes': Loop(inv=_inv)}
    K.expect = expect
    return K


_gather('gather_ok', 'verified')
_gather('gather_bad', 'fails:inv.0.step.so-far')


def _simple(name, params, returns, ensures, expect, **extra):
    @contract(W, 'st/cases.py', name)
    class K(ContractBase):
        pass
    K.params, K.returns, K.modifies = params, returns, extra.pop('modifies', [])
    K.param_names = list(params)
    K.ensures = staticmethod(ensures)
    for k, v in extra.items():
        setattr(K, k, v)
    K.expect = expect
    return K


OI = Opt(INT)
_simple('pick_ok', {'flag': BOOL}, INT, lambda c: {'value': c.result == If(c['flag'], 1, 0)}, 'verified')
_simple('pick_bad', {'flag': BOOL}, INT, lambda c: {'value': Implies(c['flag'], c.result == 1)}, 'fails:safe.unbound')
_simple('succ_ok', {'o': OI}, INT, lambda c: {'value': c.result == If(OI.is_none(c['o']), 0, OI.val(c['o']) + 1)}, 'verified')
_simple('succ_bad', {'o': OI}, INT, lambda c: {'value': Implies(Not(OI.is_none(c['o'])), c.result == OI.val(c['o']) + 1)}, 'fails:safe.none')
_simple('lookup_ok', {'table': TAB, 'key': ATOM}, INT,
        lambda c: {'value': c.result == If(TAB.opt.is_none(c['table'][c['key']]), -1, TAB.opt.val(c['table'][c['key']]))}, 'verified')
_simple('lookup_bad', {'table': TAB, 'key': ATOM}, INT,
        lambda c: {'value': Implies(Not(TAB.opt.is_none(c['table'][c['key']])), c.result == TAB.opt.val(c['table'][c['key']]))}, 'fails:safe.KeyError')


def _page_spec(c):
    i = c.sk('i', INT)
    L, R = c['items'], c.result
    n = ITEMS.len(L)
    want = If(c['index'] >= n, 0, If(c['index'] + c['limit'] > n, n - c['index'], c['limit']))
    return {'length': ITEMS.len(R) == want, 'content': Implies(And(0 <= i, i < want), ITEMS.arr(R)[i] == ITEMS.arr(L)[c['index'] + i])}


def _page_req(c):
    return {'sane': And(c['index'] >= 0, c['limit'] >= 0, ITEMS.len(c['items']) >= 0)}


_simple('page_ok', {'items': ITEMS, 'index': INT, 'limit': INT}, ITEMS, _page_spec, 'verified', requires=staticmethod(_page_req))
_simple('page_bad', {'items': ITEMS, 'index': INT, 'limit': INT}, ITEMS, _page_spec, 'fails:post.length', requires=staticmethod(_page_req))
_simple('same_ok', {'a': INT, 'b': INT}, BOOL, lambda c: {'value': c.result == (c['a'] == c['b'])}, 'verified')


def _mark(name, expect):
    @contract(W, 'st/cases.py', name)
    class K(ContractBase):
        params = {'nodes': Bag(NREF)}
        modifies = ['N.mark']

        def ensures(c):
            n = c.sk('n', NREF)
            return {'marked': Implies(c['nodes'][n], c.cur.f('N.mark', n) == 1)}

        def _inv(c):
            n = c.sk('n', NREF)
            return {'so-far': Implies(c.done[n], c.cur.f('N.mark', n) == 1)}
        loops = {'for n in nodes': Loop(inv=_inv, modifies=['N.mark'])}
    K.expect = expect
    return K


_mark('mark_ok', 'verified')
_mark('mark_bad', 'fails:frame')
_simple('always_raises', {'x': INT}, INT, lambda c: {'anything': c.result == 0}, 'error:no feasible path reaches a normal return',
        raises={'ValueError': lambda c: z3.BoolVal(True)})


def _settle(name, expect):
    @contract(W, 'st/cases.py', name)
    class K(ContractBase):
        params = {'state': NREF}
        returns = INT
        modifies = ['N.mark']
        raises = {'KeyError': lambda c: z3.BoolVal(True)}

        def ensures(c):
            return {'flagged': c.cur.f('N.mark', c['state']) == 1}

        def ensures_on_raise(c):
            return {'flagged-even-when-rejected': c.cur.f('N.mark', c['state']) == 1}
    K.expect = expect
    return K


_settle('settle_ok', 'error:no feasible path reaches a normal return')      # it always raises: the guard must say so
_settle('settle_bad', 'fails:post.raise.flagged-even-when-rejected')
_simple('capped_ok', {'x': INT}, INT, lambda c: {'capped': And(c.result <= c.old.g('st.cases.LIMIT'), Implies(c['x'] < c.old.g('st.cases.LIMIT'), c.result == c['x']))},
        'verified')
# contradictory precondition: everything would "verify"; the canary must expose it
_simple('contradict', {'flag': BOOL}, INT, lambda c: {'value': c.result == 7}, 'canary',
        requires=staticmethod(lambda c: {'impossible': And(c['flag'], Not(c['flag']))}))
