"""Micro functions for the self-test of the verifier: every *_ok function satisfies its contract, every *_bad one
breaks exactly the obligation named in selftest/contracts_st.py.  Several are distilled from episodes in which the
verifier had accepted broken code (see DESIGN.md section 8)."""

LIMIT = 10


class N:
    def __init__(self):
        self.parents = set()
        self.mark = 0


def gather_ok(nodes):
    acc = set()
    for n in nodes:
        acc.update(n.parents)
    return acc


def gather_bad(nodes):          # the local is re-bound inside the loop instead of being extended
    acc = set()
    for n in nodes:
        acc = n.parents
    return acc


def pick_ok(flag):
    x = 0
    if flag:
        x = 1
    return x


def pick_bad(flag):             # x is unbound when flag is false
    if flag:
        x = 1
    return x


def succ_ok(o):
    if o is None:
        return 0
    return o + 1


def succ_bad(o):                # None + 1
    return o + 1


def lookup_ok(table, key):
    if key in table:
        return table[key]
    return -1


def lookup_bad(table, key):     # KeyError
    return table[key]


def page_ok(items, index, limit):
    return items[index:index + limit]


def page_bad(items, index, limit):      # the slice every page after the first gets wrong
    return items[index:limit]


def same_ok(a, b):
    return (a, 1) == (b, 1)


def mark_ok(nodes):
    for n in nodes:
        n.mark = 1


def mark_bad(nodes):            # also touches a field the contract does not list
    for n in nodes:
        n.mark = 1
        n.parents = set()


def always_raises(x):           # no path returns: a contract on it must not count as verified
    raise ValueError(x)


def settle_ok(state):
    state.mark = 1
    if state.mark == 1:
        raise KeyError('rejected')
    return 0


def settle_bad(state):          # the exceptional path leaves the flag unset
    if state.mark == 0:
        raise KeyError('rejected')
    state.mark = 1
    return 0


def capped_ok(x):
    return x if x < LIMIT else LIMIT


def contradict(flag):           # any body: its contract requires the impossible, the canary must expose that
    return 7
