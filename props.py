"""Per-property registry: which contract modules, lemmas and bounded stand-in decide it, and what is trusted."""

COMMON_ASSUME = [
    'Python semantics assumed by the VC generator: int is mathematical; set/dict iteration order arbitrary; lists whose order is irrelevant are modelled as sets with a no-duplicate obligation on every append, ordered lists as (length, array); filter/map/generators are lazy; objects are references into a heap split by field; unmodelled callees do not raise unless their contract says so; termination is not proved',
    'DAWGIE is imported from $VERIF_REPO/Python (asserted at start), never from site-packages',
    'logging calls are dropped; every other construct outside the modelled subset aborts the proof of that function (contract drift -> bounded stand-in only), it is never skipped silently',
]
A1 = 'A1 atomic callbacks: reactor callbacks run to completion one at a time (Twisted); code that DAWGIE runs on pool threads is outside the family'
A2 = 'A2 promotion off: dawgie.context.allow_promotion is False, so schedule.promote() is falsy and has no effect'
A3 = 'A3 names: algorithm/state-vector/value/target names contain no "." and none of the separators ":parent___" / "___version:"'
A4 = 'A4 one node per tag in the algorithm tree and in the queue'
A5 = 'A5 declared inputs are acyclic (no self dependence); feedback references are not ordering edges'
A6 = 'A6 atomic storage steps: os.rename within one file system, one shelve assignment, one os.unlink are atomic'
A7 = 'A7 library contracts: struct ">I" is a bijection 0..2^32-1 <-> 4 bytes; pickle.loads(pickle.dumps(x)) == x; transitions.Machine rejects an unlisted (state, trigger) before any callback and runs before -> state change -> after; twisted deferToThread/LoopingCall/callLater deliver their callbacks'
A8 = 'A8 the PostgreSQL back end (db/post) cannot run here and is not decided'

BOUNDED = 'bounded stand-in (labelled, never counted as proved): run-time oracle from the property statement on the real code over the bounded space stated in evidence.coverage.bounded'

PROPS = {}


def prop(pid, **kw):
    kw.setdefault('contracts', [])
    kw.setdefault('harness', 'harness.' + pid.lower())
    kw.setdefault('level', 'other')
    kw.setdefault('trusted_base', [])
    kw['assumptions'] = COMMON_ASSUME + kw.get('assumptions', [])
    PROPS[pid] = kw


TECH = 'contract-based deductive verification: pyvc generates VCs from the real AST of the functions under sidecar contracts, z3 (cvc5 for unknowns) discharges them for all inputs; '
ELEMENT = 'xml.etree.ElementTree.Element modelled as (tag, attributes addressed by constant keys, child set)'

prop('C01', contracts=['c01_release'],
     technique=TECH + 'release filter of schedule.next_job_batch and schedule.find proved with loop invariants; bounded scheduler simulation as labelled stand-in',
     explanation='PROVED for every queue/tree/state: next_job_batch releases (n,t) only if no queued ancestor of n has t or __all__ pending or executing and never releases __all__ while an ancestor is queued (post.safety), it only moves targets todo->do/doing (post.conserve.*), pending-or-executing of every node is unchanged by the batch, result = nodes with a release; find returns the queued node with that tag. BOUNDED ONLY: that `ancestry` is the transitive closure (C09), that every writer keeps pending work in the queue (J1), and the interleavings of events on the simulated farm.',
     trusted_base=[ELEMENT, 'dawgie.util.fifo.Unique viewed as a set (order abstracted)', 'promotion.Engine.__call__ returns falsy (A2)'],
     assumptions=[A1, A2, A4, A5])
prop('C02', contracts=['c02_update'],
     technique=TECH + 'schedule.update under contract with three loop invariants and choice-function witnesses (which tasks are organised, for which targets, under which run id); organize and the closure at quiescence by the bounded simulation',
     explanation='PROVED for every report, tree and feedback table: schedule.update makes exactly one organize call per non-empty report and none for an empty one; the tasks it organises are exactly the children of the reporting node that declare a NEWLY authored value among their inputs plus the feedback consumers of newly authored values (complete and minimal: a value reported as not new contributes nothing); the targets are exactly the targets of the newly authored values; the run id is kept unless a fed-back value was authored. BOUNDED ONLY: what organize does with that call (todo of every located node grows by those targets), transitive closure at quiescence, promote.',
     trusted_base=[ELEMENT, 'vn.split/join projections of a value name as uninterpreted functions (target, full value name, task.alg prefix)', 'util.as_vref/_priors as the declared-input set of an algorithm'],
     assumptions=[A1, A2, A3, A4, A5])
prop('C03', contracts=['c01_release', 'c03_farm', 'c04_complete'],
     technique=TECH + 'once-only release (next_job_batch), message fan-out (_put), placement (Hand.do) and farm.dispatch with loop invariants; reply ledger by the bounded simulation',
     explanation='PROVED: next_job_batch never releases a target the job already has in doing (post.once) and moves each released target to do/doing exactly once (post.conserve.*); find returns the queued node (or the tree node when the job left the queue); _put appends exactly one task message carrying the job id, run id, target and factory of the unit and changes nothing else; Hand.do records the unit as busy and sends the task to that worker only; dispatch hands each idle worker at most one task, only to workers that were listed idle, removes them from the idle list, and never forgets released work: a node with something in `do` is still in farm._jobs afterwards, also when rerunid()/the database raises inside the loop (bare except). BOUNDED ONLY: every reply applied exactly once, crew view = in flight, exact message counts per job.',
     trusted_base=[ELEMENT], assumptions=[A1, A2, A4])
prop('C04', contracts=['c01_release', 'c04_complete'],
     technique=TECH + 'queue invariant J2 (no idle entry) proved for schedule.complete and farm.Hand._res, conservation on next_job_batch; quiescence by the bounded simulation',
     explanation='PROVED: next_job_batch changes no queue membership and releases only queued nodes; schedule.complete removes the job from the queue exactly when nothing of it is pending or executing any more; after farm.Hand._res has applied a reply (success, failure or invalid) no queue entry is idle (J2 preserved: the purge of a failure is followed by the removal of every entry it emptied). BOUNDED ONLY: J2 for organize/build/defer/update, release liveness per dispatch, run-to-quiescence for every reply order.',
     trusted_base=[ELEMENT], assumptions=[A1, A2, A5])
prop('C05', contracts=['c05_purge', 'c04_complete'],
     technique=TECH + 'recursive contract and loop invariant of schedule.purge; Hand._res, _translate and schedule.complete under contract; bounded simulation as stand-in',
     explanation='PROVED for every tree and state: purge withdraws the target from todo/doing/do of every descendant, changes no other target, no non-descendant, only removes; Hand._translate maps None/True/False to invalid/success/failure; Hand._res on a non-success reply never calls schedule.update, lets no node\'s pending set grow, leaves every other target untouched, and records exactly one history entry with the outcome, target, task and run id (schedule.complete). BOUNDED ONLY: the worker side (cluster.execute mapping exceptions to outcomes), interplay across arrival orders.',
     trusted_base=[ELEMENT, 'desc* as an uninterpreted relation constrained by true facts of the least fixed point (reflexive, step, inversion witness)'],
     assumptions=[A1, A4, A5])
prop('C06', contracts=['c06_names'],
     technique=TECH + 'the primary key built by Interface.__to_key, the load rule of Interface._load (loop invariants) and the injectivity of versioned names (string lemma, cvc5); store/load histories on a real store as bounded stand-in',
     explanation='PROVED: Interface.__to_key returns (run, id of the target, id of the task, id of construct(algorithm name, task id, the algorithm\'s CURRENT version), id of construct(state-vector name, alg id, its current version), id of construct(value name, sv id, that value\'s current version)); LEMMA: construct is injective on (name, parent id, version) under A3, so keys of different targets, authors or versions of any element differ; Interface._load (plain load) fills each value of each of its state vectors from the entry with exactly that key when present, otherwise from an entry with the same identity tail of the highest run, and leaves the value untouched when no entry has that identity; state vectors of other data sets are untouched. BOUNDED ONLY: pickle round trip of the contents (encode/decode), the algref branch, remove/version-bump/reopen histories.',
     trusted_base=['util.append assigns one id per constructed name (C08)', 'decode of a blob is a function of the primary entry', 'str(int) digits / Version.asstring digits-and-dots (lemma hypotheses)'],
     assumptions=[A3, A6, A7, A8])
prop('C07', contracts=['c07_store'],
     technique=TECH + 'db.util.move and the Func.set branch of comms.Worker.do proved over an abstract file system with a statement-boundary (crash point) invariant; the novelty reports of Interface._update/_update_msv by loop invariants; real crash injection as bounded stand-in',
     explanation='PROVED: db.util.move answers `exists` = a file of that name was stored before, stores the staged content under the name otherwise, never overwrites content already stored (identical content kept once), and removes the staging file; comms.Worker.do(Func.set) keeps "every catalogue entry refers to a stored file" true AFTER EVERY STATEMENT (so a crash between any two steps leaves no dangling reference) and answers the client with that `exists`; Connector._set_prime returns the server\'s answer; Interface._update and _update_msv report each value as new exactly when the store answered that its content did not exist. BOUNDED ONLY: the name is the md5_sha1 digest of the bytes (db.util.encode runs md5sum/sha1sum), tools/purge.py, crashes inside a step.',
     trusted_base=['os.path.exists/os.unlink/shutil.move as atomic operations on an abstract store (A6)', 'one request/response round trip Connector.__do -> Worker.do'],
     assumptions=[A6, A7])
prop('C08', contracts=['c08_catalogue'],
     technique=TECH + 'shelve.util.construct/subset proved, exact-addressing string lemma by cvc5/z3; histories with prefix-colliding names on a real store as bounded stand-in',
     explanation='PROVED: util.construct builds "<parent>:parent___<name>[___version:<v>]"; util.subset(table, name, parents) returns exactly the entries of the table whose key is the constructed name of some given parent or that name followed by the version separator (loop invariant over the parents, dict/filter/items modelled, string operations uninterpreted in this code-level proof); LEMMA (string theory): among keys of the catalogue format that rule selects precisely the keys whose own name and parent equal the given ones, so a name that merely prefixes another is not selected. BOUNDED ONLY: table/index bijection across reopen, chain resolution, next run id, remove/reset/trace end to end.',
     trusted_base=['str(int) as an injective function into digit strings', 'Version.asstring as a function of the version triple'],
     assumptions=[A3, A7])
prop('C09', contracts=['c09_dag'],
     technique=TECH + 'Construct._ancestry proved to compute the transitive closure of the parent edges (nested loop invariants over a least-fixed-point relation with inversion witness, choice functions for the frontier); graph construction as a whole by bounded enumeration of synthetic engines',
     explanation='PROVED for every acyclic parent relation and every name table consistent with it: after Construct._ancestry the ancestor set of every listed node holds exactly what it held before plus the names of ALL its proper ancestors (soundness: nothing that is not an ancestor; completeness: every ancestor at any distance), nodes outside the table are untouched, and no lookup in the table can fail. BOUNDED ONLY: one node per algorithm, edges exactly where declared at all three granularities (_sub_*/_parents/trim), feedback never ordering, feedback map; termination of the closure loop.',
     trusted_base=[ELEMENT, 'ancestor relation `up` as an uninterpreted relation constrained by true facts of the least fixed point (reflexive, step, right step, inversion witness, listed nodes closed under ancestors)'],
     assumptions=[A3, A5])
prop('C10', contracts=['c12_submit', 'c10_fsm'],
     technique=TECH + 'transition table from the real state.dot compared edge by edge; every FSM callback (start excepted) proved against the machine semantics; trigger/completion orders by the bounded stand-in',
     explanation='PROVED: (table) the edges, triggers and before/after callbacks read from the real state.dot through the real construct_attributes are exactly the documented ones; the transitioning setter only leaves `active` from `active` and raises MachineError otherwise with nothing changed; save_prior_state rejects a trigger arriving during another transition without side effects; is_pipeline_active() <=> running and at rest; reset() sets all events, clears the priority, ends active; navel_gaze/_navel_gaze, archive/_archive_done, load/done, reload/done each leave exactly one background step outstanding (transitioning != active) or end at rest, fire exactly the documented follow-up trigger, and _archive_done returns to the state archiving was entered from (running -> running at rest; updating -> updating then refresh). BOUNDED ONLY: closure over every trigger sequence with completions in every order (reaches a fixpoint of 312 configurations), FSM.start.',
     trusted_base=['transitions.Machine trigger semantics (A7)'], assumptions=[A1, A7])
prop('C11', contracts=['c11_farm', 'c03_farm', 'c04_complete'],
     technique=TECH + 'registration, notification, gate and run-id contracts on farm.Hand/farm functions; bounded protocol histories as stand-in',
     explanation='PROVED: Hand._reg lists the connection iff it registered with the current revision, otherwise sends abort and closes; connectionLost removes it; notify/notify_all tell every idle worker to leave and empty the list when the pipeline is not active (wait message and list kept when active); something_to_do() implies the pipeline is active; _process answers a status poll with proceed iff revision matches and active; rerunid reuses the job run id or draws one larger than every stored id; farm.dispatch does nothing at all while the pipeline is not active (gate), sends no task in a call in which it triggered archiving, gives tasks only to workers listed idle, one each, and takes them off the list; _put builds the message from the unit it was made for. BOUNDED ONLY: run 0 for regressions / None target for analyses end to end, tasks that cannot be placed stay queued.',
     trusted_base=['message.send(m, hand) writes exactly one frame to that connection (proved for the receiving side under C14)', 'dawgie.db.next() > every stored run id (C08)'],
     assumptions=[A1, A7])
prop('C12', contracts=['c12_submit'],
     technique=TECH + 'priority lattice, crossroads and waiter bookkeeping contracts on FSM; multi-cycle histories by the bounded stand-in',
     explanation='PROVED: Priority.max is the join of TODO<DOING<CREW<NOW ignoring None; set_submit_info keeps the strongest priority so far (unknown strings = TODO); submit_crossroads does nothing unless the pipeline is active and otherwise enters exactly the waiter of the priority (NOW reloads at once); wait_for_X clears its own event, sets the weaker ones, starts a poller iff none is live; their done() callbacks always release the poller slot and never trigger unless still waiting. BOUNDED ONLY: the condition holds at the instant of the trigger, exactly-once across reload cycles.',
     trusted_base=['threading.Event as a boolean flag (wait(timeout) returns the flag)', 'deferToThread returns a fresh Deferred and runs the poller'],
     assumptions=[A1, A7])
prop('C13', contracts=['c13_lock'],
     technique=TECH + 'lock invariants L1/L2 proved inductive over _do_acquire/_do_release/connectionLost; interleavings by the bounded stand-in',
     explanation='PROVED for any number of connections: (L1) db_lock <=> some connection has the lock, (L2) at most one has it, are preserved by _do_acquire, _do_release and connectionLost; a free lock is granted to the polling waiter which is told `unlock` only then; a stopped or disconnected waiter does nothing; a disconnecting holder frees the lock. Exclusion for every interleaving follows because each is an atomic reactor callback (A1). BOUNDED ONLY: the client side acquire/release and the LoopingCall schedule.',
     trusted_base=['Worker._send pickles and writes one framed response', 'LoopingCall keeps firing every period'], assumptions=[A1])
prop('C14', contracts=['c14_framing'],
     technique=TECH + 'loop invariant of the three reassembly loops against the specification functions F/R; handshake by the bounded stand-in',
     explanation='PROVED for every buffer state and every chunk: Hand.dataReceived, comms.Worker.dataReceived and LogSink.dataReceived deliver exactly F(len, buf++data) to _process/do/handle and leave the parser state R(len, buf++data). Chunking independence is the lemma F(s++c1++c2) = F(s++c1) ++ F(R(s++c1)++c2), whose induction on the number of frames is stated, not mechanised. BOUNDED ONLY: security.TwistedWrapper handshake gate/tail/fail.',
     trusted_base=['struct ">I"/">L" bijection (A7)', 'pickle.loads as an uninterpreted function of the payload bytes'], assumptions=[A7])
prop('C15', contracts=['c15_version'],
     technique=TECH + 'the six comparison operators, newer() and schedule._diff proved; schedule.build by the bounded stand-in',
     explanation='PROVED for all integer triples: ==, !=, <, <=, >, >= and newer() equal the lexicographic order on (design, impl, bugfix), with trichotomy/transitivity/antisymmetry lemmas; _diff returns exactly the names whose current version is not among the persisted ones. BOUNDED ONLY: version.current and schedule.build queue exactly the owners.',
     trusted_base=['namedtuple VERSION as an immutable record'], assumptions=[A3, A4])
prop('C16', contracts=['c16_compliant'],
     technique=TECH + 'the verdict of tools.compliant._verify as the conjunction of every rule over every package (loop invariants, choice-function witnesses, raising rules); the rules themselves and "accepted => schedulable" by bounded enumeration of generated engine packages',
     explanation='PROVED: _verify answers True exactly when every rule_* function returned True WITHOUT raising on every package handed to it: one rule answering False or raising on one package makes the gate reject, whatever silent/verbose are, and nothing else makes it reject. BOUNDED ONLY: what each rule accepts (every subset of factory kinds per package, every single-rule violation at every position), the coverage of _walk, accepted packages fed to Construct/build/periodics.',
     trusted_base=['rule_* functions as uninterpreted (returns-true, raises) predicates of (rule, package)', '_get_rules as a fixed set of rule names'],
     assumptions=[A5])
prop('C17', contracts=['c17_search'],
     technique=TECH + 'paging of SearchImplementation._find and Range membership proved; matching and normalisation by the bounded stand-in',
     explanation='PROVED: _find returns total = number of matches and exactly entries index..index+limit-1 of the match list (all from index when limit is None), formatted from the right tables (post.total, post.page.*); pages tile the list (lemmas); Range.__contains__ is the half-open interval. BOUNDED ONLY: _prime_keys matching, _scrub/_divide normalisation, facet.',
     trusted_base=['shelve.util.dissect name part as an uninterpreted function (C06)', 'every id of a matching prime key indexes its table (chain invariant, C08)'],
     assumptions=[A7, A8])
prop('C18', contracts=['c18_chronicle', 'c04_complete'],
     technique=TECH + 'chronicle.find (day walk over a calendar model in linear integer arithmetic, loop invariant over day numbers, directory tree as uninterpreted predicates, truncation), chronicle._load (nested loop invariants, choice function for the file) and chronicle.append (abstract journal files, loop invariant of the time conversion); the composition and schedule.complete by the bounded grid on the real chronicle',
     explanation='PROVED for every window, limit, clock and directory tree: chronicle.find hands _load only existing day directories of the requested window, each at most once, strictly newest day first, always with the caller\'s effective window (after defaulting to 1980-01-01, before to now) and outcome; without an effective limit EVERY existing day directory of the window is read (no day, month or year boundary is skipped: the month/year jumps only pass over days whose directory cannot exist); with a limit the walk stops early only once it holds at least `limit` entries and every day newer than an unread one has been read; the result is everything read (no limit), its first `limit` entries (upper bound/limit only: the newest), or its last `limit` entries (lower bound only); all three None raises ValueError and nothing else can raise. chronicle._load returns exactly the entries stored in the *.json files of that directory whose outcome is the requested one and whose completion time lies STRICTLY inside the window. chronicle.append leaves the journal <completion day>/<run id>.json holding its earlier entries in order followed by this entry exactly once, touches no other journal, records every time as text denoting the same instant, and raises TypeError exactly when a required key is missing. schedule.complete hands chronicle.append exactly one entry per completed unit, carrying its outcome, target, task and run id. BOUNDED ONLY: the order inside one day (list.sort by completion time), the composition find+_load+append on a real directory tree.',
     trusted_base=['the chronicles tree: a day directory lies inside its month and year directories (os.makedirs in append)', 'os.path.join/isdir/isfile/listdir, open and json.load/json.dump on chronicles/<y>/<mm>/<dd>/<run>.json as abstract paths and file contents', 'datetime/timedelta arithmetic by contracts/calendar_model.py (proleptic Gregorian calendar, years 2..9000); isoformat/fromisoformat as an inverse pair; the date part of the completion text names the day directory'],
     assumptions=[A6])
prop('C19', contracts=['c19_frontend'],
     technique=TECH + 'containment of fe._static over an abstract file system, allow-list versus command endpoints, fail-closed hook; bounded directory trees and endpoint table as stand-in',
     explanation='PROVED for every request path, site roots and file-system state: every path fe._static opens for a request resolves (symbolic links followed) inside one of the two roots, or is named by the content of an html file already inside them (post.contain, loop invariant of the stylesheet loop); security.is_sanctioned lets a caller without certificate, when client certificates are configured, reach none of the command endpoints (scanned from the real DynamicContent registrations: run/reset/submit/snapshot); security.sanctioned returns False whenever the access hook raises. BOUNDED ONLY: DynamicContent.__render calls the handler only after sanctioned() (reflection over **kwds), real symlink trees, every endpoint x method.',
     trusted_base=['pathlib: resolve() follows links and is idempotent; is_relative_to/is_dir/is_file/open as uninterpreted functions of an unchanging file system', 'site content (stylesheet links inside html files) is trusted configuration'],
     assumptions=[])
prop('C20', contracts=['c20_delay'],
     technique=TECH + 'schedule._delay proved against a calendar specification in linear integer arithmetic for every instant and every accepted moment; defer/recurrence by the bounded clock sweep',
     explanation='PROVED for every clock instant of years 2..9000 and every moment rule_10 accepts (dom 1..31, dow 0..6): _delay raises only _DelayNotKnowableError and only for a boot event already fired (no ValueError from the datetime constructor), a boot event gets delay 0 and is recorded, a day-of-week moment has that weekday and time and lies within (-1 d, 7 d], a day-of-month moment is the day (clamped to the month length) of the current month if not yet passed else of the next, at that time, within (-1 d, 31 d], a dated moment is that date and time. Counter-models are replayed on the real function under an injected clock. BOUNDED ONLY: defer queues due events for all targets, boot once per process, recurrence.',
     trusted_base=['datetime/timedelta modelled as (day number, microsecond of day) over the proleptic Gregorian calendar; calendar.monthrange as days-in-month'],
     assumptions=[A1, 'clock range 0002-01-01 .. 9000-12-31'])
