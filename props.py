"""Per-property registry: which contract modules, lemmas and bounded stand-in decide it, and what is trusted."""

COMMON_ASSUME = [
    'Python semantics assumed by the VC generator: int is mathematical; list/set/dict iteration order arbitrary (lists modelled as sets carry no-duplicate obligations); filter/map/generators lazy; objects are references into a heap split by field; unmodelled callees do not raise unless their contract says so; termination only where a variant is given',
    'DAWGIE is imported from $VERIF_REPO/Python (asserted), never from site-packages',
]
A1 = 'A1 atomic callbacks: reactor callbacks run to completion one at a time (Twisted)'
A2 = 'A2 promotion off: dawgie.context.allow_promotion is False, so schedule.promote() is falsy and has no effect'
A3 = 'A3 names: algorithm/state-vector/value/target names contain no "." and none of the separators ":parent___" / "___version:"'
A4 = 'A4 one node per tag in the algorithm tree and in the queue'
A5 = 'A5 declared inputs are acyclic (no self dependence); feedback references are not ordering edges'

PROPS = {}


def prop(pid, **kw):
    kw.setdefault('contracts', [])
    kw.setdefault('harness', 'harness.' + pid.lower())
    kw.setdefault('level', 'other')
    kw.setdefault('trusted_base', [])
    kw['assumptions'] = COMMON_ASSUME + kw.get('assumptions', [])
    PROPS[pid] = kw


prop('C05', contracts=['c05_purge'], level='other',
     technique='contract-based deductive verification: pyvc VCs from the real AST of schedule.purge discharged by z3/cvc5; bounded scheduler simulation as labelled stand-in',
     explanation='withdrawal and the full frame of schedule.purge are proved for every tree and state (loop invariant + recursive contract); Hand._res/_translate/complete and the history entry are checked by the bounded simulation only',
     trusted_base=['xml.etree.ElementTree.Element modelled as (tag, attrib fields by constant key, child set)', 'desc* as an uninterpreted relation constrained by true facts of the least fixed point'],
     assumptions=[A1, A4, A5])
prop('C15', contracts=['c15_version'], level='other',
     technique='contract-based deductive verification: pyvc VCs from the real AST of dawgie.Version discharged by z3; bounded build() stand-in',
     explanation='the six comparison operators and newer() are proved equal to the lexicographic order for all integer triples, with the order lemmas; schedule.build/_diff are decided by the bounded stand-in',
     trusted_base=['namedtuple VERSION as an immutable record'], assumptions=[A3, A4])
