"""C19: fe._static never opens a request-derived path outside the two site roots; security.is_sanctioned lets an
anonymous caller reach no command endpoint; security.sanctioned fails closed."""
import ast as _ast
import os as _os
from .base import *
from pyvc.spec import PYROOT

PATH = Ref('PathV')            # immutable path values; pathlib/os are uninterpreted functions over them
p_of = z3.Function('Path', ATOM.sort(), PATH.sort())
p_resolve = z3.Function('resolve', PATH.sort(), PATH.sort())
p_join = z3.Function('joinpath', PATH.sort(), ATOM.sort(), PATH.sort())
p_child = z3.Function('child', PATH.sort(), ATOM.sort(), PATH.sort())          # p / 'index.html'
p_inside = z3.Function('is_relative_to', PATH.sort(), PATH.sort(), z3.BoolSort())
p_isdir = z3.Function('is_dir', PATH.sort(), z3.BoolSort())
p_isfile = z3.Function('is_file', PATH.sort(), z3.BoolSort())
p_suffix = z3.Function('suffix_lower', PATH.sort(), ATOM.sort())
p_content = z3.Function('content', PATH.sort(), BYTES.sort())
def p_text(p):
    return z3.Function('text', PATH.sort(), STR.sort())(p)


def p_oscat(a, b):
    """a path named by site *content*, not by the request"""
    return z3.Function('os_path_join', ATOM.sort(), STR.sort(), PATH.sort())(a, b)


lstrip = z3.Function('lstrip_slash', ATOM.sort(), ATOM.sort())
W.declare_global('ghost.opened', SetOf(PATH))           # every path handed to open() by this call
W.declare_global('ghost.opened_by_content', SetOf(PATH))  # those named by the content of an html file
W.declare_global('dawgie.context.fe_path', ATOM)


def _path_ctor(ex, args, kwargs, e):
    return V(p_of(ex.to_z3(args[0], ATOM)), PATH)


W.externs['pathlib.Path'] = Extern(fn=_path_ctor)
W.methods[('PathV', 'resolve')] = lambda ex, r, a, k, l: V(p_resolve(r.t), PATH)
W.methods[('PathV', 'is_relative_to')] = lambda ex, r, a, k, l: V(p_inside(r.t, ex.to_z3(a[0], PATH)), BOOL)
W.methods[('PathV', 'is_dir')] = lambda ex, r, a, k, l: V(p_isdir(r.t), BOOL)
W.methods[('PathV', 'is_file')] = lambda ex, r, a, k, l: V(p_isfile(r.t), BOOL)


def _path_div(ex, op, a, b, line):
    if isinstance(op, _ast.Div) and isinstance(a, V) and a.ty == PATH:
        if isinstance(b, str):
            return V(p_child(a.t, atom(b)), PATH)
        return V(p_join(a.t, ex.to_z3(b, ATOM)), PATH)
    return None


W.binop_hooks.append(_path_div)


p_rawsuffix = z3.Function('suffix', PATH.sort(), ATOM.sort())
lower_fn = z3.Function('str_lower', ATOM.sort(), ATOM.sort())


def _ref_attr(ex, base, attr, line):
    if base.ty == PATH and attr == 'suffix':
        return V(p_rawsuffix(base.t), ATOM)
    return None


W.ref_attr = _ref_attr
_cm = W.call_method


def _call_method(ex, recv, name, args, kwargs, line):
    if isinstance(recv, V) and recv.ty == ATOM and name == 'lower':
        return V(lower_fn(recv.t), ATOM)
    if isinstance(recv, V) and recv.ty == ATOM and name == 'lstrip' and args == ['/']:
        return V(lstrip(recv.t), ATOM)
    if isinstance(recv, V) and isinstance(recv.ty, Ref) and recv.ty.cls == 'OpenFile' and name == 'read':
        mode = ex.st.ghost.get('mode:%d' % recv.t.get_id(), 'rb')
        p = ex.st.ghost['path:%d' % recv.t.get_id()]
        return V(p_text(p), STR) if 't' in mode else V(p_content(p), BYTES)
    if isinstance(recv, V) and recv.ty == STR and name == 'encode':
        return V(z3.Function('encode_utf8', STR.sort(), BYTES.sort())(recv.t), BYTES)
    if isinstance(recv, V) and isinstance(recv.ty, Ref) and recv.ty.cls == 'Request' and name == 'setHeader':
        return None
    return _cm(ex, recv, name, args, kwargs, line)


W.call_method = _call_method
OPENFILE = Ref('OpenFile')


def _with_enter(ex, item, line):
    call = item.context_expr
    if isinstance(call, _ast.Call) and isinstance(call.func, _ast.Name) and call.func.id == 'open':
        p = ex.eval(call.args[0])
        mode = call.args[1].value if len(call.args) > 1 else 'r'
        pt = ex.to_z3(p, PATH)
        ex._note_write('ghost.opened', line)
        ex.st.glob['ghost.opened'] = z3.Store(ex.st.glob['ghost.opened'], pt, True)
        f = ex.fresh('file', OPENFILE)
        ex.st.ghost['path:%d' % f.get_id()] = pt
        ex.st.ghost['mode:%d' % f.get_id()] = mode
        return V(f, OPENFILE)
    raise Unsupported('with %s' % _ast.unparse(call))


W.with_enter = _with_enter


def _os_path_join(ex, args, kwargs, e):
    pt = p_oscat(ex.to_z3(args[0], ATOM), ex.to_z3(args[1], STR))
    ex._note_write('ghost.opened_by_content', e.lineno)
    ex.st.glob['ghost.opened_by_content'] = z3.Store(ex.st.glob['ghost.opened_by_content'], pt, True)
    return V(pt, PATH)


W.externs['os.path.join'] = Extern(fn=_os_path_join)
W.externs['twisted.web.util.redirectTo'] = Extern(ret=BYTES)
W.externs['dawgie.fe._is_active'] = Extern(ret=BOOL)
W.to_bytes = lambda ex, v, e: V(z3.Function('bytes_of_path', PATH.sort(), BYTES.sort())(ex.to_z3(v, PATH)), BYTES)
_to_str = W.to_str


def _to_str2(ex, v, line, spec=None):
    if isinstance(v, V) and v.ty == PATH:
        return V(z3.Function('str_of_path', PATH.sort(), STR.sort())(v.t), STR)
    return _to_str(ex, v, line, spec)


W.to_str = _to_str2


@contract(W, 'dawgie/fe/__init__.py', '_static', props=['C19'])
class static(ContractBase):
    params = {'fn': ATOM, 'bdir': ATOM, 'isdep': BOOL, 'request': Opt(Ref('Request'))}
    returns = BYTES
    modifies = ['ghost.opened', 'ghost.opened_by_content']
    locals = {'result': BYTES, 'html': STR, 'idx': INT}
    opaque_strings = True          # the text of the page is irrelevant to which files are opened for a request path

    def requires(c):
        return {'nothing-opened-yet': And(c.old.g('ghost.opened') == SetOf(PATH).empty(), c.old.g('ghost.opened_by_content') == SetOf(PATH).empty())}

    @staticmethod
    def _contained(c, view):
        """what is opened for a request path is, once symbolic links are followed, inside one of the two roots"""
        p = c.sk('p', PATH)
        r1 = p_resolve(p_of(c.old.g('dawgie.context.fe_path')))
        r2 = p_resolve(p_of(c['bdir']))
        real = p_resolve(p)
        return Implies(view.g('ghost.opened')[p], Or(p_inside(real, r1), p_inside(real, r2), view.g('ghost.opened_by_content')[p]))

    @staticmethod
    def _pathlib(c):
        x = z3.Const('pl_x', PATH.sort())
        return [QHyp([x], p_resolve(p_resolve(x)) == p_resolve(x), 'resolve.idempotent', triggers=[(p_resolve, 0)])]
    assumes = [lambda c: static._pathlib(c)]

    def ensures(c):
        return {'contain': static._contained(c, c.cur)}

    def _inv(c):
        return {'contain': static._contained(c, c.cur)}
    loops = {'while 0 < idx': Loop(inv=_inv, modifies=['ghost.opened', 'ghost.opened_by_content'])}


# ---------------------------------------------------------------- access control
def command_uris():
    """URIs whose registered handler is a command (run / reset / submit / snapshot), scanned from the real registrations"""
    out = set()
    for rel in ('dawgie/fe/api/__init__.py', 'dawgie/fe/app.py'):
        tree = _ast.parse(open(_os.path.join(PYROOT, rel)).read())
        for n in _ast.walk(tree):
            if isinstance(n, _ast.Call) and _ast.unparse(n.func).endswith('DynamicContent') and len(n.args) >= 2:
                handler = _ast.unparse(n.args[0]).lower()
                uri = n.args[1].value if isinstance(n.args[1], _ast.Constant) else None
                words = ('run', 'reset', 'submit', 'snapshot')
                if uri and (any(w in handler.split('.')[-1].split('_') for w in words) or any(uri.rstrip('/').endswith('/' + w) for w in words)):
                    out.add(uri)
    return sorted(out)


W.declare_global('ghost.clients_configured', BOOL)
W.externs['dawgie.security.clients'] = Extern(fn=lambda ex, args, kwargs, e: ex.get_global('ghost.clients_configured'))
CERT = Ref('Certificate')


@contract(W, 'dawgie/security.py', 'is_sanctioned', props=['C19'])
class is_sanctioned(ContractBase):
    params = {'endpoint': ATOM, 'cert': Opt(CERT)}
    returns = BOOL
    modifies = []

    def ensures(c):
        anonymous = And(c.old.g('ghost.clients_configured'), Opt(CERT).is_none(c['cert']))
        cmds = command_uris()
        if len(cmds) < 4:
            raise Unsupported('found only %d command endpoints in the registrations' % len(cmds))
        return {'anonymous-reaches-no-command': Implies(And(anonymous, c.result), And(*[c['endpoint'] != atom(u) for u in cmds])),
                'certificate-holders-pass': Implies(Not(Opt(CERT).is_none(c['cert'])), c.result),
                'open-when-no-clients-configured': Implies(Not(c.old.g('ghost.clients_configured')), c.result)}


W.declare_global('ghost.hook_raises', BOOL)
W.declare_global('ghost.hook_answer', BOOL)


def _hook_call(ex, args, kwargs, e):
    if ex.decide(ex.st.glob['ghost.hook_raises'], e.lineno):
        from pyvc.core import _Raise
        raise _Raise('RuntimeError', e.lineno)
    return ex.get_global('ghost.hook_answer')


W.externs['dawgie.security._lookup'] = Extern(fn=lambda ex, args, kwargs, e: Dotted('access_hook'))
W.externs['access_hook'] = Extern(fn=_hook_call)
W.declare_global('dawgie.context.sanction_override', ATOM)


@contract(W, 'dawgie/security.py', 'sanctioned', props=['C19'])
class sanctioned(ContractBase):
    params = {'endpoint': ATOM, 'cert': Opt(CERT)}
    returns = BOOL
    modifies = []

    def ensures(c):
        return {'fail-closed': Implies(c.old.g('ghost.hook_raises'), Not(c.result)),
                'hook-decides': Implies(Not(c.old.g('ghost.hook_raises')), c.result == c.old.g('ghost.hook_answer'))}


# ------------------------------------------------------------------------------------------------ DynamicContent.__render
import dawgie.fe.basis as _basis
DC = Ref('DynamicContent')
HTTPM = W.enum(_basis.HttpMethod)
W.class_path['DynamicContent'] = 'dawgie.fe.basis.DynamicContent'
DP = '_DynamicContent__'
W.declare_fields('DynamicContent', **{DP + 'fnc': ATOM, DP + 'methods': Bag(HTTPM), DP + 'uri': ATOM})
W.declare_global('ghost.handler_calls', INT)              # how many times the endpoint's handler ran
W.declare_global('ghost.sanction_asked', INT)             # how many times dawgie.security.sanctioned was consulted
W.declare_global('ghost.sanction_said', BOOL)             # ... and what it answered last
sanction_of = z3.Function('sanctioned_answer', ATOM.sort(), Opt(CERT).sort(), z3.BoolSort())
peer_cert = z3.Const('peer_certificate', Opt(CERT).sort())
has_cert_api = z3.Const('transport_has_getPeerCertificate', z3.BoolSort())


def _sanctioned_fn(ex, args, kwargs, e):
    st = ex.st
    ans = sanction_of(ex.to_z3(args[0], ATOM), ex.to_z3(args[1], Opt(CERT)))
    for g, v in (('ghost.sanction_asked', st.glob['ghost.sanction_asked'] + 1), ('ghost.sanction_said', ans)):
        ex._note_write(g, e.lineno)
        st.glob[g] = v
    return V(ans, BOOL)


def _handler_call(ex, e):
    ex._note_write('ghost.handler_calls', e.lineno)
    ex.st.glob['ghost.handler_calls'] = ex.st.glob['ghost.handler_calls'] + 1
    return V(ex.fresh('handler_response', ATOM), ATOM)


@contract(W, 'dawgie/fe/basis.py', 'DynamicContent.__render', props=['C19'])
class render_(ContractBase):
    """the access decision comes first, for every HTTP method: the handler of an endpoint runs at most once and only after
    security.sanctioned() was asked about this very endpoint and this caller's certificate and said yes"""
    params = {'self': DC, 'request': ATOM, 'method': HTTPM}
    returns = ATOM
    modifies = ['ghost.handler_calls', 'ghost.sanction_asked', 'ghost.sanction_said']
    opaque_fstrings = True
    externs = {'dawgie.security.sanctioned': Extern(fn=_sanctioned_fn), 'dawgie.security.identity': Extern(ret=ATOM),
               'dawgie.fe.basis.build_return_object': Extern(ret=ATOM)}
    abstract = {"inspect.signature(self.__fnc)": lambda ex, e: None,
                "'getPeerCertificate' in dir(request.transport)": lambda ex, e: V(has_cert_api, BOOL),
                "request.transport.getPeerCertificate()": lambda ex, e: V(peer_cert, Opt(CERT)),
                "request.args.keys()": lambda ex, e: [],           # the query arguments only feed the handler's keywords
                "isinstance(self.__fnc, DeferContainer)": lambda ex, e: False,
                "response.update(*": lambda ex, e: None,
                "json.dumps(response).encode()": ATOM,
                "self.__fnc(**kwds)": _handler_call,
                "self.__err(method)": ATOM}

    def requires(c):
        return {'fresh-ghost': And(c.old.g('ghost.handler_calls') == 0, c.old.g('ghost.sanction_asked') == 0)}

    def ensures(c):
        s = c['self']
        cert = If(has_cert_api, peer_cert, Opt(CERT).none())
        ok = sanction_of(c.old.f('DynamicContent.' + DP + 'uri', s), cert)
        mapped = c.old.f('DynamicContent.' + DP + 'methods', s)[c['method']]
        calls = c.cur.g('ghost.handler_calls')
        return {'decision-first-for-every-method': And(c.cur.g('ghost.sanction_asked') == 1, c.cur.g('ghost.sanction_said') == ok),
                'handler-only-when-sanctioned': calls == If(And(ok, mapped), 1, 0)}
