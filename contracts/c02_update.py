"""C02: schedule.update — after a report of newly authored values exactly the direct dependents that declare one of
them as input (and the feedback consumers) are organised, for the reporting targets; nothing otherwise."""
from .base import *
import ast as _ast

VN = ATOM                                   # a reported value name "run.target.task.alg.sv.value"
REP = Tup(VN, BOOL)
REPS = ListSet(REP)
VREF = Ref('VRef')
target_of = z3.Function('target_of', VN.sort(), ATOM.sort())            # vn.split('.')[1]
fvn_of = z3.Function('full_value_name', VN.sort(), ATOM.sort())          # '.'.join(vn.split('.')[2:])
alg2_of = z3.Function('task_dot_alg', ATOM.sort(), ATOM.sort())          # '.'.join(name.split('.')[:2])
inputs_of = z3.Function('declared_inputs', Ref('Alg').sort(), SetOf(VREF).sort())      # as_vref(_priors(alg))
vref_name = z3.Function('vref_as_name', VREF.sort(), ATOM.sort())
W.declare_fields('Construct', _feedbacks=MapOf(ATOM, ATOM))
W.properties[('Construct', 'feedbacks')] = ('dawgie.pl.dag.Construct.feedbacks', None)
W.declare_global('ghost.organize_calls', INT)
W.declare_global('ghost.organize_names', SetOf(ATOM))
W.declare_global('ghost.organize_targets', SetOf(ATOM))
W.declare_global('ghost.organize_rid', Opt(INT))
FB = MapOf(ATOM, ATOM)


@contract(W, 'dawgie/pl/dag.py', 'Construct.feedbacks', props=['C02', 'C09'])
class construct_feedbacks(ContractBase):
    params = {'self': CONSTRUCT}
    inline = True


def _organize(ex, args, kwargs, e):
    """ghost record of the one call (the behaviour of organize itself is decided by the bounded stand-in)"""
    names, rid, targets, event = (list(args) + [None] * 4)[:4]
    for g, v, ty in (('ghost.organize_names', names, SetOf(ATOM)), ('ghost.organize_targets', targets, SetOf(ATOM))):
        ex._note_write(g, e.lineno)
        ex.st.glob[g] = ex.world.as_set_term(ex, v, ATOM)
    ex._note_write('ghost.organize_rid', e.lineno)
    ex.st.glob['ghost.organize_rid'] = ex.to_z3(rid, Opt(INT))
    ex._note_write('ghost.organize_calls', e.lineno)
    ex.st.glob['ghost.organize_calls'] = ex.st.glob['ghost.organize_calls'] + 1
    return None


def _abs(fn):
    def f(ex, e):
        vn = ex.st.env['vn']
        return V(fn(ex.to_z3(vn, VN)), ATOM)
    return f


def _fbcons(ex, e):
    fvn = ex.st.env['fvn']
    m = ex.get_global_field_feedbacks()
    return V(alg2_of(FB.opt.val(m[ex.to_z3(fvn, ATOM)])), ATOM)


@contract(W, 'dawgie/pl/schedule.py', 'update', props=['C02'])
class update(ContractBase):
    params = {'values': REPS, 'original': NODE, 'rid': Opt(INT)}
    modifies = ['ghost.organize_calls', 'ghost.organize_names', 'ghost.organize_targets', 'ghost.organize_rid']
    externs = {'dawgie.pl.schedule.organize': Extern(fn=_organize), 'dawgie.pl.schedule.promote': Extern(fn=lambda ex, a, k, e: False),
               'dawgie.pl.schedule._priors': Extern(fn=lambda ex, a, k, e: a[0]),
               'dawgie.util.as_vref': Extern(fn=lambda ex, a, k, e: ex.newbox(inputs_of(ex.to_z3(a[0], Ref('Alg'))), SetOf(VREF))),
               'dawgie.util.vref_as_name': Extern(fn=lambda ex, a, k, e: V(vref_name(ex.to_z3(a[0], VREF)), ATOM))}
    abstract = {"vn.split('.')[1]": _abs(target_of), "'.'.join(vn.split('.')[2:])": _abs(fvn_of),
                "'.'.join(feedbacks[fvn].split('.')[:2])": lambda ex, e: V(alg2_of(FB.opt.val(ex.read(ex.st.env['feedbacks'])[ex.to_z3(ex.st.env['fvn'], ATOM)])), ATOM)}
    locals = {'targets': SetOf(ATOM), 'task_names': SetOf(ATOM), 'vns': SetOf(ATOM), 'event': Opt(ATOM)}

    def requires(c):
        return {'graph-loaded': Not(Opt(CONSTRUCT).is_none(c.old.g('dawgie.pl.schedule.ae'))), 'no-call-yet': c.old.g('ghost.organize_calls') == 0}

    # Existentials are expressed with choice functions (Hilbert style): w(D, x) is *some* witness among D for x if
    # there is one; the choice axioms below say exactly that, so each "exists" is a quantifier-free formula.
    SV_, SN_, SR_ = SetOf(REP), SetOf(NODE), SetOf(VREF)
    w_fvn = z3.Function('w_value_with_name', SV_.sort(), ATOM.sort(), VN.sort())
    w_tgt = z3.Function('w_value_with_target', SV_.sort(), ATOM.sort(), VN.sort())
    w_fb = z3.Function('w_value_fed_back_to', SV_.sort(), ATOM.sort(), VN.sort())
    w_anyfb = z3.Function('w_value_fed_back', SV_.sort(), VN.sort())
    w_child = z3.Function('w_child_with_tag', SN_.sort(), ATOM.sort(), NODE.sort())
    w_ref = z3.Function('w_input_ref', SR_.sort(), NODE.sort(), VREF.sort())

    @staticmethod
    def _S(c):
        """the specification sets, relative to `seen` reports (a set of reports) / `kids_done` / `refs_done`"""
        K = update
        ae = Opt(CONSTRUCT).val(c.old.g('dawgie.pl.schedule.ae'))
        fb = c.old.f('Construct._feedbacks', ae)
        orig = c['original']
        T = z3.BoolVal(True)
        new_in = lambda seen, x: seen[REP.mk(x, T)]
        NEW = lambda seen, name: And(new_in(seen, K.w_fvn(seen, name)), fvn_of(K.w_fvn(seen, name)) == name)
        TG = lambda seen, t: And(new_in(seen, K.w_tgt(seen, t)), target_of(K.w_tgt(seen, t)) == t)
        fedto = lambda v, tgn: And(Not(FB.opt.is_none(fb[fvn_of(v)])), alg2_of(FB.opt.val(fb[fvn_of(v)])) == tgn)
        CONS = lambda seen, tgn: And(new_in(seen, K.w_fb(seen, tgn)), fedto(K.w_fb(seen, tgn), tgn))
        ANYFB = lambda seen: And(new_in(seen, K.w_anyfb(seen)), Not(FB.opt.is_none(fb[fvn_of(K.w_anyfb(seen))])))
        uses = lambda seen, rdone, ch: And(rdone[K.w_ref(rdone, ch)], inputs_of(c.old.f('Node.alg', ch))[K.w_ref(rdone, ch)], NEW(seen, vref_name(K.w_ref(rdone, ch))))
        isdep = lambda ch: And(c.old.f('Node.kids', orig)[ch], tag(c.old, ch) != tag(c.old, orig))
        DEP = lambda seen, kdone, tgn: And(kdone[K.w_child(kdone, tgn)], isdep(K.w_child(kdone, tgn)), tag(c.old, K.w_child(kdone, tgn)) == tgn,
                                           uses(seen, inputs_of(c.old.f('Node.alg', K.w_child(kdone, tgn))), K.w_child(kdone, tgn)))
        return NEW, TG, CONS, ANYFB, uses, isdep, DEP, fedto, new_in

    @staticmethod
    def _choice(c):
        """choice axioms: whenever some element qualifies, the witness function's value qualifies"""
        K = update
        NEW, TG, CONS, ANYFB, uses, isdep, DEP, fedto, new_in = K._S(c)
        seen, kd, rd = z3.Const('ch_seen', K.SV_.sort()), z3.Const('ch_kd', K.SN_.sort()), z3.Const('ch_rd', K.SR_.sort())
        v, r, ch = z3.Const('ch_v', VN.sort()), z3.Const('ch_r', VREF.sort()), z3.Const('ch_c', NODE.sort())
        tgn = z3.Const('ch_t', ATOM.sort())
        ae = Opt(CONSTRUCT).val(c.old.g('dawgie.pl.schedule.ae'))
        fb = c.old.f('Construct._feedbacks', ae)
        alg = lambda x: c.old.f('Node.alg', x)
        return [QHyp([seen, v], Implies(new_in(seen, v), And(NEW(seen, fvn_of(v)), TG(seen, target_of(v)))), 'choice.value'),
                QHyp([seen, v, tgn], Implies(And(new_in(seen, v), fedto(v, tgn)), CONS(seen, tgn)), 'choice.feedback'),
                QHyp([seen, v], Implies(And(new_in(seen, v), Not(FB.opt.is_none(fb[fvn_of(v)]))), ANYFB(seen)), 'choice.anyfeedback'),
                QHyp([seen, rd, ch, r], Implies(And(rd[r], inputs_of(alg(ch))[r], NEW(seen, vref_name(r))), uses(seen, rd, ch)), 'choice.input'),
                QHyp([seen, kd, ch], Implies(And(kd[ch], isdep(ch), uses(seen, inputs_of(alg(ch)), ch)), DEP(seen, kd, tag(c.old, ch))), 'choice.child')]
    assumes = [lambda c: update._choice(c)]

    @staticmethod
    def _newreports(c, done=None):
        """the reports flagged new (restricted to those already iterated, when `done` is given), as a set of reports"""
        vals = c['values']
        return vals if done is None else done      # done is a subset of the reports whose flag is set (filter)

    def ensures(c):
        NEW, TG, CONS, ANYFB, uses, isdep, DEP, fedto, new_in = update._S(c)
        tgn, t = c.sk('tgn', ATOM), c.sk('t', ATOM)
        vals = c['values']
        allkids = z3.K(NODE.sort(), z3.BoolVal(True))
        nonempty = vals != REPS.empty()
        calls = c.cur.g('ghost.organize_calls')
        return {'one-propagation-per-report': calls == If(nonempty, 1, 0),
                'complete-and-minimal': Implies(nonempty, c.cur.g('ghost.organize_names')[tgn] == Or(DEP(vals, allkids, tgn), CONS(vals, tgn))),
                'for-the-reporting-targets': Implies(nonempty, c.cur.g('ghost.organize_targets')[t] == TG(vals, t)),
                'feedback-starts-a-fresh-run': Implies(nonempty, c.cur.g('ghost.organize_rid') == If(ANYFB(vals), Opt(INT).none(), c['rid']))}

    def _inv_values(c):
        NEW, TG, CONS, ANYFB, uses, isdep, DEP, fedto, new_in = update._S(c)
        seen = update._newreports(c, c.done)
        name, t, tgn = c.sk('name', ATOM), c.sk('t', ATOM), c.sk('tgn', ATOM)
        return {'vns': c.loc('vns')[name] == NEW(seen, name),
                'targets': c.loc('targets')[t] == TG(seen, t),
                'names': c.loc('task_names')[tgn] == CONS(seen, tgn),
                'rid': c.loc('rid') == If(ANYFB(seen), Opt(INT).none(), c['rid'])}

    def _inv_kids(c):
        NEW, TG, CONS, ANYFB, uses, isdep, DEP, fedto, new_in = update._S(c)
        vals = c['values']
        tgn, name = c.sk('tgn', ATOM), c.sk('name', ATOM)
        return {'names': c.loc('task_names')[tgn] == Or(DEP(vals, c.done, tgn), CONS(vals, tgn)),
                'vns': c.loc('vns')[name] == NEW(vals, name)}

    def _inv_refs(c):
        NEW, TG, CONS, ANYFB, uses, isdep, DEP, fedto, new_in = update._S(c)
        vals = c['values']
        tgn, name = c.sk('tgn', ATOM), c.sk('name', ATOM)
        node = c.loc('node')
        outer = c.outer_done('for node in ')
        this = And(tag(c.old, node) == tgn, uses(vals, c.done, node))
        return {'names': c.loc('task_names')[tgn] == Or(DEP(vals, outer, tgn), this, CONS(vals, tgn)),
                'vns': c.loc('vns')[name] == NEW(vals, name)}

    loops = {'for (vn, _isnew) in ': Loop(inv=_inv_values), 'for node in ': Loop(inv=_inv_kids), 'for vref in ': Loop(inv=_inv_refs)}
