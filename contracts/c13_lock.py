"""C13: the database lock of shelve.comms.Worker — exclusion, crash release, grant at the next poll.

Lock invariants over all connections (a, b universally quantified):
  L1a  has_lock(a) => db_lock          L1b  db_lock => some connection has the lock
  L2   has_lock(a) and has_lock(b) => a == b
"""
from .base import *

LOCK = 'dawgie.context.db_lock'
HAS = 'DbWorker._Worker__has_lock'


def has(view, w):
    return view.f(HAS, w)


def L(view):
    a, b = z3.Consts('la lb', DBW.sort())
    return And(z3.ForAll([a], Implies(has(view, a), view.g(LOCK))),
               Implies(view.g(LOCK), z3.Exists([a], has(view, a))),
               z3.ForAll([a, b], Implies(And(has(view, a), has(view, b)), a == b)))


for _n in ('lock_db', 'unlock_db'):
    def _mk(n):
        @contract(W, 'dawgie/context.py', n, props=['C13'])
        class _K(ContractBase):
            params = {}
            inline = True
        return _K
    _mk(_n)

for _n in ('_lock_db', '_unlock_db', '_get_db_lock_status'):
    def _mk2(n):
        @contract(W, 'dawgie/db/shelve/comms.py', 'Worker.' + n, props=['C13'])
        class _K(ContractBase):
            params = {'self': DBW} if n != '_get_db_lock_status' else {}
            inline = True
        return _K
    _mk2(_n)

STATE_FIELDS = [HAS, 'DbWorker._Worker__looping_call_stopped', 'DbWorker._Worker__connection_lost', 'DbWorker.ghost_told',
                'DbWorker.ghost_nsent', 'DbWorker.ghost_answer']


def others_unchanged(c):
    o = c.sk('o', DBW)
    return Implies(o != c['self'], And(*[c.cur.f(f, o) == c.old.f(f, o) for f in STATE_FIELDS]))


@contract(W, 'dawgie/db/shelve/comms.py', 'Worker._do_acquire', props=['C13'])
class do_acquire(ContractBase):
    params = {'self': DBW}
    modifies = [LOCK] + STATE_FIELDS

    def requires(c):
        return {'L': L(c.old)}

    def ensures(c):
        s = c['self']
        stopped = c.old.f('DbWorker._Worker__looping_call_stopped', s)
        lost = c.old.f('DbWorker._Worker__connection_lost', s)
        free = Not(c.old.g(LOCK))
        quiet = And(c.cur.g(LOCK) == c.old.g(LOCK), c.cur.f('DbWorker.ghost_nsent', s) == c.old.f('DbWorker.ghost_nsent', s),
                    has(c.cur, s) == has(c.old, s))
        OM = Opt(MUTEX)
        told = c.cur.f('DbWorker.ghost_told', s)
        return {'L': L(c.cur),
                'others': others_unchanged(c),
                'abandoned': Implies(Or(stopped, lost), quiet),
                'grant': Implies(And(Not(stopped), Not(lost), free),
                                 And(has(c.cur, s), c.cur.g(LOCK), told == OM.some(MUTEX.const('unlock')),
                                     c.cur.f('DbWorker._Worker__looping_call_stopped', s))),
                'wait': Implies(And(Not(stopped), Not(lost), Not(free)),
                                And(has(c.cur, s) == has(c.old, s), c.cur.g(LOCK), told == OM.some(MUTEX.const('lock')))),
                'told-yours-only-if-yours': Implies(And(c.cur.f('DbWorker.ghost_nsent', s) > c.old.f('DbWorker.ghost_nsent', s),
                                                        told == OM.some(MUTEX.const('unlock'))), has(c.cur, s)),
                'one-message': c.cur.f('DbWorker.ghost_nsent', s) <= c.old.f('DbWorker.ghost_nsent', s) + 1}


@contract(W, 'dawgie/db/shelve/comms.py', 'Worker._do_release', props=['C13'])
class do_release(ContractBase):
    params = {'self': DBW}
    modifies = [LOCK] + STATE_FIELDS

    def requires(c):
        return {'L': L(c.old)}

    def ensures(c):
        s = c['self']
        OB = Opt(BOOL)
        held = has(c.old, s)
        return {'L': L(c.cur), 'others': others_unchanged(c),
                'holder': Implies(held, And(Not(c.cur.g(LOCK)), Not(has(c.cur, s)), c.cur.f('DbWorker.ghost_answer', s) == OB.some(True))),
                'non-holder': Implies(Not(held), And(c.cur.g(LOCK) == c.old.g(LOCK), c.cur.f('DbWorker.ghost_answer', s) == OB.some(False)))}


@contract(W, 'dawgie/db/shelve/comms.py', 'Worker.connectionLost', props=['C13'])
class connection_lost(ContractBase):
    params = {'self': DBW, 'reason': Ref('Failure')}      # whatever the reason: clean close (ConnectionDone) or not
    modifies = [LOCK] + STATE_FIELDS
    methods = {('Failure', 'check'): lambda ex, r, a, k, l: V(z3.Function('failure_is_a', Ref('Failure').sort(), z3.BoolSort())(r.t), BOOL)}

    def requires(c):
        return {'L': L(c.old)}

    def ensures(c):
        s = c['self']
        return {'L': L(c.cur), 'others': others_unchanged(c),
                'lost': c.cur.f('DbWorker._Worker__connection_lost', s),
                'holder-frees': Implies(has(c.old, s), And(Not(c.cur.g(LOCK)), Not(has(c.cur, s)))),
                'non-holder-leaves-lock': Implies(Not(has(c.old, s)), And(c.cur.g(LOCK) == c.old.g(LOCK), Not(has(c.cur, s)))),
                'nothing-sent': c.cur.f('DbWorker.ghost_nsent', s) == c.old.f('DbWorker.ghost_nsent', s)}


def _lemma_abandon():
    """a waiter whose connection dropped can never take the lock afterwards: _do_acquire's `abandoned`
    clause needs `lost`, which connectionLost establishes and nothing ever resets (frame of the other operations)"""
    return []
