"""C15 / C04: schedule.build — after a (re)load exactly the algorithms that own a changed version (algorithm, state
vector or value) are scheduled, for every known target (`__all__` for an analysis); the queue holds exactly those."""
from .base import *
from . import c15_version, c02_organize, c01_release
from .c15_version import VMAP, PMAP, _diff
from .c02_organize import asp, db_targets, under, organize, choice_root

alg2 = z3.Function('task_dot_alg_of', ATOM.sort(), ATOM.sort())                     # '.'.join(item.split('.')[:2])
W.declare_global('dawgie.pl.schedule.promote.ae', Opt(CONSTRUCT))
W.declare_global('dawgie.pl.schedule.promote.organize', ATOM)
W.py_objects['dawgie.pl.schedule.organize'] = 'organize'
LATEST = Tup(VMAP, VMAP, VMAP)
PREVIOUS = Tup(ATOM, PMAP, PMAP, PMAP)


def _construct(ex, args, kwargs, e):
    """trusted (C09, bounded): Construct(factories) yields a fresh graph none of whose task nodes has anything pending,
    executing or released"""
    st = ex.st
    for f in ('Node.todo', 'Node.doing', 'Node.do', 'Node.status', 'Node.runid', 'Node.event', 'Node.kids', 'Node.tag', 'Node.factory', 'Construct._at'):
        ex._note_write(f, e.lineno)
        st.heap[f] = z3.Const(ex.path.fresh_name('built_' + f), st.heap[f].sort())
    ae = ex.fresh('ae', CONSTRUCT)
    n = z3.Const(ex.path.fresh_name('qn'), NODE.sort())
    at = st.heap['Construct._at'][ae]
    w = c02_organize.w_root(at, n)
    below = And(at[w], reach(w, n))
    for f in ('Node.todo', 'Node.doing', 'Node.do'):
        ex.st.qh.append(QHyp([n], Implies(below, st.heap[f][n] == TGTS.empty()), 'fresh-graph.' + f))
    ex.st.ghost['built'] = ex.st.snap()
    ex.st.ghost['built_ae'] = ae
    return V(ae, CONSTRUCT)


def _unique(ex, args, kwargs, e):
    v = args[0] if args else None
    return ex.newbox(ex.world.as_set_term(ex, v, ATOM), TGTS)


SA = SetOf(ATOM)
w_item = z3.Function('w_changed_item_of', SA.sort(), ATOM.sort(), ATOM.sort())      # some changed item among S owned by the algorithm


@contract(W, 'dawgie/pl/schedule.py', 'build', props=['C15', 'C04'])
class build(ContractBase):
    params = {'factories': ATOM, 'latest': LATEST, 'previous': PREVIOUS}
    modifies = ['Node.todo', 'Node.doing', 'Node.do', 'Node.status', 'Node.runid', 'Node.event', 'Node.kids', 'Node.tag', 'Node.factory', 'Construct._at',
                'dawgie.pl.schedule.ae', 'dawgie.pl.schedule.que', 'dawgie.pl.schedule.per', 'dawgie.pl.schedule.promote.ae', 'dawgie.pl.schedule.promote.organize']
    externs = {'dawgie.pl.dag.Construct': Extern(fn=_construct), 'dawgie.util.fifo.Unique': Extern(fn=_unique)}
    abstract = {"'.'.join(item.split('.')[:2])": lambda ex, e: V(alg2(ex.to_z3(ex.st.env['item'], ATOM)), ATOM),
                "f'New software changeset {rev}'": ATOM}
    locals = {'ans': SA, 'trglist': TGTS, 'dalg': Bag(ATOM), 'dsv': Bag(ATOM), 'dv': Bag(ATOM)}
    assumes = [lambda c: build._choice(c), choice_root]

    def requires(c):
        return {}

    @staticmethod
    def _changed(c, item):
        L, P = c['latest'], c['previous']
        ch = lambda cur, prev: And(Not(VMAP.opt.is_none(cur[item])), Or(PMAP.opt.is_none(prev[item]), Not(PMAP.opt.val(prev[item])[VMAP.opt.val(cur[item])])))
        return Or(ch(LATEST.get(L, '_0'), PREVIOUS.get(P, '_1')), ch(LATEST.get(L, '_1'), PREVIOUS.get(P, '_2')), ch(LATEST.get(L, '_2'), PREVIOUS.get(P, '_3')))

    @staticmethod
    def _owner(c, k):
        """the algorithm k owns an item whose current version is not among the persisted ones"""
        ALLITEMS = z3.K(ATOM.sort(), z3.BoolVal(True))
        w = w_item(ALLITEMS, k)
        return And(build._changed(c, w), alg2(w) == k)

    @staticmethod
    def _choice(c):
        item, k = z3.Const('ch_item', ATOM.sort()), z3.Const('ch_k', ATOM.sort())
        return [QHyp([item], Implies(build._changed(c, item), build._owner(c, alg2(item))), 'choice.item')]

    @staticmethod
    def _progress(c, P):
        """P(n): the node has been given its targets so far; everything else is as the fresh graph had it"""
        n, x = c.sk('n', NODE), c.sk('x', ATOM)
        B = c.ex.st.ghost['built']
        is_asp = c.cur.f('Factory.__name__', c.cur.f('Node.factory', n)) == atom('analysis')
        want = If(is_asp, z3.Store(TGTS.empty(), ALL, True), db_targets)
        k = c.sk('k', ATOM)
        return {'todo': todo(c.cur, n)[x] == If(P(n), want[x], B.f('Node.todo', n)[x]),
                'ans': c.loc('ans')[k] == build._owner(c, k),
                'queue-empty': And(que(c.cur) == ListSet(NODE).empty(), c.cur.g('dawgie.pl.schedule.per') == ListSet(NODE).empty()),
                'graph': And(c.cur.g('dawgie.pl.schedule.ae') == Opt(CONSTRUCT).some(c.ex.st.ghost['built_ae']), c.loc('trglist') == db_targets)}

    @staticmethod
    def _at(c):
        return c.cur.f('Construct._at', c.ex.st.ghost['built_ae'])

    def _inv_names(c):
        return build._progress(c, lambda m: And(c.done[c.cur.f('Node.tag', m)], under(build._at(c), m)))

    def _inv_roots(c):
        tn = c.loc('tn')
        outer = c.outer_done('for tn in ans')
        return build._progress(c, lambda m: Or(And(outer[c.cur.f('Node.tag', m)], under(build._at(c), m)), And(c.cur.f('Node.tag', m) == tn, under(c.done, m))))

    def _inv_nodes(c):
        tn = c.loc('tn')
        o_names = c.outer_done('for tn in ans')
        o_roots = c.outer_done('for t in dawgie.pl.schedule.ae.at')
        return build._progress(c, lambda m: Or(And(o_names[c.cur.f('Node.tag', m)], under(build._at(c), m)),
                                               And(c.cur.f('Node.tag', m) == tn, under(o_roots, m)), c.done[m]))
    loops = {'for tn in ans': Loop(inv=_inv_names, modifies=['Node.todo']), 'for t in dawgie.pl.schedule.ae.at': Loop(inv=_inv_roots, modifies=['Node.todo']),
             'for n in t.locate(tn)': Loop(inv=_inv_nodes, modifies=['Node.todo'])}

    def ensures(c):
        n, x = c.sk('n', NODE), c.sk('x', ATOM)
        ae = Opt(CONSTRUCT).val(c.cur.g('dawgie.pl.schedule.ae'))
        at = c.cur.f('Construct._at', ae)
        tagn = c.cur.f('Node.tag', n)
        owner = build._owner(c, tagn)
        below = under(at, n)
        is_asp = c.cur.f('Factory.__name__', c.cur.f('Node.factory', n)) == atom('analysis')
        want = If(owner, If(is_asp, z3.Store(TGTS.empty(), ALL, True), db_targets), TGTS.empty())
        return {'exactly-the-owners-are-scheduled': Implies(below, todo(c.cur, n)[x] == want[x]),
                'queue-is-exactly-the-owners-with-targets': que(c.cur)[n] == And(below, owner, todo(c.cur, n) != TGTS.empty()),
                'no-periodic-left-over': c.cur.g('dawgie.pl.schedule.per') == ListSet(NODE).empty()}
