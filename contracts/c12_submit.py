"""C12: priority lattice, submit crossroads, waiter bookkeeping (FSM.wait_for_*, their done() callbacks)."""
from .base import *
P_ = dawgie.tools.submit.Priority


def rank(t):
    return If(t == PRIO.const('NOW'), 3, If(t == PRIO.const('CREW'), 2, If(t == PRIO.const('DOING'), 1, 0)))


def orank(o):
    """rank of an optional priority; None ranks below everything"""
    OP = Opt(PRIO)
    return If(OP.is_none(o), -1, rank(OP.val(o)))


@contract(W, 'dawgie/tools/submit.py', 'Priority.max', props=['C12'])
class PriorityMax(ContractBase):
    params = {}
    vararg = [Opt(PRIO), Opt(PRIO)]
    returns = PRIO
    modifies = []

    def ensures(c):
        a, b = c['largs_0'], c['largs_1']
        r = rank(c.result)
        return {'upper': And(r >= orank(a), r >= orank(b)),
                'attained': Or(r == orank(a), r == orank(b), And(r == 0, orank(a) <= 0, orank(b) <= 0)),
                'join': r == If(orank(a) >= orank(b), If(orank(a) < 0, 0, orank(a)), If(orank(b) < 0, 0, orank(b)))}


W.externs['dawgie.pl.LogFailure'] = Extern(fn=lambda ex, args, kwargs, e: Dotted('logfailure'))
W.externs['logfailure.log'] = Extern(fn=lambda ex, args, kwargs, e: Dotted('logfailure.log'))


def _defer_to_thread(ex, args, kwargs, e):
    """assumed: returns a fresh Deferred; the callable runs on a pool thread (ghost: remember which poller)"""
    f = args[0]
    which = f.name.replace('is_', '').replace('_done', '') if isinstance(f, Bound) else 'other'
    cur = ex.st.glob['ghost.pollers_started']
    ex.st.glob['ghost.pollers_started'] = z3.Store(cur, atom(which), True)
    return V(ex.fresh('deferred', DEFERRED), DEFERRED)


W.externs['twisted.internet.threads.deferToThread'] = Extern(fn=_defer_to_thread)


def _update_trigger(ex, recv, args, kwargs, line):
    """assumed (transitions): fires running->updating; ghost counter of reload triggers"""
    ex.st.glob['ghost.update_triggers'] = ex.st.glob['ghost.update_triggers'] + 1
    return None


W.methods[('FSM', 'update_trigger')] = _update_trigger

for _w in ('crew', 'doing', 'todo'):
    def _mk(w):
        @contract(W, 'dawgie/pl/state.py', 'FSM.waiting_on_' + w, props=['C12', 'C11'])
        class _K(ContractBase):
            params = {'self': FSM}
            inline = True
        return _K
    _mk(_w)


vd_empty = z3.Function('view_doing_is_empty', ListSet(NODE).sort(), z3.ArraySort(NODE.sort(), STATE.sort()), z3.BoolSort())


def condition_holds(view, which):
    """the condition of a priority, evaluated on the scheduler/farm state"""
    if which == 'crew':
        return view.g('dawgie.pl.farm._busy') == SetOf(ATOM).empty()
    if which == 'doing':
        return vd_empty(view.g('dawgie.pl.schedule.que'), view.arr('Node.status'))
    return view.g('dawgie.pl.schedule.que') == ListSet(NODE).empty()


def _view_doing(ex, args, kwargs, e):
    """assumed here (bounded under C04): view_doing() is a function of the queue and the node statuses; only its emptiness is used"""
    m = ex.fresh('view_doing', MapOf(ATOM, ATOM))
    ex.assume((m == MapOf(ATOM, ATOM).empty()) == vd_empty(ex.st.glob['dawgie.pl.schedule.que'], ex.st.heap['Node.status']))
    return ex.newbox(m, MapOf(ATOM, ATOM))


W.externs['dawgie.pl.schedule.view_doing'] = Extern(fn=_view_doing)


def _waiter(which, cleared, sets):
    @contract(W, 'dawgie/pl/state.py', 'FSM.wait_for_' + which, props=['C12', 'C04'])
    class _K(ContractBase):
        params = {'self': FSM}
        modifies = ['Event.flag', 'FSM.%s_thread' % which, 'ghost.pollers_started']
        assumes = [fsm_distinct_events]

        def ensures(c):
            s = c['self']
            OD = Opt(DEFERRED)
            out = {'own-cleared': Not(flag(c.cur, s, which))}
            for w in sets:
                out['weaker-set.' + w] = flag(c.cur, s, w)
            for w in ('crew', 'doing', 'todo'):
                if w != which and w not in sets:
                    out['stronger-kept.' + w] = flag(c.cur, s, w) == flag(c.old, s, w)
            started = c.cur.g('ghost.pollers_started')[atom(which)]
            was = c.old.g('ghost.pollers_started')[atom(which)]
            out['poller-iff-none'] = Implies(Not(was), started == OD.is_none(c.old.f('FSM.%s_thread' % which, s)))
            out['slot-taken'] = Not(OD.is_none(c.cur.f('FSM.%s_thread' % which, s)))
            return out
    _K.__name__ = 'wait_for_' + which

    @contract(W, 'dawgie/pl/state.py', 'FSM.wait_for_%s.<locals>.done' % which, props=['C12', 'C04'])
    class _D(ContractBase):
        params = {}
        vararg = []
        free = {'self': FSM}
        modifies = ['FSM.%s_thread' % which, 'ghost.update_triggers', 'Event.flag', 'ghost.pollers_started']
        assumes = [fsm_distinct_events]

        def requires(c):
            # done() is the callback of the poller that is finishing: no other poller of this kind was started by this call
            return {'fresh-ghost': Not(c.old.g('ghost.pollers_started')[atom(which)])}

        def ensures(c):
            s = c['self']
            OD = Opt(DEFERRED)
            n0, n1 = c.old.g('ghost.update_triggers'), c.cur.g('ghost.update_triggers')
            waiting = Not(flag(c.old, s, which))
            active = And(c.old.f('FSM.state', s) == FSMSTATE.const('running'), c.old.f('FSM._FSM__transitioning', s) == STATUS.const('active'))
            holds = And(active, condition_holds(c.old, which))
            rearmed = c.cur.g('ghost.pollers_started')[atom(which)]
            return {'M3.slot-free-iff-no-poller': OD.is_none(c.cur.f('FSM.%s_thread' % which, s)) == Not(rearmed),
                    'trigger-only-when-condition-holds-now': n1 == n0 + If(And(waiting, holds), 1, 0),
                    'keeps-waiting-otherwise': Implies(And(waiting, Not(holds)), And(rearmed, Not(flag(c.cur, s, which)))),
                    'cancelled-stays-quiet': Implies(Not(waiting), And(Not(rearmed), n1 == n0))}
    _D.__name__ = 'wait_for_%s_done' % which
    return _K, _D


_waiter('crew', 'crew', ['doing', 'todo'])
_waiter('doing', 'doing', ['todo'])
_waiter('todo', 'todo', [])


@contract(W, 'dawgie/pl/state.py', 'FSM.wait_for_nothing', props=['C12'])
class wait_for_nothing(ContractBase):
    params = {'self': FSM}
    modifies = ['Event.flag', 'ghost.update_triggers']
    assumes = [fsm_distinct_events]

    def ensures(c):
        s = c['self']
        return {'all-set': And(flag(c.cur, s, 'crew'), flag(c.cur, s, 'doing'), flag(c.cur, s, 'todo')),
                'reload-now': c.cur.g('ghost.update_triggers') == c.old.g('ghost.update_triggers') + 1}


# ---------------------------------------------------------------- FSM.transitioning property, activity predicate, reset
W.properties[('FSM', 'transitioning')] = ('dawgie.pl.state.FSM.transitioning', 'dawgie.pl.state.FSM.transitioning@setter')


@contract(W, 'dawgie/pl/state.py', 'FSM.transitioning', props=['C10', 'C12', 'C11'])
class transitioning_get(ContractBase):
    params = {'self': FSM}
    inline = True


@contract(W, 'dawgie/pl/state.py', 'FSM.transitioning@setter', props=['C10', 'C12'])
class transitioning_set(ContractBase):
    params = {'self': FSM, 'status': STATUS}
    modifies = ['FSM._FSM__transitioning']
    inline = True
    also_verify = True
    raises = {'MachineError': lambda c: And(c['status'] != STATUS.const('active'),
                                            c.old.f('FSM._FSM__transitioning', c['self']) != STATUS.const('active'))}

    def ensures(c):
        s = c['self']
        t = z3.Const('o', FSM.sort())
        return {'set': c.cur.f('FSM._FSM__transitioning', s) == c['status'],
                'only-from-active': Or(c['status'] == STATUS.const('active'), c.old.f('FSM._FSM__transitioning', s) == STATUS.const('active'))}

    def ensures_on_raise(c):
        return {'unchanged': c.cur.f('FSM._FSM__transitioning', c['self']) == c.old.f('FSM._FSM__transitioning', c['self'])}


W.externs['transitions.MachineError'] = Extern(fn=lambda ex, args, kwargs, e: Dotted('exception.MachineError'))


@contract(W, 'dawgie/pl/state.py', 'FSM.is_pipeline_active', props=['C10', 'C11', 'C12'])
class is_pipeline_active(ContractBase):
    params = {'self': FSM}
    returns = BOOL
    modifies = []
    inline = True
    also_verify = True

    def ensures(c):
        s = c['self']
        return {'iff-at-rest-in-running': c.result == And(c.old.f('FSM.state', s) == FSMSTATE.const('running'),
                                                          c.old.f('FSM._FSM__transitioning', s) == STATUS.const('active'))}


@contract(W, 'dawgie/pl/state.py', 'FSM.reset', props=['C10', 'C12'])
class fsm_reset(ContractBase):
    params = {'self': FSM}
    modifies = ['FSM._FSM__transitioning', 'Event.flag', 'FSM.priority']
    assumes = [fsm_distinct_events]
    raises = {'MachineError': lambda c: c.old.f('FSM._FSM__transitioning', c['self']) != STATUS.const('active')}

    def ensures(c):
        s = c['self']
        OP = Opt(PRIO)
        return {'events-set': And(flag(c.cur, s, 'crew'), flag(c.cur, s, 'doing'), flag(c.cur, s, 'todo')),
                'priority-cleared': OP.is_none(c.cur.f('FSM.priority', s)),
                'active': c.cur.f('FSM._FSM__transitioning', s) == STATUS.const('active')}


@contract(W, 'dawgie/pl/state.py', 'FSM.set_submit_info', props=['C12'])
class set_submit_info(ContractBase):
    params = {'self': FSM, 'changeset': Opt(ATOM), 'priority': ATOM}
    modifies = ['FSM.priority', 'FSM.changeset']

    def ensures(c):
        s = c['self']
        OP = Opt(PRIO)
        p = c['priority']
        parsed = If(p == atom('now'), 3, If(p == atom('crew_idle'), 2, If(p == atom('doing_empty'), 1, 0)))   # unknown strings -> TODO
        new = c.cur.f('FSM.priority', s)
        return {'strongest-so-far': And(Not(OP.is_none(new)), rank(OP.val(new)) == If(orank(c.old.f('FSM.priority', s)) >= parsed,
                                                                                       orank(c.old.f('FSM.priority', s)), parsed))}


@contract(W, 'dawgie/pl/state.py', 'FSM.submit_crossroads', props=['C12'])
class submit_crossroads(ContractBase):
    params = {'self': FSM}
    modifies = ['Event.flag', 'FSM.crew_thread', 'FSM.doing_thread', 'FSM.todo_thread', 'ghost.pollers_started', 'ghost.update_triggers']
    assumes = [fsm_distinct_events]

    def ensures(c):
        s = c['self']
        OP = Opt(PRIO)
        pr = c.old.f('FSM.priority', s)
        active = And(c.old.f('FSM.state', s) == FSMSTATE.const('running'), c.old.f('FSM._FSM__transitioning', s) == STATUS.const('active'))
        n0, n1 = c.old.g('ghost.update_triggers'), c.cur.g('ghost.update_triggers')
        idle = And(n1 == n0, c.cur.arr('Event.flag') == c.old.arr('Event.flag'), c.cur.arr('FSM.crew_thread') == c.old.arr('FSM.crew_thread'),
                   c.cur.arr('FSM.doing_thread') == c.old.arr('FSM.doing_thread'), c.cur.arr('FSM.todo_thread') == c.old.arr('FSM.todo_thread'))
        is_ = lambda nm: And(Not(OP.is_none(pr)), OP.val(pr) == PRIO.const(nm))
        return {'refused-unless-active': Implies(Not(active), idle),
                'nothing-without-priority': Implies(OP.is_none(pr), idle),
                'now': Implies(And(active, is_('NOW')), n1 == n0 + 1),
                'crew': Implies(And(active, is_('CREW')), And(n1 == n0, Not(flag(c.cur, s, 'crew')), flag(c.cur, s, 'doing'), flag(c.cur, s, 'todo'))),
                'doing': Implies(And(active, is_('DOING')), And(n1 == n0, Not(flag(c.cur, s, 'doing')), flag(c.cur, s, 'todo'),
                                                               flag(c.cur, s, 'crew') == flag(c.old, s, 'crew'))),
                'todo': Implies(And(active, is_('TODO')), And(n1 == n0, Not(flag(c.cur, s, 'todo')), flag(c.cur, s, 'crew') == flag(c.old, s, 'crew'),
                                                             flag(c.cur, s, 'doing') == flag(c.old, s, 'doing')))}


@contract(W, 'dawgie/pl/state.py', 'FSM.save_prior_state', props=['C10'])
class save_prior_state(ContractBase):
    """the `before` callback of both archiving edges: it runs before the state changes, so a trigger that arrives while
    another transition is in progress must be rejected here with nothing changed"""
    params = {'self': FSM}
    modifies = ['FSM._FSM__prior', 'FSM._FSM__transitioning']
    raises = {'MachineError': lambda c: c.old.f('FSM._FSM__transitioning', c['self']) != STATUS.const('active')}

    def ensures(c):
        s = c['self']
        return {'prior-is-the-state-left': c.cur.f('FSM._FSM__prior', s) == Opt(FSMSTATE).some(c.old.f('FSM.state', s)),
                'guard-restored': c.cur.f('FSM._FSM__transitioning', s) == STATUS.const('active'),
                'only-at-rest': c.old.f('FSM._FSM__transitioning', s) == STATUS.const('active')}

    def ensures_on_raise(c):
        s = c['self']
        return {'rejected-without-side-effects': And(c.cur.f('FSM._FSM__prior', s) == c.old.f('FSM._FSM__prior', s),
                                                     c.cur.f('FSM._FSM__transitioning', s) == c.old.f('FSM._FSM__transitioning', s))}


def _priority_max_replay(model, vc):
    """the two (optional) priorities from the solver's model, through the real Priority.max"""
    from dawgie.tools.submit import Priority
    OP = Opt(PRIO)

    def val(t):
        if z3.is_true(model.eval(OP.is_none(t), model_completion=True)):
            return None
        v = model.eval(OP.val(t), model_completion=True)
        for m in Priority:
            if z3.is_true(model.eval(v == PRIO.const(m.name), model_completion=True)):
                return m
        return None
    a, b = val(vc.inputs['largs_0']), val(vc.inputs['largs_1'])
    try:
        got = Priority.max(a, b)
    except Exception as e:
        return {'reproduced': True, 'input': [str(a), str(b)], 'observed': '%s: %s' % (type(e).__name__, e), 'expected': 'the stronger of the two'}
    by_rank = [Priority.TODO, Priority.DOING, Priority.CREW, Priority.NOW]
    rk = lambda p: -1 if p is None else by_rank.index(p)
    want = by_rank[max(rk(a), rk(b), 0)]
    return {'reproduced': got is not want, 'input': [str(a), str(b)], 'observed': str(got), 'expected': str(want)}


PriorityMax.replay = staticmethod(_priority_max_replay)
