"""C11: work goes only to eligible workers, only while the pipeline is active (farm.Hand methods, gate, run id)."""
from .base import *
from . import c12_submit          # FSM.is_pipeline_active / waiting_on_* contracts

WK = 'dawgie.pl.farm._workers'
SENT = 'Hand.ghost_sent'
CLOSED = 'Transport.closed'


def told(c, h, which):
    """exactly one more message was sent to h: the one stored in its field `which`"""
    return sent(c.cur, h) == z3.Concat(sent(c.old, h), z3.Unit(c.old.f('Hand.' + which, h)))


def silent(c, h):
    return sent(c.cur, h) == sent(c.old, h)


@contract(W, 'dawgie/pl/farm.py', 'Hand._reg', props=['C11'])
class hand_reg(ContractBase):
    params = {'self': HAND, 'msg': MSG}
    modifies = [WK, SENT, CLOSED, 'Hand._Hand__incarnation']

    def ensures(c):
        s, m = c['self'], c['msg']
        o = c.sk('o', HAND)
        match = MSG.get(m, 'revision') == c.old.g('dawgie.context.git_rev')
        return {'listed-iff-current-revision': workers(c.cur)[s] == match,
                'stale-told-to-leave': Implies(Not(match), And(told(c, s, '_abort'), closed(c.cur, s))),
                'accepted-not-contacted': Implies(match, And(silent(c, s), closed(c.cur, s) == closed(c.old, s))),
                'others': Implies(o != s, And(workers(c.cur)[o] == workers(c.old)[o], sent(c.cur, o) == sent(c.old, o)))}


@contract(W, 'dawgie/pl/farm.py', 'Hand.connectionLost', props=['C11'])
class hand_lost(ContractBase):
    params = {'self': HAND, 'reason': ATOM}
    modifies = [WK]

    def ensures(c):
        o = c.sk('o', HAND)
        return {'gone': Not(workers(c.cur)[c['self']]), 'others': Implies(o != c['self'], workers(c.cur)[o] == workers(c.old)[o])}

    def _inv(c):
        o = c.sk('o', HAND)
        return {'others': Implies(o != c['self'], workers(c.cur)[o] == workers(c.old)[o])}
    loops = {'while 0 < _workers.count(self)': Loop(inv=_inv, modifies=[WK])}


@contract(W, 'dawgie/pl/farm.py', 'Hand.notify', props=['C11'])
class hand_notify(ContractBase):
    params = {'self': HAND, 'keep': Opt(BOOL)}
    defaults = {'keep': None}
    returns = BOOL
    modifies = [SENT, CLOSED]

    def ensures(c):
        s = c['self']
        o = c.sk('o', HAND)
        OB = Opt(BOOL)
        keep = If(OB.is_none(c['keep']), fsm_active(c.old), OB.val(c['keep']))
        return {'result': c.result == keep,
                'leave': Implies(Not(keep), And(told(c, s, '_abort'), closed(c.cur, s))),
                'wait': Implies(keep, And(told(c, s, '_Hand__wait'), closed(c.cur, s) == closed(c.old, s))),
                'others': Implies(o != s, sent(c.cur, o) == sent(c.old, o)),
                'other-connections': Implies(c.sk('tr', TRANSPORT) != c.old.f('Hand.transport', s),
                                             c.cur.f(CLOSED, c.sk('tr', TRANSPORT)) == c.old.f(CLOSED, c.sk('tr', TRANSPORT)))}


@contract(W, 'dawgie/pl/farm.py', 'notify_all', props=['C11'])
class notify_all(ContractBase):
    params = {}
    modifies = [WK, SENT, CLOSED]

    def ensures(c):
        o = c.sk('o', HAND)
        act = fsm_active(c.old)
        return {'inactive-everyone-leaves': Implies(Not(act), And(workers(c.cur) == ListSet(HAND).empty(),
                                                                 Implies(workers(c.old)[o], And(told(c, o, '_abort'), closed(c.cur, o))))),
                'active-list-kept': Implies(act, And(workers(c.cur)[o] == workers(c.old)[o], Implies(workers(c.old)[o], told(c, o, '_Hand__wait')))),
                'strangers-untouched': Implies(Not(workers(c.old)[o]), silent(c, o))}

    def _inv(c):
        o = c.sk('o', HAND)
        act = fsm_active(c.old)
        res = c.loc('__filtered')
        return {'kept': res[o] == And(c.done[o], act),
                'told': Implies(c.done[o], If(act, told(c, o, '_Hand__wait'), And(told(c, o, '_abort'), closed(c.cur, o)))),
                'pending': Implies(Not(c.done[o]), silent(c, o)),
                'list': workers(c.cur) == workers(c.old)}
    loops = {'for w in _workers': Loop(inv=_inv, modifies=[SENT, CLOSED])}


@contract(W, 'dawgie/pl/farm.py', 'something_to_do', props=['C11'])
class something_to_do(ContractBase):
    params = {}
    returns = BOOL
    modifies = []
    assumes = [fsm_distinct_events]

    def ensures(c):
        return {'only-when-active': Implies(c.result, fsm_active(c.old))}


@contract(W, 'dawgie/pl/farm.py', 'rerunid', props=['C11'])
class rerunid(ContractBase):
    params = {'job': NODE}
    returns = INT
    modifies = []

    def ensures(c):
        OI = Opt(INT)
        r = c.old.f('Node.runid', c['job'])
        return {'reuse': Implies(Not(OI.is_none(r)), c.result == OI.val(r)),
                'fresh-strictly-larger': Implies(OI.is_none(r), c.result > c.old.g('ghost.max_stored_runid'))}


W.declare_global('ghost.max_stored_runid', INT)


def _db_next(ex, args, kwargs, e):
    """assumed contract of dawgie.db.next (proved for the shelve back end under C08): larger than every stored run id"""
    r = ex.fresh('next_runid', INT)
    ex.assume(r > ex.st.glob['ghost.max_stored_runid'])
    return V(r, INT)


W.externs['dawgie.db.next'] = Extern(fn=_db_next)


RES_MODIFIES = ['Node.todo', 'Node.doing', 'Node.do', 'Node.status', 'Node.runid', 'Node.event', 'dawgie.pl.schedule.que',
                'dawgie.pl.farm._busy', 'dawgie.pl.farm._time', 'dawgie.pl.farm.ARCHIVE', 'ghost.chronicle', 'ghost.update_calls',
                'dawgie.pl.schedule.err', 'dawgie.pl.schedule.suc']


def wellformed_reply(m):
    """assumption on the peer (worker.cluster.execute builds replies this way): a response names its job and carries its timing"""
    return Implies(MSG.get(m, 'type') == MTYPE.const('response'),
                   And(Not(Opt(ATOM).is_none(MSG.get(m, 'jobid'))), Not(Opt(Ref('Timing')).is_none(MSG.get(m, 'timing')))))


class hand_res_stub:
    modifies = RES_MODIFIES


@contract(W, 'dawgie/pl/farm.py', 'Hand._process', props=['C11'])
class hand_process(ContractBase):
    params = {'self': HAND, 'msg': MSG}
    modifies = [WK, SENT, CLOSED, 'Hand._Hand__incarnation'] + hand_res_stub.modifies

    def requires(c):
        m = c['msg']
        return {'peer.replies-are-well-formed': wellformed_reply(m)}

    def ensures(c):
        s, m = c['self'], c['msg']
        ty = MSG.get(m, 'type')
        ok = And(MSG.get(m, 'revision') == c.old.g('dawgie.context.git_rev'), fsm_active(c.old))
        return {'status.proceed-iff-current-and-active': Implies(ty == MTYPE.const('status'),
                                                                 And(If(ok, told(c, s, '_Hand__proceed'), told(c, s, '_abort')), closed(c.cur, s),
                                                                     workers(c.cur) == workers(c.old))),
                'register.accepted-iff-current': Implies(ty == MTYPE.const('register'),
                                                         workers(c.cur)[s] == (MSG.get(m, 'revision') == c.old.g('dawgie.context.git_rev'))),
                'other-types-closed': Implies(And(ty != MTYPE.const('status'), ty != MTYPE.const('register'), ty != MTYPE.const('response')),
                                              And(closed(c.cur, s), silent(c, s), workers(c.cur) == workers(c.old)))}
