"""C14 (second half): security.TwistedWrapper — the legacy handshake gates the protocol: nothing reaches the wrapped
dataReceived before phase 5 has verified the peer's echo; the bytes that arrived with the last handshake packet are
handed over afterwards; a failed phase closes the connection and hands over nothing."""
from .base import *

TW = Ref('TwistedWrapper')
PROTO = Ref('WrappedProtocol')
RESP = Ref('PgpResponse')
PHASE = Enum('HandshakePhase', ['p1', 'p2', 'p3', 'p4', 'p5', 'p6'])
W.class_path['TwistedWrapper'] = 'dawgie.security.TwistedWrapper'
P = '_TwistedWrapper__'
W.declare_fields('TwistedWrapper', **{P + 'address': Opt(ATOM), P + 'buf': BYTES, P + 'dr': BOOL, P + 'len': INT, P + 'msg': ATOM,
                                      P + 'phase': PHASE, P + 'p': PROTO})
W.declare_fields('WrappedProtocol', ghost_delivered=BYTES, ghost_unwrapped=BOOL, ghost_closed=BOOL, ghost_sent=BYTES, transport=Ref('WTransport'))
W.declare_fields('PgpResponse', valid=BOOL)
BUF, LEN, PH, DR, PP, MSG_ = ['TwistedWrapper.' + P + x for x in ('buf', 'len', 'phase', 'dr', 'p', 'msg')]
DELIV, UNWR, CLOSED, SENT = ['WrappedProtocol.ghost_' + x for x in ('delivered', 'unwrapped', 'closed', 'sent')]

pgp_valid = z3.Function('pgp_signature_valid', BYTES.sort(), z3.BoolSort())       # _PGP.verify(b).valid
pgp_text = z3.Function('pgp_decrypted_text', BYTES.sort(), ATOM.sort())           # _PGP.decrypt(b).data.decode().strip()
echo_of = z3.Function('stripped', ATOM.sort(), ATOM.sort())                       # msg.strip()
challenge = z3.Function('challenge_text', z3.IntSort(), ATOM.sort())              # 'timestamp: ...\nunique id: ...' (fresh per call)
challenge_bytes = z3.Function('challenge_packet', ATOM.sort(), BYTES.sort())      # pack(len(msg)) + msg.encode()


def _proto_of(ex, recv_t):
    return ex.st.heap[PP][recv_t]


def _set(ex, field, ref, val, line):
    ex._note_write(field, line)
    ex.st.heap[field] = z3.Store(ex.st.heap[field], ref, val)


def _verify_of(var):
    def f(ex, e):
        r = ex.fresh('response', RESP)
        _set(ex, 'PgpResponse.valid', r, pgp_valid(ex.to_z3(ex.st.env[var], BYTES)), e.lineno)
        return V(r, RESP)
    return f


def _transport_write(ex, recv, args, kwargs, line):
    # recv is the transport of protocol p; the protocol is found through the ghost link
    p = ex.st.ghost['tw_proto']
    _set(ex, SENT, p, z3.Concat(ex.st.heap[SENT][p], ex.to_z3(args[0], BYTES)), line)
    return None


def _transport_lose(ex, recv, args, kwargs, line):
    p = ex.st.ghost['tw_proto']
    _set(ex, CLOSED, p, z3.BoolVal(True), line)
    return None


W.methods[('WTransport', 'write')] = _transport_write
W.methods[('WTransport', 'loseConnection')] = _transport_lose


def _unpack2(ex, args, kwargs, e):
    b = ex.to_z3(args[1], BYTES)
    if args[0] == '>II':
        ex.vc('safe.struct.unpack-size@%d' % e.lineno, z3.Length(b) == 8, e.lineno)
        return (V(unpack_fn(z3.SubSeq(b, 0, 4)), INT), V(unpack_fn(z3.SubSeq(b, 4, 4)), INT))
    ex.vc('safe.struct.unpack-size@%d' % e.lineno, z3.Length(b) == 4, e.lineno)
    return (V(unpack_fn(b), INT),)


def _setattr(ex, args, kwargs, e):
    """setattr(protocol, 'dataReceived', original): the wrapper steps aside (ghost flag)"""
    obj, name = args[0], args[1]
    if name != 'dataReceived' or not (isinstance(obj, V) and obj.ty == PROTO):
        raise Unsupported('setattr(%r, %r)' % (obj, name))
    _set(ex, UNWR, obj.t, z3.BoolVal(True), e.lineno)
    return None


_cv14 = W.call_value


def _call_value14(ex, f, args, kwargs, e):
    if isinstance(f, V) and f.ty == PHASE:
        me = ex.st.env['self']
        for nm in ('p1', 'p2', 'p3', 'p4', 'p5', 'p6'):
            if ex.decide(f.t == PHASE.const(nm), e.lineno):
                return ex.world.call_function(ex, 'dawgie.security.TwistedWrapper._' + nm, ([me] if nm != 'p6' else []) + list(args), kwargs, e)
        raise Unsupported('phase outside p1..p6')
    if isinstance(f, V) and f.ty == BOOL and getattr(f, 'is_dr', False):
        raise Unsupported('unexpected')
    return _cv14(ex, f, args, kwargs, e)


W.call_value = _call_value14


def _deliver_rest(ex, e):
    """self.__dr(self.__buf): the wrapped dataReceived gets the bytes (ghost: appended to what the application saw)"""
    me = ex.st.env['self']
    p = _proto_of(ex, me.t)
    ex.vc('safe.none@%d' % e.lineno, ex.st.heap[DR][me.t], e.lineno)
    _set(ex, DELIV, p, z3.Concat(ex.st.heap[DELIV][p], ex.st.heap[BUF][me.t]), e.lineno)
    return None


class _Suffix:
    """the second half of the challenge text (its content is part of `challenge(nonce)`)"""


def _binop14(ex, op, a, b, line):
    if isinstance(b, _Suffix) and isinstance(a, V) and a.ty == ATOM:
        return a
    return None


W.binop_hooks.append(_binop14)


def _fresh_challenge(ex, e):
    n = ex.fresh('nonce', INT)
    return V(challenge(n), ATOM)


COMMON_ABS = {"self._p2": lambda ex, e: V(PHASE.const('p2'), PHASE), "self._p3": lambda ex, e: V(PHASE.const('p3'), PHASE),
              "self._p4": lambda ex, e: V(PHASE.const('p4'), PHASE), "self._p5": lambda ex, e: V(PHASE.const('p5'), PHASE),
              "self._p6": lambda ex, e: V(PHASE.const('p6'), PHASE),
              "self.__dr(self.__buf)": _deliver_rest,
              "self.__dr is not None": lambda ex, e: V(ex.st.heap[DR][ex.st.env['self'].t], BOOL),
              "_PGP.verify(hid)": _verify_of('hid'), "_PGP.verify(reply)": _verify_of('reply'),
              "_PGP.decrypt(hid).data.decode()": lambda ex, e: V(pgp_text(ex.to_z3(ex.st.env['hid'], BYTES)), ATOM),
              "_PGP.decrypt(reply).data.decode()": lambda ex, e: V(pgp_text(ex.to_z3(ex.st.env['reply'], BYTES)), ATOM),
              "'timestamp: ' + str(datetime.datetime.now(datetime.UTC))": _fresh_challenge,
              "'\\nunique id: ' + str(random.random())": lambda ex, e: _Suffix(),
              "struct.pack('>I', len(self.__msg)) + self.__msg.encode()": lambda ex, e: V(challenge_bytes(ex.st.heap[MSG_][ex.st.env['self'].t]), BYTES),
              "reply.strip() == self.__msg.strip()": lambda ex, e: V(echo_of(ex.st.env['reply'].t) == echo_of(ex.st.heap[MSG_][ex.st.env['self'].t]), BOOL),
              "isinstance(self.__p, socket.socket)": lambda ex, e: False}
COMMON_EXT = {'struct.unpack': Extern(fn=_unpack2), 'setattr': Extern(fn=_setattr)}

for _nm in ('_p1', '_p2', '_p3', '_p4', '_p5'):
    def _mk(nm):
        @contract(W, 'dawgie/security.py', 'TwistedWrapper.' + nm, props=['C14'])
        class _K(ContractBase):
            params = {'self': TW, ('hid' if nm == '_p3' else 'reply' if nm == '_p5' else 'data'): BYTES}
            returns = BOOL
            inline = True
            abstract = COMMON_ABS
            externs = COMMON_EXT
        _K.__name__ = 'tw' + nm
        return _K
    _mk(_nm)


@contract(W, 'dawgie/security.py', 'TwistedWrapper._p6', props=['C14'])
class tw_p6(ContractBase):
    params = {'_ignore': BYTES}
    returns = BOOL
    inline = True


def rep(view, s):
    """representation invariant of the wrapper while it is in charge of an open connection"""
    p = view.f(PP, s)
    ph = view.f(PH, s)
    ln = view.f(LEN, s)
    before = ph != PHASE.const('p6')
    fixed = And(Implies(ph == PHASE.const('p1'), ln == 4), Implies(ph == PHASE.const('p2'), ln == 4), Implies(ph == PHASE.const('p4'), ln == 8))
    return And(ln >= 0, Implies(Not(view.f(CLOSED, p)), fixed), Implies(before, And(view.f(DELIV, p) == z3.Empty(BYTES.sort()), Not(view.f(UNWR, p)))))


@contract(W, 'dawgie/security.py', 'TwistedWrapper.process', props=['C14'])
class process(ContractBase):
    params = {'self': TW, 'data': BYTES}
    modifies = [BUF, LEN, PH, MSG_, DELIV, UNWR, CLOSED, SENT, 'PgpResponse.valid']
    abstract = COMMON_ABS
    externs = COMMON_EXT
    assumes = [lambda c: struct_axioms()]

    def requires(c):
        s = c['self']
        # A2 (twisted): loseConnection stops reading, so process is not called on a connection the wrapper has closed
        return {'rep': rep(c.old, s), 'wraps-a-protocol': c.old.f(DR, s), 'open': Not(c.old.f(CLOSED, c.old.f(PP, s)))}

    @staticmethod
    def _gate(c, view0):
        """what may have happened to the application since `view0`"""
        s = c['self']
        p = c.old.f(PP, s)
        d0, d1 = view0.f(DELIV, p), c.cur.f(DELIV, p)
        ph1 = c.cur.f(PH, s)
        return {'gate': Implies(d1 != d0, And(ph1 == PHASE.const('p6'), c.cur.f(UNWR, p), view0.f(PH, s) != PHASE.const('p6'))),
                'rep': rep(c.cur, s),
                # a handshake that failed (the wrapper never stepped aside) hands over nothing, whatever arrived with it
                'failed-handshake-hands-over-nothing': Implies(Not(c.cur.f(UNWR, p)), d1 == d0),
                'p6-is-final': Implies(view0.f(PH, s) == PHASE.const('p6'), ph1 == PHASE.const('p6'))}

    @staticmethod
    def _first_packet(c):
        """the verdict on the first complete handshake packet of this call (T = what was buffered plus the new bytes)"""
        s = c['self']
        p = c.old.f(PP, s)
        T = z3.Concat(c.old.f(BUF, s), c['data'])
        n0, ph0 = c.old.f(LEN, s), c.old.f(PH, s)
        pkt = z3.SubSeq(T, 0, n0)
        is_ = lambda nm: ph0 == PHASE.const(nm)
        closed, unwr, deliv = c.cur.f(CLOSED, p), c.cur.f(UNWR, p), c.cur.f(DELIV, p)
        echo_ok = And(pgp_valid(pkt), echo_of(pgp_text(pkt)) == echo_of(c.old.f(MSG_, s)))
        return And(Implies(And(is_('p1'), unpack_fn(pkt) != 4), closed),
                   Implies(And(is_('p3'), Not(pgp_valid(pkt))), closed),
                   Implies(And(is_('p4'), unpack_fn(z3.SubSeq(pkt, 0, 4)) != 4), closed),
                   Implies(And(is_('p5'), Not(echo_ok)), And(closed, Not(unwr))),
                   Implies(is_('p6'), closed),
                   # the echo was verified: the wrapper steps aside and hands over exactly what followed the packet, in order
                   Implies(And(is_('p5'), echo_ok), And(unwr, deliv == z3.SubSeq(T, n0, z3.Length(T) - n0))),
                   # ... and leaves the connection open with nothing kept back: the bytes handed over are not judged again
                   # as a further handshake packet (a verified echo packet is never empty; stated as the guard n0 > 0)
                   Implies(And(is_('p5'), echo_ok, n0 > 0), And(Not(closed), c.cur.f(BUF, s) == z3.Empty(BYTES.sort()), c.cur.f(LEN, s) == n0)))

    def ensures(c):
        out = dict(process._gate(c, c.old))
        s = c['self']
        p = c.old.f(PP, s)
        T = z3.Concat(c.old.f(BUF, s), c['data'])
        out['tail-in-order'] = z3.PrefixOf(c.old.f(DELIV, p), c.cur.f(DELIV, p))
        out['verdict-on-a-complete-packet'] = Implies(c.old.f(LEN, s) <= z3.Length(T), process._first_packet(c))
        out['incomplete-packet-waits'] = Implies(c.old.f(LEN, s) > z3.Length(T), And(c.cur.f(BUF, s) == T, c.cur.f(PH, s) == c.old.f(PH, s),
                                                                                      c.cur.f(CLOSED, p) == c.old.f(CLOSED, p)))
        return out

    def _inv(c):
        out = dict(process._gate(c, c.old))
        s = c['self']
        p = c.old.f(PP, s)
        T = z3.Concat(c.old.f(BUF, s), c['data'])
        out['proto'] = c.cur.f(PP, s) == c.old.f(PP, s)
        out['dr'] = c.cur.f(DR, s) == c.old.f(DR, s)
        out['closing-ends-the-loop'] = Implies(c.cur.f(CLOSED, p), c.cur.f(LEN, s) > z3.Length(c.cur.f(BUF, s)))
        untouched = And(c.cur.f(BUF, s) == T, c.cur.f(PH, s) == c.old.f(PH, s), c.cur.f(LEN, s) == c.old.f(LEN, s), c.cur.f(MSG_, s) == c.old.f(MSG_, s),
                        c.cur.f(CLOSED, p) == c.old.f(CLOSED, p), c.cur.f(DELIV, p) == c.old.f(DELIV, p), c.cur.f(UNWR, p) == c.old.f(UNWR, p))
        out['first-packet'] = Or(untouched, And(c.old.f(LEN, s) <= z3.Length(T), process._first_packet(c)))
        out['handed-over-means-aside'] = Implies(c.cur.f(UNWR, p), c.cur.f(PH, s) == PHASE.const('p6'))
        return out
    loops = {'while self.__len <= len(self.__buf)': Loop(inv=_inv, modifies=[BUF, LEN, PH, MSG_, DELIV, UNWR, CLOSED, SENT, 'PgpResponse.valid'])}

    @staticmethod
    def ghost_body(ex, args, line):
        ex.st.ghost['tw_proto'] = ex.st.heap[PP][args['self']]


# ------------------------------------------------------------------------------------------------ message.receive (blocking socket side)
SOCK = Ref('Socket')
W.declare_fields('Socket', ghost_stream=BYTES)
STREAM = 'Socket.ghost_stream'


def _recv(ex, recv, args, kwargs, line):
    """socket.recv(n): some non-empty prefix, at most n bytes long, of what the peer has sent and is still unread"""
    n = ex._num(args[0])
    s = ex.st.heap[STREAM][recv.t]
    ex.vc('safe.recv-asks-for-something@%d' % line, n > 0, line)
    k = ex.fresh('got', INT)
    ex.assume(And(k >= 1, k <= n, k <= z3.Length(s)))
    _set(ex, STREAM, recv.t, z3.SubSeq(s, k, z3.Length(s) - k), line)
    return V(z3.SubSeq(s, 0, k), BYTES)


W.methods[('Socket', 'recv')] = _recv


@contract(W, 'dawgie/pl/message.py', 'receive', props=['C14'])
class receive(ContractBase):
    """however the bytes arrive (any fragmentation, and with the following messages already queued behind), receive()
    consumes exactly one frame and returns its message"""
    params = {'s': SOCK}
    returns = MSG
    modifies = [STREAM]
    assumes = [lambda c: struct_axioms()]
    locals = {'buf': BYTES, 'length': INT}

    @staticmethod
    def _frame(c):
        S0 = c.old.f(STREAM, c['s'])
        L = unpack_fn(z3.SubSeq(S0, 0, 4))
        return S0, L

    def requires(c):
        S0, L = receive._frame(c)
        return {'a-complete-frame-is-on-its-way': And(z3.Length(S0) >= 4, z3.Length(S0) >= 4 + L)}

    def ensures(c):
        S0, L = receive._frame(c)
        return {'the-message-of-the-first-frame': c.result == loads_fn(z3.SubSeq(S0, 4, L)),
                'exactly-one-frame-consumed': c.cur.f(STREAM, c['s']) == z3.SubSeq(S0, 4 + L, z3.Length(S0) - 4 - L)}

    def _inv_head(c):
        S0, L = receive._frame(c)
        buf = c.loc('buf')
        return {'read-so-far': And(z3.Concat(buf, c.cur.f(STREAM, c['s'])) == S0, z3.Length(buf) <= 4)}

    def _inv_body(c):
        S0, L = receive._frame(c)
        buf = c.loc('buf')
        return {'read-so-far': And(z3.Concat(buf, c.cur.f(STREAM, c['s'])) == z3.SubSeq(S0, 4, z3.Length(S0) - 4), z3.Length(buf) <= L),
                'length': c.loc('length') == L}
    loops = {'while len(buf) < 4': Loop(inv=_inv_head, modifies=[STREAM]), 'while len(buf) < length': Loop(inv=_inv_body, modifies=[STREAM])}
