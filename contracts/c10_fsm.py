"""C10: the life-cycle machine.  The transition table is read from the real state.dot through the real
FSM.construct_attributes; triggers are given the semantics of transitions.Machine over that table (assumed, A7):
an unlisted (state, trigger) raises MachineError before any callback; otherwise before-callbacks, state := dest,
after-callbacks.  Callbacks are applied by their contracts (c12_submit.py has reset / save_prior_state / setter)."""
import os as _os
from .base import *
from . import c12_submit
from pyvc.spec import PYROOT
from pyvc.core import _Raise

# the documented machine (property statement + Documentation): source, trigger, dest, before, after
DOCUMENTED = {
    ('starting', 'starting_trigger', 'loading', 'start', 'load'),
    ('loading', 'contemplation_trigger', 'contemplation', None, 'navel_gaze'),
    ('contemplation', 'running_trigger', 'running', None, None),
    ('running', 'gitting_trigger', 'gitting', None, None),
    ('gitting', 'running_trigger', 'running', None, None),
    ('running', 'archiving_trigger', 'archiving', 'save_prior_state', 'archive'),
    ('archiving', 'running_trigger', 'running', None, None),
    ('running', 'update_trigger', 'updating', None, 'reload'),
    ('updating', 'loading_trigger', 'loading', 'reset', 'load'),
    ('updating', 'archiving_trigger', 'archiving', 'save_prior_state', 'archive'),
    ('archiving', 'updating_trigger', 'updating', None, 'loading_trigger'),
}


def real_table():
    import pydot
    import dawgie.pl.state as st
    g = pydot.graph_from_dot_file(_os.path.join(PYROOT, 'dawgie', 'pl', 'state.dot'))[0]
    out = set()
    for e in g.get_edges():
        a = st.FSM.construct_attributes(None, e.get_attributes())
        q = lambda x: x.strip('"') if isinstance(x, str) else x
        out.add((q(a.get('source')), q(a.get('trigger')), q(a.get('dest')), q(a.get('before')), q(a.get('after'))))
        if q(e.get_source()) != q(a.get('source')) or q(e.get_destination()) != q(a.get('dest')):
            out.add(('arrow-disagrees-with-attributes', q(e.get_source()), q(e.get_destination()), q(a.get('source')), q(a.get('dest'))))
    return out


def _table_lemma():
    real = real_table()
    out = []
    for e in sorted(DOCUMENTED | real, key=str):
        out.append(('edge.%s' % '.'.join(str(x) for x in e[:3]), z3.BoolVal(e in real and e in DOCUMENTED)))
    return out


_table_lemma._mod = __name__
W.lemmas = getattr(W, 'lemmas', []) + [('C10', 'table', _table_lemma)]
W.declare_global('ghost.background', SetOf(ATOM))          # background steps started by this call (deferToThread)
W.declare_global('ghost.triggers_fired', ListOf(ATOM))     # triggers fired by this call, in order
TRIGLOG = ListOf(ATOM)


def _fire(name):
    """transitions.Machine semantics of one trigger over the real table, callbacks applied by contract"""
    def model(ex, recv, args, kwargs, line):
        edges = [e for e in real_table() if e[1] == name and len(e) == 5]
        log = ex.get_global('ghost.triggers_fired')
        ex.call_method(log, 'append', [name], {}, line)
        state = ex.get_field(recv, 'state')
        for (src, _t, dst, before, after) in edges:
            if ex.decide(ex.equal(state, FSMSTATE.const(src) if False else V(FSMSTATE.const(src), FSMSTATE), line), line):
                for cb in ([before] if before else []):
                    ex.call_method(recv, cb, [], {}, line)
                ex.set_field(recv, 'state', V(FSMSTATE.const(dst), FSMSTATE), line)
                for cb in ([after] if after else []):
                    ex.call_method(recv, cb, [], {}, line)
                return None
        raise _Raise('MachineError', line)
    return model


for _t in sorted({e[1] for e in DOCUMENTED}):
    if _t != 'update_trigger':
        W.methods[('FSM', _t)] = _fire(_t)
_upd = _fire('update_trigger')


def _update_trigger(ex, recv, args, kwargs, line):
    c12_submit._update_trigger(ex, recv, args, kwargs, line)      # ghost counter of reloads (C12)
    return _upd(ex, recv, args, kwargs, line)


W.methods[('FSM', 'update_trigger')] = _update_trigger


def _defer(ex, args, kwargs, e):
    f = args[0]
    nm = f.name if isinstance(f, Bound) else 'other'
    cur = ex.st.glob['ghost.background']
    ex._note_write('ghost.background', e.lineno)
    ex.st.glob['ghost.background'] = z3.Store(cur, atom(nm), True)
    if nm.startswith('is_') and nm.endswith('_done'):
        return c12_submit._defer_to_thread(ex, args, kwargs, e)
    return V(ex.fresh('deferred', DEFERRED), DEFERRED)


W.externs['twisted.internet.threads.deferToThread'] = Extern(fn=_defer)
for _p in ('dawgie.db.open', 'dawgie.db.close', 'dawgie.db.archive', 'dawgie.pl.farm.clear', 'dawgie.pl.farm.plow', 'os.makedirs'):
    W.externs[_p] = Extern(drop=True)
W.externs['dawgie.db.reopen'] = Extern(ret=BOOL)

W.declare_global('ghost.told_to_leave', ListSet(HAND))     # ghost: the idle workers notify_all saw (pipeline inactive: they are told to leave)


def _told(ex, e):
    ex._note_write('ghost.told_to_leave', e.lineno)
    ex.st.glob['ghost.told_to_leave'] = ex.st.glob['dawgie.pl.farm._workers']
    return None


def _cleared(ex, e):
    ex._note_write('dawgie.pl.farm._workers', e.lineno)
    ex.st.glob['dawgie.pl.farm._workers'] = ListSet(HAND).empty()
    return None


ACTIVE, ENTERING, EXITING = [STATUS.const(x) for x in ('active', 'entering', 'exiting')]
TR = 'FSM._FSM__transitioning'
FRAME = ['dawgie.pl.farm.insights', 'FSM.state', TR, 'FSM._FSM__prior', 'FSM.priority', 'Event.flag', 'FSM.open_again', 'ghost.background', 'ghost.triggers_fired',
         'ghost.update_triggers', 'dawgie.pl.farm.ARCHIVE', 'ghost.pollers_started', 'FSM.crew_thread', 'FSM.doing_thread', 'FSM.todo_thread',
         'dawgie.pl.farm._workers', 'Hand.ghost_sent', 'Transport.closed', 'ghost.told_to_leave']


def fired(c):
    """the triggers fired by this call, as (length, array)"""
    t0, t1 = c.old.g('ghost.triggers_fired'), c.cur.g('ghost.triggers_fired')
    n0 = TRIGLOG.len(t0)
    return TRIGLOG.len(t1) - n0, lambda i: TRIGLOG.arr(t1)[n0 + i]


def log_prefix(c):
    """the trigger log only grows"""
    t0, t1 = c.old.g('ghost.triggers_fired'), c.cur.g('ghost.triggers_fired')
    i = z3.Int('lp_i')
    return And(TRIGLOG.len(t1) >= TRIGLOG.len(t0), TRIGLOG.len(t0) >= 0,
               z3.ForAll([i], Implies(And(0 <= i, i < TRIGLOG.len(t0)), TRIGLOG.arr(t1)[i] == TRIGLOG.arr(t0)[i])))


def fresh_ghost(c):
    return {'ghost.nothing-started-yet': c.old.g('ghost.background') == SetOf(ATOM).empty(), 'ghost.log': TRIGLOG.len(c.old.g('ghost.triggers_fired')) >= 0}


def started(c, name):
    return And(c.cur.g('ghost.background')[atom(name)], Not(c.old.g('ghost.background')[atom(name)]))


@contract(W, 'dawgie/pl/state.py', 'FSM.navel_gaze', props=['C10'])
class navel_gaze(ContractBase):
    """after-callback of loading -> contemplation"""
    params = {'self': FSM}
    modifies = FRAME
    assumes = [fsm_distinct_events]
    raises = {'MachineError': lambda c: c.old.f(TR, c['self']) != ACTIVE}

    def requires(c):
        return dict(fresh_ghost(c), state=c.old.f('FSM.state', c['self']) == FSMSTATE.const('contemplation'))

    def ensures(c):
        s = c['self']
        n, at = fired(c)
        doc = c.old.f('FSM._FSM__doctest', s)
        return {'background-step-outstanding': Implies(Not(doc), And(c.cur.f(TR, s) == ENTERING, started(c, '_navel_gaze'), n == 0,
                                                                       c.cur.f('FSM.state', s) == FSMSTATE.const('contemplation'))),
                'synchronous-mode-ends-at-rest-in-running': Implies(doc, And(c.cur.f(TR, s) == ACTIVE, c.cur.f('FSM.state', s) == FSMSTATE.const('running')))}


@contract(W, 'dawgie/pl/state.py', 'FSM._navel_gaze', props=['C10'])
class _navel_gaze(ContractBase):
    """the background step of introspection: re-enters the machine on completion"""
    params = {'self': FSM}
    vararg = []
    modifies = FRAME
    externs = {'dawgie.pl.resources.distribution': Extern(ret=ATOM), 'dawgie.db.metrics': Extern(drop=True), 'dawgie.pl.resources.last_runid': Extern(drop=True)}
    raises = {'MachineError': lambda c: c.old.f('FSM.state', c['self']) != FSMSTATE.const('contemplation')}

    def ensures(c):
        s = c['self']
        n, at = fired(c)
        return {'at-rest-in-running': And(c.cur.f(TR, s) == ACTIVE, c.cur.f('FSM.state', s) == FSMSTATE.const('running')),
                'fires-run': And(n == 1, at(0) == atom('running_trigger'))}

    def ensures_on_raise(c):
        # the run trigger may already have been accepted while introspection was outstanding: the step's own trigger is then
        # rejected, but the step is over all the same - the machine must be at rest where it is, not stuck `entering`
        s = c['self']
        return {'step-over-even-when-its-trigger-is-rejected': And(c.cur.f(TR, s) == ACTIVE, c.cur.f('FSM.state', s) == c.old.f('FSM.state', s))}


W.declare_global('dawgie.pl.farm.insights', ATOM)


@contract(W, 'dawgie/pl/state.py', 'FSM.archive', props=['C10'])
class archive(ContractBase):
    """after-callback of both archiving edges (state is already `archiving`, prior was saved)"""
    params = {'self': FSM}
    modifies = FRAME
    raises = {'MachineError': lambda c: c.old.f(TR, c['self']) != ACTIVE}

    def requires(c):
        s = c['self']
        OP = Opt(FSMSTATE)
        pr = c.old.f('FSM._FSM__prior', s)
        return dict(fresh_ghost(c), **{'state': c.old.f('FSM.state', s) == FSMSTATE.const('archiving'),
                'came-from-running-or-updating': And(Not(OP.is_none(pr)), Or(OP.val(pr) == FSMSTATE.const('running'), OP.val(pr) == FSMSTATE.const('updating')))})

    def ensures(c):
        s = c['self']
        n, at = fired(c)
        OP = Opt(FSMSTATE)
        pr = OP.val(c.old.f('FSM._FSM__prior', s))
        doc = c.old.f('FSM._FSM__doctest', s)
        sync = Or(doc, Not(c.old.g('dawgie.pl.farm.ARCHIVE')))
        back = If(pr == FSMSTATE.const('running'), atom('running_trigger'), atom('updating_trigger'))
        return {'background-archive-outstanding': Implies(Not(sync), And(c.cur.f(TR, s) == ENTERING, started(c, '_archive'), n == 0,
                                                                        c.cur.f('FSM.state', s) == FSMSTATE.const('archiving'))),
                'returns-where-it-came-from': Implies(sync, And(n >= 1, at(0) == back)),
                'back-in-running': Implies(And(sync, pr == FSMSTATE.const('running')), And(c.cur.f('FSM.state', s) == FSMSTATE.const('running'), c.cur.f(TR, s) == ACTIVE))}


@contract(W, 'dawgie/pl/state.py', 'FSM._archive_done', props=['C10'])
class _archive_done(ContractBase):
    params = {'self': FSM}
    modifies = FRAME + ['dawgie.pl.farm.insights']
    assumes = [fsm_distinct_events]

    def requires(c):
        return archive.requires(c)

    def ensures(c):
        s = c['self']
        n, at = fired(c)
        OP = Opt(FSMSTATE)
        pr = OP.val(c.old.f('FSM._FSM__prior', s))
        back = If(pr == FSMSTATE.const('running'), atom('running_trigger'), atom('updating_trigger'))
        return {'returns-where-it-came-from': And(n >= 1, at(0) == back),
                'back-in-running': Implies(pr == FSMSTATE.const('running'), And(c.cur.f('FSM.state', s) == FSMSTATE.const('running'), c.cur.f(TR, s) == ACTIVE)),
                'refresh-follows-an-update': Implies(pr == FSMSTATE.const('updating'),
                                                     And(n >= 2, at(1) == atom('loading_trigger'),
                                                         Implies(Not(c.old.f('FSM._FSM__doctest', s)), c.cur.f('FSM.state', s) == FSMSTATE.const('loading')))),
                'archive-flag-cleared': Implies(Not(c.old.f('FSM._FSM__doctest', s)), Not(c.cur.g('dawgie.pl.farm.ARCHIVE')))}


def _prior_trigger(ex, op, a, b, line):
    """self.__prior + '_trigger': the name of the trigger that returns to the saved state"""
    import ast as _ast
    if isinstance(op, _ast.Add) and isinstance(a, V) and isinstance(a.ty, Opt) and a.ty.inner == FSMSTATE and b == '_trigger':
        a = ex.unwrap(a, line)
    if isinstance(op, _ast.Add) and isinstance(a, V) and a.ty == FSMSTATE and b == '_trigger':
        return PriorTrigger(a.t)
    return None


class PriorTrigger:
    def __init__(self, t):
        self.t = t


W.binop_hooks.append(_prior_trigger)


def _dyn_getattr(ex, obj, name, e):
    if isinstance(name, PriorTrigger) and isinstance(obj, V) and obj.ty == FSM:
        def call(ex2, args, kwargs, e2):
            for st_name in ('running', 'updating'):
                if ex2.decide(name.t == FSMSTATE.const(st_name), e2.lineno):
                    return W.methods[('FSM', st_name + '_trigger')](ex2, obj, [], {}, e2.lineno)
            raise Unsupported('prior state other than running/updating')
        call._pyvc_builtin = True
        return call
    return None


W.dyn_getattr_hooks.append(_dyn_getattr)


@contract(W, 'dawgie/pl/state.py', 'FSM.load', props=['C10', 'C11'])
class load(ContractBase):
    """after-callback of boot and of refresh (state is `loading`)"""
    params = {'self': FSM}
    modifies = FRAME
    assumes = [fsm_distinct_events]
    raises = {'MachineError': lambda c: And(Not(c.old.f('FSM._FSM__doctest', c['self'])), c.old.f(TR, c['self']) != ACTIVE)}
    externs = {'dawgie.pl.farm.notify_all': Extern(fn=lambda ex, a, k, e: _told(ex, e)), 'dawgie.pl.farm.clear': Extern(fn=lambda ex, a, k, e: _cleared(ex, e))}

    def requires(c):
        return dict(fresh_ghost(c), state=c.old.f('FSM.state', c['self']) == FSMSTATE.const('loading'))

    def ensures(c):
        s = c['self']
        n, at = fired(c)
        doc = c.old.f('FSM._FSM__doctest', s)
        return {'background-load-outstanding': Implies(Not(doc), And(c.cur.f(TR, s) == ENTERING, started(c, '_pipeline'), n == 0,
                                                                     c.cur.f('FSM.state', s) == FSMSTATE.const('loading'))),
                # the waiting workers are told to leave (notify_all sees them) BEFORE the crew list is dropped (clear)
                'waiting-workers-are-told-to-leave': Implies(Not(doc), And(c.cur.g('ghost.told_to_leave') == c.old.g('dawgie.pl.farm._workers'),
                                                                           c.cur.g('dawgie.pl.farm._workers') == ListSet(HAND).empty())),
                'nothing-else-yet': Implies(Not(doc), And(c.cur.g('dawgie.pl.farm.ARCHIVE') == c.old.g('dawgie.pl.farm.ARCHIVE'),
                                                          c.cur.f('FSM._FSM__prior', s) == c.old.f('FSM._FSM__prior', s),
                                                          c.cur.f('FSM.priority', s) == c.old.f('FSM.priority', s)))}


@contract(W, 'dawgie/pl/state.py', 'FSM.load.<locals>.done', props=['C10'])
class load_done(ContractBase):
    params = {}
    vararg = []
    free = {'self': FSM}
    modifies = FRAME
    assumes = [fsm_distinct_events]
    raises = {'MachineError': lambda c: c.old.f('FSM.state', c['self']) != FSMSTATE.const('loading')}

    def ensures(c):
        s = c['self']
        n, at = fired(c)
        doc = c.old.f('FSM._FSM__doctest', s)
        return {'introspection-follows': And(n >= 1, at(0) == atom('contemplation_trigger')),
                'next-step-outstanding-or-running': If(doc, And(c.cur.f('FSM.state', s) == FSMSTATE.const('running'), c.cur.f(TR, s) == ACTIVE),
                                                       And(c.cur.f('FSM.state', s) == FSMSTATE.const('contemplation'), c.cur.f(TR, s) == ENTERING, started(c, '_navel_gaze')))}


@contract(W, 'dawgie/pl/state.py', 'FSM.reload', props=['C10'])
class reload(ContractBase):
    """after-callback of running -> updating"""
    params = {'self': FSM}
    modifies = FRAME
    raises = {'MachineError': lambda c: c.old.f(TR, c['self']) != ACTIVE}
    stub_for = ['FSM._reload']

    def requires(c):
        return dict(fresh_ghost(c), state=c.old.f('FSM.state', c['self']) == FSMSTATE.const('updating'))

    def ensures(c):
        s = c['self']
        n, at = fired(c)
        doc = c.old.f('FSM._FSM__doctest', s)
        return {'background-reload-outstanding': Implies(Not(doc), And(c.cur.f(TR, s) == EXITING, started(c, '_reload'), n == 0,
                                                                       c.cur.f('FSM.state', s) == FSMSTATE.const('updating')))}


@contract(W, 'dawgie/pl/state.py', 'FSM.reload.<locals>.done', props=['C10'])
class reload_done(ContractBase):
    params = {}
    vararg = []
    free = {'self': FSM}
    modifies = FRAME
    raises = {'MachineError': 'maybe'}

    def requires(c):
        s = c['self']
        return dict(fresh_ghost(c), state=c.old.f('FSM.state', s) == FSMSTATE.const('updating'))

    def ensures(c):
        n, at = fired(c)
        return {'archive-follows': And(n >= 1, at(0) == atom('archiving_trigger'))}


@contract(W, 'dawgie/pl/state.py', 'FSM._reload', props=['C10', 'C11'])
class _reload_stub(ContractBase):
    params = {'self': FSM}
    vararg = []
    modifies = []
    stub = True


@contract(W, 'dawgie/pl/state.py', 'FSM._pipeline', props=['C10'])
class _pipeline_stub(ContractBase):
    params = {'self': FSM}
    vararg = []
    modifies = []
    stub = True


def _with_log(k):
    ens = k.__dict__.get('ensures')
    if ens is None:
        return
    f = ens.__func__ if isinstance(ens, staticmethod) else ens

    def ensures(c, f=f):
        d = dict(f(c))
        d['trigger-log-only-grows'] = log_prefix(c)
        return d
    k.ensures = staticmethod(ensures)


for _k in (navel_gaze, _navel_gaze, archive, _archive_done, load, load_done, reload, reload_done):
    _with_log(_k)
load_done.requires = staticmethod(lambda c: dict(fresh_ghost(c)))
_navel_gaze.requires = staticmethod(lambda c: dict(fresh_ghost(c)))


# a completion callback whose follow-up trigger is rejected (the machine moved on meanwhile) has still ended its step:
# the guard must be back to `active`, whatever the trigger did
def _guard_released(c):
    return {'guard-released-even-when-the-follow-up-trigger-is-rejected': c.cur.f(TR, c['self']) == ACTIVE}


for _k in (load_done, reload_done):
    if getattr(_k, 'ensures_on_raise', None) is None:
        _k.ensures_on_raise = staticmethod(_guard_released)
