"""C09: dag.Construct._ancestry — each node's ancestor set becomes exactly the transitive closure of the parent
edges (tags of all proper ancestors), for every acyclic graph; Node.add keeps one child per tag."""
from .base import *

W.declare_fields('Node', parents=SetOf(NODE), feedback=SetOf(NODE))
W.declare_fields('Construct', _flat=MapOf(ATOM, NODE))
FLAT = MapOf(ATOM, NODE)
PAIR = Tup(ATOM, NODE)

# up(a, b): b is a or an ancestor of a (reflexive transitive closure of `parent of`), as an uninterpreted relation
# constrained by true facts of the least fixed point; upw is the inversion witness (the first step of a path)
up = z3.Function('up', NODE.sort(), NODE.sort(), z3.BoolSort())
upw = z3.Function('up_first_step', NODE.sort(), NODE.sort(), NODE.sort())


def par(v, n):
    return v.f('Node.parents', n)


def anc(v, a, b):
    """b is a proper ancestor of a (for the acyclic graphs the contract is about: reachable and different)"""
    return And(up(a, b), a != b)


def up_axioms(c):
    a, b, x = z3.Consts('ua ub ux', NODE.sort())
    P = c.old.arr('Node.parents')
    return [QHyp([a], up(a, a), 'up.refl'),
            QHyp([a, b], Implies(up(a, b), Or(a == b, And(P[a][upw(a, b)], up(upw(a, b), b)))), 'up.inv', triggers=[(up, (0, 1))]),
            QHyp([x, b, a], Implies(And(P[a][x], up(x, b)), And(up(a, b), P[a][upw(a, b)], up(upw(a, b), b))), 'up.step', triggers=[(up, (0, 1))]),
            QHyp([a, b, x], Implies(And(up(a, b), P[b][x]), up(a, x)), 'up.right', triggers=[(up, (0, 1))])]


# choice: some element of the frontier S of which x is a proper ancestor
SN = SetOf(NODE)
w_front = z3.Function('w_frontier_below', SN.sort(), NODE.sort(), NODE.sort())
w_child = z3.Function('w_done_child_of', SN.sort(), NODE.sort(), NODE.sort())


def below_frontier(v, S, x):
    return And(S[w_front(S, x)], anc(v, w_front(S, x), x))


def parent_of_some(v, S, x):
    return And(S[w_child(S, x)], par(v, w_child(S, x))[x])


def choice(c):
    S = z3.Const('ch_S', SN.sort())
    p, x = z3.Consts('ch_p ch_x', NODE.sort())
    return [QHyp([p, x, S], Implies(And(S[p], anc(c.old, p, x)), below_frontier(c.old, S, x)), 'choice.frontier', triggers=[(up, (0, 1))]),
            QHyp([S, p, x], Implies(And(S[p], par(c.old, p)[x]), parent_of_some(c.old, S, x)), 'choice.parent'),
            # the same clause, instantiated where a first step x = upw(p, _) of a path from p occurs
            QHyp([p, x, S], Implies(And(S[p], par(c.old, p)[x]), parent_of_some(c.old, S, x)), 'choice.parent@step', triggers=[(upw, (0, -1))])]


def flat_of(c):
    return c.old.f('Construct._flat', c['self'])


def wellformed(c):
    """the name table is consistent with the nodes, closed under `parent of`, and the declared inputs are acyclic"""
    fl = flat_of(c)
    k = z3.Const('wf_k', ATOM.sort())
    n, p = z3.Consts('wf_n wf_p', NODE.sort())
    inflat = lambda x: fl[tag(c.old, x)] == FLAT.opt.some(x)
    return [QHyp([k], Implies(Not(FLAT.opt.is_none(fl[k])), tag(c.old, FLAT.opt.val(fl[k])) == k), 'flat.tag'),
            QHyp([n, p], Implies(And(inflat(n), par(c.old, n)[p]), inflat(p)), 'flat.closed'),
            # ... hence under ancestors (a fact of the least fixed point `up`, by induction on the path)
            QHyp([n, p], Implies(And(inflat(n), up(n, p)), inflat(p)), 'flat.closed*', triggers=[(up, (0, 1))]),
            QHyp([p, n], Implies(par(c.old, n)[p], Not(up(p, n))), 'acyclic', triggers=[(up, (0, 1))])]


@contract(W, 'dawgie/pl/dag.py', 'Construct._ancestry', props=['C09', 'C01'])
class ancestry(ContractBase):
    params = {'self': CONSTRUCT}
    modifies = ['Node.ancestry']
    assumes = [up_axioms, choice, wellformed]
    locals = {'heritage': SN, 'parents': SN, 'grands': SN}
    no_reach = True         # the child relation plays no part here
    max_inst = 2500
    same_skolem = True

    def requires(c):
        return {}

    @staticmethod
    def _spec(c, n, cur):
        """afterwards the ancestor set of n holds the name of every listed proper ancestor (complete), and every name in it
        was there before or names a listed proper ancestor (sound)"""
        fl = flat_of(c)
        h, x = c.sk('h', NODE), c.sk('x', ATOM)
        named = And(Not(FLAT.opt.is_none(fl[x])), anc(c.old, n, FLAT.opt.val(fl[x])))
        return {'complete': Implies(And(fl[tag(c.old, h)] == FLAT.opt.some(h), anc(c.old, n, h)), anc_set(cur, n)[tag(c.old, h)]),
                'keeps': Implies(anc_set(c.old, n)[x], anc_set(cur, n)[x]),
                'sound': Implies(anc_set(cur, n)[x], Or(anc_set(c.old, n)[x], named))}

    def ensures(c):
        fl = flat_of(c)
        x = c.sk('x', ATOM)
        n = c.sk('n', NODE)
        listed = fl[tag(c.old, n)] == FLAT.opt.some(n)
        out = {'closure.' + k: Implies(listed, f) for k, f in ancestry._spec(c, n, c.cur).items()}
        out['others-untouched'] = Implies(Not(listed), anc_set(c.cur, n)[x] == anc_set(c.old, n)[x])
        return out

    @staticmethod
    def _progress(c, done, pre=''):
        fl = flat_of(c)
        x = c.sk('x', ATOM)
        n = c.sk('n', NODE)
        listed = fl[tag(c.old, n)] == FLAT.opt.some(n)
        isdone = done[PAIR.mk(tag(c.old, n), n)]
        out = {pre + 'done.' + k: Implies(And(listed, isdone), f) for k, f in ancestry._spec(c, n, c.cur).items()}
        out[pre + 'rest'] = Implies(Not(And(listed, isdone)), anc_set(c.cur, n)[x] == anc_set(c.old, n)[x])
        return out

    def _inv_items(c):
        return ancestry._progress(c, c.done)

    @staticmethod
    def _inv_items_outer(c):
        return ancestry._progress(c, c.outer_done('for (name, dct) in '), 'o.')

    def _inv_while(c):
        d = c.loc('dct')
        x = c.sk('xn', NODE)
        H, P = c.loc('heritage'), c.loc('parents')
        out = dict(ancestry._inv_items_outer(c))
        fl = flat_of(c)
        out.update({'sound': Implies(H[x], And(anc(c.old, d, x), fl[tag(c.old, x)] == FLAT.opt.some(x))),
                    'frontier-in': Implies(P[x], H[x]),
                    'complete': Implies(anc(c.old, d, x), Or(H[x], below_frontier(c.old, P, x)))})
        return out

    def _inv_for(c):
        d = c.loc('dct')
        x = c.sk('xn', NODE)
        H, G, P = c.loc('heritage'), c.loc('grands'), c.loc('parents')
        H0 = c.loc0('heritage')
        out = dict(ancestry._inv_items_outer(c))
        out.update({'grands': G[x] == parent_of_some(c.old, c.done, x),
                    'heritage': H[x] == Or(H0[x], G[x]),
                    # what the enclosing while loop knew on entry of this pass still holds of (H0, P)
                    'w.sound': Implies(H0[x], And(anc(c.old, d, x), flat_of(c)[tag(c.old, x)] == FLAT.opt.some(x))),
                    'w.frontier-in': Implies(P[x], H0[x]),
                    'w.complete': Implies(anc(c.old, d, x), Or(H0[x], below_frontier(c.old, P, x)))})
        return out

    loops = {'for (name, dct) in ': Loop(inv=_inv_items, modifies=['Node.ancestry']),
             'while parents': Loop(inv=_inv_while), 'for p in filter(': Loop(inv=_inv_for)}


def anc_set(v, n):
    return v.f('Node.ancestry', n)


# ------------------------------------------------------------------------------------------------ Node.add, _feedback
def _element_append(ex, recv, args, kwargs, line):
    """xml.etree Element.append: the child list gains the element (ELEMENT model: child set)"""
    kids = C(FieldLoc_('Node.kids', recv.t), SetOf(NODE))
    ex.call_method(kids, 'add', [args[0]], {}, line)
    return None


W.methods[('Node', 'append')] = _element_append
w_kid = z3.Function('w_child_tagged', SN.sort(), ATOM.sort(), NODE.sort())


def has_child_tagged(c, S, tg):
    return And(S[w_kid(S, tg)], tag(c.old, w_kid(S, tg)) == tg)


def choice_kid(c):
    S, k = z3.Const('ch_S', SN.sort()), z3.Const('ch_k', NODE.sort())
    return [QHyp([S, k], Implies(S[k], has_child_tagged(c, S, tag(c.old, k))), 'choice.child-tag')]


@contract(W, 'dawgie/pl/dag.py', 'Node.add', props=['C09'])
class node_add(ContractBase):
    """an edge is inserted once: the child list never holds two children with one tag"""
    params = {'self': NODE, 'item': NODE}
    modifies = ['Node.kids']
    assumes = [choice_kid]
    no_reach = True

    def ensures(c):
        me, item = c['self'], c['item']
        n, x = c.sk('n', NODE), c.sk('x', NODE)
        k0, k1 = c.old.f('Node.kids', me), c.cur.f('Node.kids', me)
        dup = has_child_tagged(c, k0, tag(c.old, item))
        return {'edge-inserted-unless-a-child-has-that-tag': k1[x] == Or(k0[x], And(Not(dup), x == item)),
                'other-nodes-untouched': Implies(n != me, c.cur.f('Node.kids', n) == c.old.f('Node.kids', n))}


from .c02_update import VREF, vref_name        # noqa: E402  (value references and their full names)
FBMAP = MapOf(ATOM, ATOM)
fb_of = z3.Function('declared_feedback', Ref('Alg').sort(), SetOf(VREF).sort())       # as_vref(alg.feedback())
W.methods[('Alg', 'feedback')] = lambda ex, r, a, k, l: r
SV_, SP_ = SetOf(VREF), SetOf(Tup(ATOM, NODE))
w_cons = z3.Function('w_consumer_of', SN.sort(), ATOM.sort(), ATOM.sort(), NODE.sort())      # some node among S tagged t that declares feedback k
w_cons_all = z3.Function('w_listed_consumer_of', ATOM.sort(), ATOM.sort(), NODE.sort())
w_cref = z3.Function('w_feedback_ref_named', SV_.sort(), ATOM.sort(), VREF.sort())    # some reference among R with full name k


def ref_named(R, k):
    return And(R[w_cref(R, k)], vref_name(w_cref(R, k)) == k)


def consumed_by(c, S, k, t):
    """some node among S carries tag t and declares a feedback reference with full name k"""
    m = w_cons(S, k, t)
    return And(S[m], tag(c.old, m) == t, ref_named(fb_of(c.old.f('Node.alg', m)), k))


def consumed(c, k, t):
    """... some node of the name table"""
    fl = flat_of(c)
    m = w_cons_all(k, t)
    return And(fl[tag(c.old, m)] == FLAT.opt.some(m), tag(c.old, m) == t, ref_named(fb_of(c.old.f('Node.alg', m)), k))


def choice_fb(c):
    fl = flat_of(c)
    S, R = z3.Const('ch_S', SN.sort()), z3.Const('ch_R', SV_.sort())
    m, r, k = z3.Const('ch_m', NODE.sort()), z3.Const('ch_r', VREF.sort()), z3.Const('ch_k', ATOM.sort())
    declares = ref_named(fb_of(c.old.f('Node.alg', m)), k)
    return [QHyp([R, r], Implies(R[r], ref_named(R, vref_name(r))), 'choice.ref'),
            QHyp([S, m, k], Implies(And(S[m], declares), consumed_by(c, S, k, tag(c.old, m))), 'choice.consumer'),
            QHyp([m, k], Implies(And(fl[tag(c.old, m)] == FLAT.opt.some(m), declares), consumed(c, k, tag(c.old, m))), 'choice.consumer-listed')]


@contract(W, 'dawgie/pl/dag.py', 'Construct._feedback', props=['C09'])
class feedback_(ContractBase):
    """feedback references are recorded in the node's `feedback` attribute and in the feedback map only:
    they never become child/parent (ordering) edges, and every fed-back value is mapped to one of its consumers"""
    params = {'self': CONSTRUCT}
    modifies = ['Node.feedback', 'Construct._feedbacks']           # not Node.kids, not Node.parents
    externs = {'dawgie.util.as_vref': Extern(fn=lambda ex, a, k, e: ex.newbox(fb_of(ex.to_z3(a[0], Ref('Alg'))), SetOf(VREF))),
               'dawgie.util.vref_as_name': Extern(fn=lambda ex, a, k, e: V(vref_name(ex.to_z3(a[0], VREF)), ATOM))}
    assumes = [choice_fb, lambda c: wellformed(c)[:1]]
    no_reach = True

    def requires(c):
        fl = flat_of(c)
        n, r = c.sk('rn', NODE), c.sk('rr', VREF)
        listed = fl[tag(c.old, n)] == FLAT.opt.some(n)
        return {'fed-back-values-are-catalogued': Implies(And(listed, fb_of(c.old.f('Node.alg', n))[r]), Not(FLAT.opt.is_none(fl[vref_name(r)])))}

    @staticmethod
    def _spec(c, handled, mapped):
        """handled(n, r): reference r of node n has been recorded so far; mapped(k, t): so far some handled node tagged t
        declared a feedback reference named k"""
        fl = flat_of(c)
        me = c['self']
        n, r, k = c.sk('n', NODE), c.sk('r', VREF), c.sk('k', ATOM)
        F0, F1 = c.old.f('Construct._feedbacks', me), c.cur.f('Construct._feedbacks', me)
        declares = fb_of(c.old.f('Node.alg', n))[r]
        target = FLAT.opt.val(fl[vref_name(r)])
        return {'consumer-recorded': Implies(And(handled(n, r), declares), And(Not(FBMAP.opt.is_none(F1[vref_name(r)])), c.cur.f('Node.feedback', n)[target])),
                'mapped-to-a-consumer': Implies(Not(FBMAP.opt.is_none(F1[k])), Or(F1[k] == F0[k], mapped(k, FBMAP.opt.val(F1[k])))),
                'kept': Implies(Not(FBMAP.opt.is_none(F0[k])), Not(FBMAP.opt.is_none(F1[k])))}

    def ensures(c):
        fl = flat_of(c)
        listed = lambda n, r: fl[tag(c.old, n)] == FLAT.opt.some(n)
        return feedback_._spec(c, listed, lambda k, t: consumed(c, k, t))

    def _inv_nodes(c):
        return feedback_._spec(c, lambda n, r: c.done[n], lambda k, t: consumed_by(c, c.done, k, t))

    def _inv_refs(c):
        outer, node = c.outer_done('for node in self._flat.values()'), c.loc('node')
        return feedback_._spec(c, lambda n, r: Or(outer[n], And(n == node, c.done[r])),
                               lambda k, t: Or(consumed_by(c, outer, k, t), And(t == tag(c.old, node), ref_named(c.done, k))))
    loops = {'for node in self._flat.values()': Loop(inv=_inv_nodes, modifies=['Node.feedback', 'Construct._feedbacks']),
             'for vref in dawgie.util.as_vref(': Loop(inv=_inv_refs, modifies=['Node.feedback', 'Construct._feedbacks'])}


# ------------------------------------------------------------------------------------------------ _sub_task / _sub_analysis / _sub_regression
W.declare_global('ghost.allocated', SN)                    # the Node objects that exist
in_refs9 = z3.Function('declared_input_refs', Ref('Alg').sort(), SetOf(VREF).sort())      # as_vref(a.previous() / traits() / variables())
ref_name9 = z3.Function('full_name_of_ref', VREF.sort(), ATOM.sort())                     # '.'.join([task_name(factory), impl.name(), item.name(), feat])
ref_alg9 = z3.Function('impl_of_ref', VREF.sort(), Ref('Alg').sort())
ref_fac9 = z3.Function('factory_of_ref', VREF.sort(), FACTORY.sort())


def _new_node(ex, args, kwargs, e):
    """Node(name, attrib={...}): a fresh object, distinct from every existing node, with the given attributes and no children"""
    st = ex.st
    n = ex.fresh('node', NODE)
    ex.assume(Not(st.glob['ghost.allocated'][n]))
    ex._note_write('ghost.allocated', e.lineno)
    st.glob['ghost.allocated'] = z3.Store(st.glob['ghost.allocated'], n, True)
    attrib = kwargs.get('attrib') or {}
    vals = {'tag': args[0], 'kids': set()}
    vals.update({k: v for k, v in attrib.items() if k in ('alg', 'ancestry', 'factory', 'feedback', 'parents')})
    for k, v in vals.items():
        ex.set_field(V(n, NODE), k, v, e.lineno)
    return V(n, NODE)


def _sub_contract(qual, accessor):
    @contract(W, 'dawgie/pl/dag.py', 'Construct.' + qual, props=['C09'])
    class K(ContractBase):
        """an edge producer -> consumer is inserted for every declared input reference of the algorithm, and only there;
        a producer that is not yet in the name table gets one fresh node; nodes already in the table are kept (one node per name)"""
        params = {'self': CONSTRUCT, 'a': Ref('Alg'), 'fn': ATOM}
        modifies = ['Construct._flat', 'Node.kids', 'Node.tag', 'Node.alg', 'Node.ancestry', 'Node.factory', 'Node.feedback', 'Node.parents', 'ghost.allocated']
        externs = {'dawgie.util.as_vref': Extern(fn=lambda ex, a, k, e: ex.newbox(in_refs9(ex.to_z3(a[0], Ref('Alg'))), SetOf(VREF))),
                   'dawgie.pl.dag.Node': Extern(fn=_new_node)}
        methods = {('Alg', accessor): lambda ex, r, a, k, l: r}
        abstract = {"'.'.join([dawgie.util.task_name(pf), pi.name(), ref.item.name(), ref.feat])": lambda ex, e: V(ref_name9(ex.to_z3(ex.st.env['ref'], VREF)), ATOM),
                    'ref.factory': lambda ex, e: V(ref_fac9(ex.to_z3(ex.st.env['ref'], VREF)), FACTORY),
                    'ref.impl': lambda ex, e: V(ref_alg9(ex.to_z3(ex.st.env['ref'], VREF)), Ref('Alg'))}
        assumes = [choice_kid, lambda c: K._wf(c)]
        no_reach = True

        @staticmethod
        def _wf(c):
            """name table consistent with the nodes, all of them allocated"""
            fl = flat_of(c)
            k = z3.Const('wf_k', ATOM.sort())
            n = z3.Const('wf_n', NODE.sort())
            return [QHyp([k], Implies(Not(FLAT.opt.is_none(fl[k])), And(tag(c.old, FLAT.opt.val(fl[k])) == k, c.old.g('ghost.allocated')[FLAT.opt.val(fl[k])])), 'flat.tag'),
                    # every node that exists is the catalogued node of its name (Construct creates nodes only through the table)
                    QHyp([n], Implies(c.old.g('ghost.allocated')[n], fl[tag(c.old, n)] == FLAT.opt.some(n)), 'flat.all-nodes'),
                    QHyp([n, z3.Const('wf_x', NODE.sort())], Implies(c.old.f('Node.kids', n)[z3.Const('wf_x', NODE.sort())], c.old.g('ghost.allocated')[z3.Const('wf_x', NODE.sort())]), 'kids.exist')]

        def requires(c):
            return {'consumer-is-catalogued': Not(FLAT.opt.is_none(flat_of(c)[c['fn']]))}

        @staticmethod
        def _spec(c, done):
            me = c['self']
            f0, f1 = flat_of(c), c.cur.f('Construct._flat', me)
            k = c.sk('k', ATOM)
            r = c.sk('r', VREF)
            n, x = c.sk('n', NODE), c.sk('x', NODE)
            consumer = FLAT.opt.val(f0[c['fn']])
            prod = FLAT.opt.val(f1[ref_name9(r)])
            fresh = And(FLAT.opt.is_none(f0[k]), Not(FLAT.opt.is_none(f1[k])))
            return {'one-node-per-name.kept': Implies(Not(FLAT.opt.is_none(f0[k])), f1[k] == f0[k]),
                    'one-node-per-name.new': Implies(fresh, And(Not(c.old.g('ghost.allocated')[FLAT.opt.val(f1[k])]), c.cur.f('Node.tag', FLAT.opt.val(f1[k])) == k,
                                                            ref_named(done, k) if False else z3.BoolVal(True))),
                    'producer-catalogued-and-linked': Implies(done[r], And(Not(FLAT.opt.is_none(f1[ref_name9(r)])), c.cur.f('Node.kids', prod)[consumer])),
                    'only-consumer-edges-added': Implies(And(c.cur.f('Node.kids', n)[x], c.old.g('ghost.allocated')[n], Not(c.old.f('Node.kids', n)[x])), x == consumer),
                    'tags-of-existing-nodes-kept': Implies(c.old.g('ghost.allocated')[n], c.cur.f('Node.tag', n) == c.old.f('Node.tag', n))}

        def ensures(c):
            return K._spec(c, in_refs9(c['a']))

        def _inv(c):
            out = dict(K._spec(c, c.done))
            me = c['self']
            k = c.sk('k', ATOM)
            f1 = c.cur.f('Construct._flat', me)
            out['table-consistent'] = Implies(Not(FLAT.opt.is_none(f1[k])), And(c.cur.f('Node.tag', FLAT.opt.val(f1[k])) == k, c.cur.g('ghost.allocated')[FLAT.opt.val(f1[k])]))
            n = c.sk('n', NODE)
            out['allocated-grows'] = Implies(c.old.g('ghost.allocated')[n], c.cur.g('ghost.allocated')[n])
            out['every-node-catalogued'] = Implies(c.cur.g('ghost.allocated')[n], f1[c.cur.f('Node.tag', n)] == FLAT.opt.some(n))
            x = c.sk('x', NODE)
            out['children-exist'] = Implies(c.cur.f('Node.kids', n)[x], c.cur.g('ghost.allocated')[x])
            return out
        loops = {'for ref in dawgie.util.as_vref(': Loop(inv=_inv, modifies=['Construct._flat', 'Node.kids', 'Node.tag', 'Node.alg', 'Node.ancestry', 'Node.factory',
                                                                             'Node.feedback', 'Node.parents', 'ghost.allocated'])}
    K.__name__ = qual
    return K


def has_child_tagged_cur(c, S, tg):
    w = w_kid(S, tg)
    return And(S[w], c.cur.f('Node.tag', w) == tg)


sub_task = _sub_contract('_sub_task', 'previous')
sub_analysis = _sub_contract('_sub_analysis', 'traits')
sub_regression = _sub_contract('_sub_regression', 'variables')
