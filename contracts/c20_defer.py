"""C20 / C04: schedule.defer — a periodic job whose event is due gets its targets and enters the queue, a job with
nothing due is not queued, and a timer is re-armed exactly when some considered event lies further ahead."""
from .base import *
from .calendar_model import *
from .c20_delay import EVENT, MOMENT, OB
from . import c02_organize, c01_release
from .c02_organize import asp, db_targets

PERIOD = Bag(EVENT)
W.declare_fields('Node', period=PERIOD)
PER = 'dawgie.pl.schedule.per'
QUE = 'dawgie.pl.schedule.que'
BOOTED = 'dawgie.pl.schedule.booted'
W.declare_global('ghost.timers', INT)                 # callLater calls made by this invocation
W.declare_global('ghost.timer_delay', REAL)           # the delay handed to the last of them
knowable = z3.Function('delay_knowable', EVENT.sort(), z3.BoolSort())       # _delay(p) returns (does not raise)
secs = z3.Function('delay_seconds', EVENT.sort(), z3.RealSort())            # _delay(p).total_seconds()
delay_td = z3.Function('delay_of', EVENT.sort(), TD.sort())


def _delay_fn(ex, args, kwargs, e):
    """within one call of defer the outcome of _delay(p) is a function of p (clock frozen, A1); what _delay computes
    is its own contract (contracts/c20_delay.py)"""
    p = ex.to_z3(args[0], EVENT)
    ex.maybe_raise('_DelayNotKnowableError', Not(knowable(p)), e.lineno)
    return V(delay_td(p), TD)


W.rec_methods[(TD.name, 'total_seconds')] = lambda ex, recv, args, kwargs, line: (
    V(secs(recv.t.arg(0)), REAL) if z3.is_app(recv.t) and recv.t.decl().eq(delay_td) else
    V(z3.ToReal(TD.get(recv.t, 'days')) * 86400 + z3.ToReal(TD.get(recv.t, 'us')) / 1000000, REAL))


def _call_later(ex, args, kwargs, e):
    st = ex.st
    ex._note_write('ghost.timers', e.lineno)
    st.glob['ghost.timers'] = st.glob['ghost.timers'] + 1
    ex._note_write('ghost.timer_delay', e.lineno)
    d = args[0]
    st.glob['ghost.timer_delay'] = z3.RealVal(d) if isinstance(d, (int, float)) else (z3.ToReal(d.t) if d.ty == INT else d.t)
    return None


def _minmax_coll(ex, coll, is_min, e):
    if isinstance(coll, C) and isinstance(coll.ty, SetOf) and coll.ty.elem in (REAL, INT):
        s = ex.read(coll)
        ex.maybe_raise('ValueError', s == coll.ty.empty(), e.lineno)
        m = ex.fresh('min' if is_min else 'max', coll.ty.elem)
        x = z3.Const(ex.path.fresh_name('qm'), coll.ty.elem.sort())
        ex.assume(s[m])
        ex.st.qh.append(QHyp([x], Implies(s[x], m <= x if is_min else m >= x), 'min' if is_min else 'max'))
        return V(m, coll.ty.elem)
    raise Unsupported('min/max of %r' % (coll,))


def _round(ex, v, e):
    if isinstance(v, V) and v.ty == REAL:
        r = ex.fresh('rounded', INT)
        ex.assume(And(z3.ToReal(r) - v.t <= 0.5, v.t - z3.ToReal(r) <= 0.5))
        return V(r, INT)
    raise Unsupported('round(%r)' % (v,))


W.minmax_coll = _minmax_coll
W.round = _round

SE_ = SetOf(EVENT)
w_due = z3.Function('w_due_event_of', NODE.sort(), EVENT.sort())                     # some due event of the job
w_far = z3.Function('w_event_further_ahead', SetOf(NODE).sort(), NODE.sort())        # some job among S with an event further ahead
w_far_ev = z3.Function('w_its_event_further_ahead', NODE.sort(), EVENT.sort())
w_due_in = z3.Function('w_due_event_among', SE_.sort(), EVENT.sort())
w_far_in = z3.Function('w_far_event_among', SE_.sort(), EVENT.sort())


def is_due(p):
    return And(knowable(p), secs(p) <= 300)


def is_far(p):
    return And(knowable(p), secs(p) > 300)


def is_boot(p):
    """a boot event: its moment has `boot` set (to either truth value)"""
    return Not(OB.is_none(MOMENT.get(EVENT.get(p, 'moment'), 'boot')))


def booted_clauses(c, handled_event, pre=''):
    """handled_event(t, p): event p of job t has been looked at so far"""
    t, p = c.sk('bt', NODE), c.sk('bp', EVENT)
    b0, b1 = c.old.g(BOOTED), c.cur.g(BOOTED)
    return {pre + 'boot.fired-events-are-recorded': Implies(And(handled_event(t, p), is_due(p), is_boot(p)), b1[p]),
            pre + 'boot.only-fired-boot-events-are-recorded': Implies(b1[p], Or(b0[p], And(is_boot(p), is_due(p))))}


def considered(c, t):
    st = c.old.f('Node.status', t)
    return And(c.old.g(PER)[t], st != STATE.const('running'), st != STATE.const('waiting'))


def period(c, t):
    return c.old.f('Node.period', t)


def due_job(c, t):
    return And(period(c, t)[w_due(t)], is_due(w_due(t)))


def far_job(c, t):
    return And(period(c, t)[w_far_ev(t)], is_far(w_far_ev(t)))


def some_far(c, S):
    return And(S[w_far(S)], considered(c, w_far(S)), far_job(c, w_far(S)))


def choice_defer(c):
    t, p = z3.Const('ch_t', NODE.sort()), z3.Const('ch_p', EVENT.sort())
    S, D = z3.Const('ch_S', SetOf(NODE).sort()), z3.Const('ch_D', SE_.sort())
    return [QHyp([t, p], Implies(And(period(c, t)[p], is_due(p)), due_job(c, t)), 'choice.due'),
            QHyp([t, p], Implies(And(period(c, t)[p], is_far(p)), far_job(c, t)), 'choice.far'),
            QHyp([S, t], Implies(And(S[t], considered(c, t), far_job(c, t)), some_far(c, S)), 'choice.far-job'),
            QHyp([D, p], Implies(And(D[p], is_due(p)), And(D[w_due_in(D)], is_due(w_due_in(D)))), 'choice.due-among'),
            QHyp([D, p], Implies(And(D[p], is_far(p)), And(D[w_far_in(D)], is_far(w_far_in(D)))), 'choice.far-among')]


@contract(W, 'dawgie/pl/schedule.py', 'defer', props=['C20', 'C04'])
class defer(ContractBase):
    params = {}
    modifies = ['Node.status', 'Node.todo', 'Node.event', QUE, BOOTED, 'ghost.timers', 'ghost.timer_delay']
    assumes = [choice_defer]
    locals = {'delay': Bag(REAL), 'ts': REAL, 'wait': REAL}
    externs = {'dawgie.pl.schedule._delay': Extern(fn=_delay_fn), 'twisted.internet.reactor.callLater': Extern(fn=_call_later)}
    abstract = {"dawgie.pl.DeferWithLogOnError(defer, *": ATOM}

    def requires(c):
        return {'no-timer-yet': c.old.g('ghost.timers') == 0}

    @staticmethod
    def _state(c, handled, pre=''):
        """handled(t): the job has been looked at so far (it is a considered periodic job)"""
        n, x = c.sk('n', NODE), c.sk('x', ATOM)
        add = If(asp(c, n), z3.Store(TGTS.empty(), ALL, True), db_targets)
        hit = And(handled(n), due_job(c, n))
        return {pre + 'todo': todo(c.cur, n)[x] == Or(todo(c.old, n)[x], And(hit, add[x])),
                pre + 'queue.grows-only': Implies(que(c.old)[n], que(c.cur)[n]),
                pre + 'queue.due-with-targets-is-queued': Implies(And(hit, todo(c.cur, n) != TGTS.empty()), que(c.cur)[n]),
                pre + 'queue.only-due-with-targets-enter': Implies(And(que(c.cur)[n], Not(que(c.old)[n])), And(hit, todo(c.cur, n) != TGTS.empty())),
                pre + 'status.others': Implies(Not(handled(n)), c.cur.f('Node.status', n) == c.old.f('Node.status', n)),
                pre + 'status.newly-queued-waits': Implies(And(que(c.cur)[n], Not(que(c.old)[n])), c.cur.f('Node.status', n) == STATE.const('waiting')),
                **booted_clauses(c, lambda t, p: And(handled(t), period(c, t)[p]), pre)}

    def ensures(c):
        paused = c.old.g('dawgie.pl.schedule.pipeline_paused')
        n, x = c.sk('n', NODE), c.sk('x', ATOM)
        handled = lambda t: considered(c, t)
        out = {'not-paused.' + k: Implies(Not(paused), f) for k, f in defer._state(c, handled).items()}
        allper = c.old.g(PER)
        far = some_far(c, allper)
        out.update({
            'paused.retries-in-10s': Implies(paused, And(c.cur.g('ghost.timers') == 1, c.cur.g('ghost.timer_delay') == 10)),
            'paused.touches-nothing': Implies(paused, And(todo(c.cur, n)[x] == todo(c.old, n)[x], que(c.cur) == que(c.old),
                                                          c.cur.f('Node.status', n) == c.old.f('Node.status', n))),
            'not-paused.re-armed-iff-something-lies-ahead': Implies(Not(paused), c.cur.g('ghost.timers') == If(far, 1, 0)),
        })
        return out

    def _inv_jobs(c):
        handled = lambda t: And(considered(c, t), c.done[t])
        out = dict(defer._state(c, handled))
        out['delays'] = (Bag(REAL).empty() != c.loc('delay')) == some_far(c, c.done)
        out['timers'] = c.cur.g('ghost.timers') == 0
        return out

    def _inv_events(c):
        t = c.loc('t')
        outer = c.outer_done('for t in filter(')
        n, x = c.sk('n', NODE), c.sk('x', ATOM)
        add = If(asp(c, n), z3.Store(TGTS.empty(), ALL, True), db_targets)
        due_so_far = And(c.done[w_due_in(c.done)], is_due(w_due_in(c.done)))
        far_so_far = And(c.done[w_far_in(c.done)], is_far(w_far_in(c.done)))
        hit = Or(And(considered(c, n), outer[n], n != t, due_job(c, n)), And(n == t, due_so_far))
        return {'todo': todo(c.cur, n)[x] == Or(todo(c.old, n)[x], And(hit, add[x])),
                'queue.grows-only': Implies(que(c.old)[n], que(c.cur)[n]),
                'queue.due-with-targets-is-queued': Implies(And(hit, todo(c.cur, n) != TGTS.empty()), que(c.cur)[n]),
                'queue.only-due-with-targets-enter': Implies(And(que(c.cur)[n], Not(que(c.old)[n])), And(hit, todo(c.cur, n) != TGTS.empty())),
                'status.others': Implies(And(Not(And(considered(c, n), outer[n])), n != t), c.cur.f('Node.status', n) == c.old.f('Node.status', n)),
                'status.newly-queued-waits': Implies(And(que(c.cur)[n], Not(que(c.old)[n])), c.cur.f('Node.status', n) == STATE.const('waiting')),
                **booted_clauses(c, lambda tt, p: Or(And(considered(c, tt), outer[tt], tt != t, period(c, tt)[p]), And(tt == t, c.done[p]))),
                'delays': (Bag(REAL).empty() != c.loc('delay')) == Or(some_far(c, outer), far_so_far),
                'timers': c.cur.g('ghost.timers') == 0}
    loops = {'for t in filter(': Loop(inv=_inv_jobs, modifies=['Node.status', 'Node.todo', 'Node.event', QUE, BOOTED]),
             "for p in t.get('period')": Loop(inv=_inv_events, modifies=['Node.status', 'Node.todo', 'Node.event', QUE, BOOTED])}
