"""C14: stream reassembly.  The parser state of a connection is (len, buf): `len` is the announced size when a
header has been consumed.  Specification functions (defined by unfolding, instantiated at their own applications):
   F(len, buf)  = messages deliverable from that state          Rl/Rb(len, buf) = the state left after them
dataReceived(data) must deliver exactly F(len, buf ++ data) and leave (Rl, Rb)(len, buf ++ data).
Chunking independence (lemma, induction on the number of frames stated, step = these contracts):
   F(s ++ c1 ++ c2) = F(s ++ c1) ++ F(R(s ++ c1) ++ c2)."""
from .base import *
from . import c11_farm, c04_complete

BUF, LEN, BLEN, DELIV = 'Hand._Hand__buf', 'Hand._Hand__len', 'Hand._Hand__blen', 'Hand.ghost_delivered'
OI = Opt(INT)
F = z3.Function('F_frames', OI.sort(), BYTES.sort(), SeqOf(MSG).sort())
Rl = z3.Function('R_len', OI.sort(), BYTES.sort(), OI.sort())
Rb = z3.Function('R_buf', OI.sort(), BYTES.sort(), BYTES.sort())


def parser_axioms():
    ln = z3.Const('pa_len', OI.sort())
    b = z3.Const('pa_buf', BYTES.sort())
    L = z3.Length(b)
    n = OI.val(ln)
    hdr = OI.some(unpack_fn(z3.SubSeq(b, 0, 4)))
    tail4 = z3.SubSeq(b, 4, L - 4)
    tailn = z3.SubSeq(b, n, L - n)
    empty = z3.Empty(SeqOf(MSG).sort())
    body = If(OI.is_none(ln),
              If(L < 4, And(F(ln, b) == empty, Rl(ln, b) == ln, Rb(ln, b) == b),
                 And(F(ln, b) == F(hdr, tail4), Rl(ln, b) == Rl(hdr, tail4), Rb(ln, b) == Rb(hdr, tail4))),
              If(L < n, And(F(ln, b) == empty, Rl(ln, b) == ln, Rb(ln, b) == b),
                 And(F(ln, b) == z3.Concat(z3.Unit(loads_fn(z3.SubSeq(b, 0, n))), F(OI.none(), tailn)),
                     Rl(ln, b) == Rl(OI.none(), tailn), Rb(ln, b) == Rb(OI.none(), tailn))))
    return [QHyp([ln, b], body, 'parser.def', triggers=[(F, (0, 1)), (Rl, (0, 1)), (Rb, (0, 1))])]


def framing_contract(file, qual, ref, buf, ln, blen, deliv, extra_modifies, header, owner=None, props=('C14',)):
    """the same contract for the three reassembly loops; `owner(view, self)` maps the protocol to the object
    holding buf/len (the protocol itself, or its buffer record)"""
    own = owner or (lambda view, s: s)

    def rep(view, s):
        o = own(view, s)
        l = view.f(ln, o)
        return And(view.f(blen, o) == 4, Or(OI.is_none(l), And(OI.val(l) >= 0, OI.val(l) < TWO32)))

    @contract(W, file, qual, props=list(props))
    class _K(ContractBase):
        params = {'self': ref, 'data': BYTES}
        modifies = [buf, ln, deliv] + list(extra_modifies)
        locals = {'length': INT}
        assumes = [lambda c: struct_axioms() + parser_axioms()]

        def requires(c):
            return {'rep': rep(c.old, c['self'])}

        def ensures(c):
            s = c['self']
            o = own(c.old, s)
            ln0, b0 = c.old.f(ln, o), z3.Concat(c.old.f(buf, o), c['data'])
            return {'delivered': c.cur.f(deliv, s) == z3.Concat(c.old.f(deliv, s), F(ln0, b0)),
                    'remainder': And(c.cur.f(ln, o) == Rl(ln0, b0), c.cur.f(buf, o) == Rb(ln0, b0)),
                    'rep': rep(c.cur, s)}

        def _inv(c):
            s = c['self']
            o = own(c.old, s)
            l, b = c.cur.f(ln, o), c.cur.f(buf, o)
            l0, b0 = c.entry.f(ln, o), c.entry.f(buf, o)
            return {'stream': z3.Concat(c.cur.f(deliv, s), F(l, b)) == z3.Concat(c.entry.f(deliv, s), F(l0, b0)),
                    'rest': And(Rl(l, b) == Rl(l0, b0), Rb(l, b) == Rb(l0, b0)),
                    'length': c.loc('length') == If(OI.is_none(l), 4, OI.val(l)),
                    'rep': rep(c.cur, s)}
        loops = {header: Loop(inv=_inv, modifies=[buf, ln, deliv] + list(extra_modifies))}
    _K.__name__ = qual.replace('.', '_')
    return _K


def _deliver(ex, args, line):
    h = V(args['self'], HAND)
    cur = ex.get_field(h, 'ghost_delivered')
    ex.call_method(cur, 'append', [V(args['msg'], MSG)], {}, line)


c11_farm.hand_process.on_call = staticmethod(_deliver)
hand_data_received = framing_contract('dawgie/pl/farm.py', 'Hand.dataReceived', HAND, BUF, LEN, BLEN, DELIV, c11_farm.hand_process.modifies,
                                      'while length <= len(self.__buf)', props=('C14', 'C03'))


def _peer(c):
    b = z3.Const('pw_b', BYTES.sort())
    return [QHyp([b], c11_farm.wellformed_reply(loads_fn(b)), 'peer.replies-are-well-formed', triggers=[(loads_fn, 0)])]


hand_data_received.assumes = hand_data_received.assumes + [_peer]


def _log_handle(ex, recv, args, kwargs, line):
    """ghost: the record handed to the log handler"""
    sink = ex.st.env['self']
    cur = ex.get_field(sink, 'ghost_delivered')
    ex.call_method(cur, 'append', [args[0]], {}, line)
    return None


W.methods[('LogHandler', 'handle')] = _log_handle
logsink_data_received = framing_contract('dawgie/pl/logger/__init__.py', 'LogSink.dataReceived', LOGSINK, 'LogSink._LogSink__buf',
                                         'LogSink._LogSink__len', 'LogSink._LogSink__blen', 'LogSink.ghost_delivered', [],
                                         'while length <= len(self.__buf)')


# ---------------------------------------------------------------- shelve comms.Worker: same loop over a dict-valued buffer
func_of = z3.Function('command_func', MSG.sort(), FUNC.sort())     # request.func of an unpickled COMMAND


def _rec_attr(ex, base, attr, line):
    if base.ty == MSG and attr == 'func':
        return V(func_of(base.t), FUNC)
    return None


W.rec_attr = _rec_attr


@contract(W, 'dawgie/db/shelve/comms.py', 'Worker.do', props=['C06', 'C07', 'C13'])
class dbworker_do_stub(ContractBase):
    """frame only (what dataReceived needs); the table operations are specified under C06/C07"""
    params = {'self': DBW, 'request': MSG}
    modifies = ['dawgie.context.db_lock', 'DbWorker._Worker__has_lock', 'DbWorker._Worker__looping_call_stopped', 'DbWorker._Worker__id_name',
                'DbWorker.ghost_told', 'DbWorker.ghost_nsent', 'DbWorker.ghost_answer', 'LoopingCall.running']
    raises = {'ImportError': 'maybe'}
    stub = True

    @staticmethod
    def on_call(ex, args, line):
        h = V(args['self'], DBW)
        cur = ex.get_field(h, 'ghost_delivered')
        ex.call_method(cur, 'append', [V(args['request'], MSG)], {}, line)


dbworker_data_received = framing_contract(
    'dawgie/db/shelve/comms.py', 'Worker.dataReceived', DBW, 'WBuf.data', 'WBuf.expected', 'WBuf.actual', 'DbWorker.ghost_delivered',
    dbworker_do_stub.modifies + ['Transport.closed'], "while length <= len(self.__buf['data'])",
    owner=lambda view, s: view.f('DbWorker._Worker__buf', s))
