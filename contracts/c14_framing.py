"""C14: stream reassembly.  The parser state of a connection is (len, buf): `len` is the announced size when a
header has been consumed.  Specification functions (defined by unfolding, instantiated at their own applications):
   F(len, buf)  = messages deliverable from that state          Rl/Rb(len, buf) = the state left after them
dataReceived(data) must deliver exactly F(len, buf ++ data) and leave (Rl, Rb)(len, buf ++ data).
Chunking independence (lemma, induction on the number of frames stated, step = these contracts):
   F(s ++ c1 ++ c2) = F(s ++ c1) ++ F(R(s ++ c1) ++ c2)."""
from .base import *
from . import c11_farm

BUF, LEN, BLEN, DELIV = 'Hand._Hand__buf', 'Hand._Hand__len', 'Hand._Hand__blen', 'Hand.ghost_delivered'
OI = Opt(INT)
F = z3.Function('F_frames', OI.sort(), BYTES.sort(), SeqOf(MSG).sort())
Rl = z3.Function('R_len', OI.sort(), BYTES.sort(), OI.sort())
Rb = z3.Function('R_buf', OI.sort(), BYTES.sort(), BYTES.sort())


def parser_axioms():
    ln = z3.Const('pa_len', OI.sort())
    b = z3.Const('pa_buf', BYTES.sort())
    L = z3.Length(b)
    n = OI.val(ln)
    hdr = OI.some(unpack_fn(z3.SubSeq(b, 0, 4)))
    tail4 = z3.SubSeq(b, 4, L - 4)
    tailn = z3.SubSeq(b, n, L - n)
    empty = z3.Empty(SeqOf(MSG).sort())
    body = If(OI.is_none(ln),
              If(L < 4, And(F(ln, b) == empty, Rl(ln, b) == ln, Rb(ln, b) == b),
                 And(F(ln, b) == F(hdr, tail4), Rl(ln, b) == Rl(hdr, tail4), Rb(ln, b) == Rb(hdr, tail4))),
              If(L < n, And(F(ln, b) == empty, Rl(ln, b) == ln, Rb(ln, b) == b),
                 And(F(ln, b) == z3.Concat(z3.Unit(loads_fn(z3.SubSeq(b, 0, n))), F(OI.none(), tailn)),
                     Rl(ln, b) == Rl(OI.none(), tailn), Rb(ln, b) == Rb(OI.none(), tailn))))
    return [QHyp([ln, b], body, 'parser.def', triggers=[(F, (0, 1)), (Rl, (0, 1)), (Rb, (0, 1))])]


def hand_rep(view, h):
    ln = view.f(LEN, h)
    return And(view.f(BLEN, h) == 4, Or(OI.is_none(ln), And(OI.val(ln) >= 0, OI.val(ln) < TWO32)))


def _deliver(ex, args, line):
    h = V(args['self'], HAND)
    cur = ex.get_field(h, 'ghost_delivered')
    ex.call_method(cur, 'append', [V(args['msg'], MSG)], {}, line)


c11_farm.hand_process.on_call = staticmethod(_deliver)


@contract(W, 'dawgie/pl/farm.py', 'Hand.dataReceived', props=['C14'])
class hand_data_received(ContractBase):
    params = {'self': HAND, 'data': BYTES}
    modifies = [BUF, LEN, DELIV] + c11_farm.hand_process.modifies
    locals = {'length': INT}
    assumes = [lambda c: struct_axioms() + parser_axioms()]

    def requires(c):
        return {'rep': hand_rep(c.old, c['self'])}

    def ensures(c):
        s = c['self']
        ln0, b0 = c.old.f(LEN, s), z3.Concat(c.old.f(BUF, s), c['data'])
        return {'delivered': c.cur.f(DELIV, s) == z3.Concat(c.old.f(DELIV, s), F(ln0, b0)),
                'remainder': And(c.cur.f(LEN, s) == Rl(ln0, b0), c.cur.f(BUF, s) == Rb(ln0, b0)),
                'rep': hand_rep(c.cur, s)}

    def _inv(c):
        s = c['self']
        ln, b = c.cur.f(LEN, s), c.cur.f(BUF, s)
        ln0, b0 = c.entry.f(LEN, s), c.entry.f(BUF, s)
        return {'stream': z3.Concat(c.cur.f(DELIV, s), F(ln, b)) == z3.Concat(c.entry.f(DELIV, s), F(ln0, b0)),
                'rest': And(Rl(ln, b) == Rl(ln0, b0), Rb(ln, b) == Rb(ln0, b0)),
                'length': c.loc('length') == If(OI.is_none(ln), 4, OI.val(ln)),
                'rep': hand_rep(c.cur, s)}
    loops = {'while length <= len(self.__buf)': Loop(inv=_inv, modifies=[BUF, LEN, DELIV] + c11_farm.hand_process.modifies)}
