"""Proleptic Gregorian calendar in linear integer arithmetic with div/mod, and the datetime/timedelta models.
A datetime is (days since 0000-03-01, microsecond of day); year/month/day are recovered relationally (the civil
date of a day number is unique), so no inverse algorithm is needed."""
import datetime as _dt
from .base import *

DAY_US = 86400 * 1000000
DT = Rec('datetime', {'days': INT, 'us': INT})
TD = Rec('timedelta', {'days': INT, 'us': INT})      # normalised like Python's: 0 <= us < one day
DATE = Rec('date', {'year': INT, 'month': INT, 'day': INT})
TIME = Rec('time', {'hour': INT, 'minute': INT, 'second': INT})


def leap(y):
    return And(y % 4 == 0, Or(y % 100 != 0, y % 400 == 0))


def dim(y, m):
    return If(m == 2, If(leap(y), 29, 28), If(Or(m == 4, m == 6, m == 9, m == 11), 30, 31))


def valid_date(y, m, d):
    return And(1 <= y, y <= 9999, 1 <= m, m <= 12, 1 <= d, d <= dim(y, m))


def days_from_civil(y, m, d):
    yy = If(m <= 2, y - 1, y)
    mm = If(m > 2, m - 3, m + 9)
    doy = (153 * mm + 2) / 5 + d - 1
    return 365 * yy + yy / 4 - yy / 100 + yy / 400 + doy


def _calibrate():
    import z3 as _z
    d = _z.simplify(days_from_civil(_z.IntVal(2024), _z.IntVal(1), _z.IntVal(1))).as_long()
    iso = _dt.date(2024, 1, 1).isoweekday()
    for k in range(7):
        if (d + k) % 7 + 1 == iso:
            return k
    raise AssertionError


_WD = _calibrate()


def isoweekday(days):
    return (days + _WD) % 7 + 1


def ymd(ex, t):
    """year, month, day of a datetime term: fresh integers tied to it by the (injective) civil-date relation"""
    cache = ex.st.ghost.setdefault('ymd', {})
    key = t.get_id()
    if key not in cache:
        y, m, d = ex.fresh('year', INT), ex.fresh('month', INT), ex.fresh('day', INT)
        ex.assume(And(valid_date(y, m, d), days_from_civil(y, m, d) == DT.get(t, 'days')))
        cache[key] = (y, m, d, t)
    return cache[key][:3]


def _dt_attr(ex, base, attr, line):
    if base.ty == DT:
        y, m, d = ymd(ex, base.t)
        us = DT.get(base.t, 'us')
        return {'year': V(y, INT), 'month': V(m, INT), 'day': V(d, INT), 'hour': V(us / (3600 * 1000000), INT),
                'minute': V((us / (60 * 1000000)) % 60, INT), 'second': V((us / 1000000) % 60, INT)}.get(attr)
    return None


W.rec_attr_hooks = getattr(W, 'rec_attr_hooks', []) + [_dt_attr]


def _rec_attr(ex, base, attr, line):
    for h in W.rec_attr_hooks:
        r = h(ex, base, attr, line)
        if r is not None:
            return r
    return None


W.rec_attr = _rec_attr


def _now(ex, args, kwargs, e):
    """the clock: an arbitrary valid instant (every `now` of a multi-year span and beyond)"""
    t = ex.fresh('now', DT)
    ex.assume(And(DT.get(t, 'us') >= 0, DT.get(t, 'us') < DAY_US))
    ex.st.ghost['now'] = t
    ex.inputs['now'] = t
    if 'dawgie.pl.schedule.booted' in ex.old.glob:
        ex.inputs['booted0'] = ex.old.glob['dawgie.pl.schedule.booted']
    y, m, d = ymd(ex, t)
    ex.assume(And(y >= 2, y <= 9000))      # the clock range the proofs cover (datetime itself stops at year 9999)
    return V(t, DT)


def _mk_datetime(ex, args, kwargs, e):
    g = lambda k, i, dflt=0: kwargs.get(k, args[i] if len(args) > i else dflt)
    y, m, d = [ex._num(ex.unwrap(g(k, i), e.lineno)) for i, k in enumerate(('year', 'month', 'day'))]
    h, mi, s = [ex._num(ex.unwrap(g(k, i + 3), e.lineno)) for i, k in enumerate(('hour', 'minute', 'second'))]
    ok = And(valid_date(y, m, d), 0 <= h, h < 24, 0 <= mi, mi < 60, 0 <= s, s < 60)
    ex.maybe_raise('ValueError', Not(ok), e.lineno)
    t = DT.mk(days_from_civil(y, m, d), (h * 3600 + mi * 60 + s) * 1000000)
    # the fields of what was just built are what it was built from
    ex.st.ghost.setdefault('ymd', {})
    r = ex.fresh('built', DT)
    ex.assume(r == t)
    ex.st.ghost['ymd'][r.get_id()] = (y, m, d, r)
    return V(r, DT)


def td_norm(days, us):
    """normalise (days, us) with -DAY_US < us < 2*DAY_US into 0 <= us < DAY_US (one carry/borrow, no division)"""
    return TD.mk(If(us < 0, days - 1, If(us >= DAY_US, days + 1, days)), If(us < 0, us + DAY_US, If(us >= DAY_US, us - DAY_US, us)))


def _mk_timedelta(ex, args, kwargs, e):
    days, us = 0, 0
    if 'days' in kwargs:
        days = ex._num(kwargs['days'])
    elif args:
        days = ex._num(args[0])
    for k, f in (('seconds', 1000000), ('microseconds', 1)):
        if k in kwargs:
            if ex.is_sym(kwargs[k]):
                raise Unsupported('timedelta with a symbolic %s' % k)
            us += kwargs[k] * f
    if not (0 <= us < DAY_US):
        raise Unsupported('timedelta seconds outside one day')
    return V(TD.mk(days if not isinstance(days, int) else z3.IntVal(days), z3.IntVal(us)), TD)


W.externs['datetime.datetime.now'] = Extern(fn=_now)
W.externs['datetime.datetime'] = Extern(fn=_mk_datetime)
W.externs['datetime.timedelta'] = Extern(fn=_mk_timedelta)
W.py_objects['datetime.UTC'] = 'UTC'
W.rec_methods[(DT.name, 'isoweekday')] = lambda ex, recv, args, kwargs, line: V(isoweekday(DT.get(recv.t, 'days')), INT)
W.rec_methods[(TD.name, 'total_seconds')] = lambda ex, recv, args, kwargs, line: V(z3.ToReal(TD.get(recv.t, 'days')) * 86400 + z3.ToReal(TD.get(recv.t, 'us')) / 1000000, REAL)


def dt_plus(t, td):
    n = td_norm(DT.get(t, 'days') + TD.get(td, 'days'), DT.get(t, 'us') + TD.get(td, 'us'))
    return DT.mk(TD.get(n, 'days'), TD.get(n, 'us'))


def _binop(ex, op, a, b, line):
    import ast as _ast
    ta = a.ty if isinstance(a, V) else None
    tb = b.ty if isinstance(b, V) else None
    if ta == DT and tb == DT and isinstance(op, _ast.Sub):
        return V(td_norm(DT.get(a.t, 'days') - DT.get(b.t, 'days'), DT.get(a.t, 'us') - DT.get(b.t, 'us')), TD)
    if ta == DT and tb == TD and isinstance(op, _ast.Add):
        return V(dt_plus(a.t, b.t), DT)
    if ta == DT and tb == TD and isinstance(op, _ast.Sub):
        return V(dt_plus(a.t, td_norm(-TD.get(b.t, 'days') - 1, DAY_US - TD.get(b.t, 'us'))), DT)
    return None


W.binop_hooks.append(_binop)
_calendar_monthrange = lambda ex, args, kwargs, e: (None, V(dim(ex._num(args[0]), ex._num(args[1])), INT))
W.externs['calendar.monthrange'] = Extern(fn=_calendar_monthrange)
