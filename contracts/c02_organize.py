"""C02 / C04: dag.Node.locate and schedule.organize — the named tasks (and only they) get the targets added to their
pending set, wherever they sit in the trees; the queue afterwards holds exactly the queued or named jobs that have
something pending or executing (no idle entry, nothing with work dropped)."""
from .base import *

SN_ = SetOf(NODE)
w_via = z3.Function('w_child_leading_to', SN_.sort(), NODE.sort(), NODE.sort())      # some child among S from which n is reachable


def via(c, S, n):
    """n lies below some child among S other than the node itself (a child carrying the node's own tag is skipped)"""
    w = w_via(S, n)
    return And(S[w], tag(c.old, w) != tag(c.old, c['self']), reach(w, n))


def choice_via(c):
    S, ch, n = z3.Const('ch_S', SN_.sort()), z3.Const('ch_c', NODE.sort()), z3.Const('ch_n', NODE.sort())
    return [QHyp([ch, n, S], Implies(And(S[ch], tag(c.old, ch) != tag(c.old, c['self']), reach(ch, n)), via(c, S, n)), 'choice.via', triggers=[(reach, (0, 1))])]


@contract(W, 'dawgie/pl/dag.py', 'Node.locate', props=['C02', 'C04', 'C15', 'C20', 'C01'])
class locate(ContractBase):
    """every node below (or at) this one that carries the name, and nothing else"""
    params = {'self': NODE, 'name': ATOM}
    returns = Bag(NODE)
    modifies = []
    recursive = True
    locals = {'result': Bag(NODE)}
    assumes = [one_node_per_tag_among_children, choice_via]

    def requires(c):
        return {}

    def ensures(c):
        n = c.sk('n', NODE)
        return {'exactly-the-named-descendants': c.result[n] == And(reach(c['self'], n), tag(c.old, n) == c['name'])}

    def _inv(c):
        n = c.sk('n', NODE)
        me = c['self']
        return {'found': c.loc('result')[n] == And(tag(c.old, n) == c['name'], Or(n == me, via(c, c.done, n)))}
    loops = {'for child in ': Loop(inv=_inv)}


# ------------------------------------------------------------------------------------------------ organize
import dawgie
FACTORIES = W.enum(dawgie.Factories)
AT = lambda c: c.old.f('Construct._at', Opt(CONSTRUCT).val(c.old.g('dawgie.pl.schedule.ae')))
db_targets = z3.Const('db_targets', TGTS.sort())                                     # dawgie.db.targets()
w_root = z3.Function('w_root_above', SN_.sort(), NODE.sort(), NODE.sort())           # some tree among S that holds n
QUE = 'dawgie.pl.schedule.que'


def under(S, n):
    return And(S[w_root(S, n)], reach(w_root(S, n), n))


def choice_root(c):
    S, r, n = z3.Const('ch_R', SN_.sort()), z3.Const('ch_r', NODE.sort()), z3.Const('ch_m', NODE.sort())
    return [QHyp([r, n, S], Implies(And(S[r], reach(r, n)), under(S, n)), 'choice.root', triggers=[(reach, (0, 1))])]


def unique_tags(c):
    """C09 (one node per algorithm): among the queued nodes and the nodes of the task trees a tag names one node"""
    a, b = z3.Consts('ut_a ut_b', NODE.sort())
    U = lambda n: Or(que(c.old)[n], under(AT(c), n))
    return [QHyp([a, b], Implies(And(U(a), U(b), tag(c.old, a) == tag(c.old, b)), a == b), 'unique-tags')]


W.externs['dawgie.db.targets'] = Extern(fn=lambda ex, args, kwargs, e: ex.newbox(db_targets, TGTS))


@contract(W, 'dawgie/pl/schedule.py', '_is_asp', props=['C02', 'C04', 'C01'])
class is_asp(ContractBase):
    params = {'n': NODE}
    returns = BOOL
    inline = True


def asp(c, n):
    return c.old.f('Factory.__name__', c.old.f('Node.factory', n)) == atom('analysis')


@contract(W, 'dawgie/pl/schedule.py', 'organize', props=['C02', 'C04', 'C12', 'C01'])
class organize(ContractBase):
    params = {'task_names': Bag(ATOM), 'runid': Opt(INT), 'targets': TGTS, 'event': Opt(ATOM)}
    defaults = {'runid': None, 'targets': None, 'event': None}
    none_as_empty = ['targets']      # first statement: targets = targets if targets else set()
    modifies = ['Node.todo', 'Node.runid', 'Node.status', 'Node.event', QUE]
    assumes = [choice_root, unique_tags]
    locals = {'jobs': MapOf(ATOM, NODE), 'targets': TGTS}
    JOBS = MapOf(ATOM, NODE)

    def requires(c):
        return {'graph-loaded': Not(Opt(CONSTRUCT).is_none(c.old.g('dawgie.pl.schedule.ae')))}

    @staticmethod
    def _add(c, n):
        t = c['targets']
        return If(asp(c, n), z3.Store(TGTS.empty(), ALL, True), If(t[ALL], db_targets, t))

    @staticmethod
    def _node_state(c, P, pre=''):
        """P(n): the node has been (re)scheduled so far"""
        n, x = c.sk('n', NODE), c.sk('x', ATOM)
        running = STATE.const('running')
        st0 = c.old.f('Node.status', n)
        ev = c['event']
        return {pre + 'todo': todo(c.cur, n)[x] == Or(todo(c.old, n)[x], And(P(n), organize._add(c, n)[x])),
                pre + 'status': c.cur.f('Node.status', n) == If(P(n), If(st0 == running, running, STATE.const('waiting')), st0),
                pre + 'runid': c.cur.f('Node.runid', n) == If(P(n), c['runid'], c.old.f('Node.runid', n)),
                pre + 'event': Implies(Not(P(n)), c.cur.f('Node.event', n) == c.old.f('Node.event', n))}

    @staticmethod
    def _jobs(c, P, pre=''):
        J = c.loc('jobs')
        k, n = c.sk('k', ATOM), c.sk('n', NODE)
        JT = organize.JOBS
        v = JT.opt.val(J[k])
        return {pre + 'jobs.sound': Implies(Not(JT.opt.is_none(J[k])), And(tag(c.old, v) == k, Or(que(c.old)[v], P(v)))),
                pre + 'jobs.complete': Implies(Or(que(c.old)[n], P(n)), Not(JT.opt.is_none(J[tag(c.old, n)])))}

    def ensures(c):
        n = c.sk('n', NODE)
        named = lambda m: And(c['task_names'][tag(c.old, m)], under(AT(c), m))
        out = dict(organize._node_state(c, named))
        work = Or(todo(c.cur, n) != TGTS.empty(), doing(c.old, n) != TGTS.empty())
        out.update({'queue.no-idle-entry': Implies(que(c.cur)[n], work),
                    'queue.only-queued-or-named': Implies(que(c.cur)[n], Or(que(c.old)[n], named(n))),
                    'queue.nothing-with-work-dropped': Implies(And(Or(que(c.old)[n], named(n)), work), que(c.cur)[n])})
        return out

    def _inv_names(c):
        P = lambda m: And(c.done[tag(c.old, m)], under(AT(c), m))
        out = dict(organize._node_state(c, P))
        out.update(organize._jobs(c, P))
        out['que'] = que(c.cur) == que(c.old)
        return out

    def _inv_roots(c):
        tn = c.loc('tn')
        outer = c.outer_done('for tn in task_names')
        P = lambda m: Or(And(outer[tag(c.old, m)], under(AT(c), m)), And(tag(c.old, m) == tn, under(c.done, m)))
        out = dict(organize._node_state(c, P))
        out.update(organize._jobs(c, P))
        out['que'] = que(c.cur) == que(c.old)
        return out

    def _inv_nodes(c):
        tn, t = c.loc('tn'), c.loc('t')
        o_names = c.outer_done('for tn in task_names')
        o_roots = c.outer_done('for t in dawgie.pl.schedule.ae.at')
        P = lambda m: Or(And(o_names[tag(c.old, m)], under(AT(c), m)), And(tag(c.old, m) == tn, under(o_roots, m)), c.done[m])
        out = dict(organize._node_state(c, P))
        out.update(organize._jobs(c, P))
        out['que'] = que(c.cur) == que(c.old)
        return out

    MODS = ['Node.todo', 'Node.runid', 'Node.status', 'Node.event']
    loops = {'for tn in task_names': Loop(inv=_inv_names, modifies=MODS), 'for t in dawgie.pl.schedule.ae.at': Loop(inv=_inv_roots, modifies=MODS),
             'for n in t.locate(tn)': Loop(inv=_inv_nodes, modifies=MODS)}
