"""C07: the content-addressed store.  db.util.move decides novelty and keeps identical content once; shelve
comms.Worker.do(Func.set) stores the file first and records the catalogue entry second, so that at every point
between two statements every catalogue entry refers to a stored file (crash points)."""
from .base import *
import dawgie.db.shelve.enums as _enums

BLOB = ATOM                       # blob names "<md5>_<sha1>"
STAGED = ATOM                     # staging file names
W.declare_global('ghost.fs.stored', SetOf(BLOB))                   # files present in the data store directory
W.declare_global('ghost.fs.content', MapOf(BLOB, ATOM))            # their content
W.declare_global('ghost.fs.staged', SetOf(STAGED))                 # files present in the staging area
W.declare_global('DBI.tables.prime', MapOf(ATOM, BLOB))            # catalogue: key string -> blob name
staged_content = z3.Function('staged_content', STAGED.sort(), ATOM.sort())
STORED, CONTENT, STG, PRIME = 'ghost.fs.stored', 'ghost.fs.content', 'ghost.fs.staged', 'DBI.tables.prime'
BPATH = Rec('BlobPath', {'blob': BLOB})         # os.path.join(data_dbs, <name>)
W.declare_global('dawgie.context.data_dbs', ATOM)
MC = MapOf(BLOB, ATOM)


def _join(ex, args, kwargs, e):
    return V(BPATH.mk(ex.to_z3(args[1], BLOB)), BPATH)


def _exists(ex, args, kwargs, e):
    return V(ex.st.glob[STORED][BPATH.get(args[0].t, 'blob')], BOOL)


def _unlink(ex, args, kwargs, e):
    a = args[0]
    if isinstance(a, V) and a.ty == BPATH:       # a file of the data store itself
        b = BPATH.get(a.t, 'blob')
        for g in (STORED, CONTENT):
            ex._note_write(g, e.lineno)
        ex.st.glob[STORED] = z3.Store(ex.st.glob[STORED], b, False)
        ex.st.glob[CONTENT] = z3.Store(ex.st.glob[CONTENT], b, MC.opt.none())
        return None
    ex._note_write(STG, e.lineno)
    ex.st.glob[STG] = z3.Store(ex.st.glob[STG], ex.to_z3(a, STAGED), False)


def _move(ex, args, kwargs, e):
    """assumed (A6): shutil.move within the store's file system is one atomic rename"""
    fn, b = ex.to_z3(args[0], STAGED), BPATH.get(args[1].t, 'blob')
    for g in (STG, STORED, CONTENT):
        ex._note_write(g, e.lineno)
    ex.st.glob[STG] = z3.Store(ex.st.glob[STG], fn, False)
    ex.st.glob[STORED] = z3.Store(ex.st.glob[STORED], b, True)
    ex.st.glob[CONTENT] = z3.Store(ex.st.glob[CONTENT], b, MC.opt.some(staged_content(fn)))


FS = {'os.path.join': Extern(fn=_join), 'os.path.exists': Extern(fn=_exists), 'os.unlink': Extern(fn=_unlink), 'shutil.move': Extern(fn=_move)}


@contract(W, 'dawgie/db/util/__init__.py', 'move', props=['C07'])
class move(ContractBase):
    params = {'fn': STAGED, 'result': BLOB}
    returns = Tup(BLOB, BOOL)
    modifies = [STORED, CONTENT, STG]
    externs = FS

    def boundary_invariant(c):
        # crash points inside move: a file that was stored stays stored (with its content) after every statement, so no
        # catalogue entry written earlier can be left pointing at nothing
        b = c.sk('bb', BLOB)
        return {'stored-files-stay-stored': Implies(c.old.g(STORED)[b], And(c.cur.g(STORED)[b], c.cur.g(CONTENT)[b] == c.old.g(CONTENT)[b]))}

    def ensures(c):
        b = c.sk('b', BLOB)
        fn, name = c['fn'], c['result']
        r = c.result
        RT = Tup(BLOB, BOOL)
        exists = c.old.g(STORED)[name]
        return {'novelty-signal': And(RT.get(r, '_0') == name, RT.get(r, '_1') == exists),
                'stored-afterwards': c.cur.g(STORED)[b] == Or(c.old.g(STORED)[b], b == name),
                'identical-content-kept-once': Implies(c.old.g(STORED)[b], c.cur.g(CONTENT)[b] == c.old.g(CONTENT)[b]),
                'new-content-is-what-was-staged': Implies(Not(exists), c.cur.g(CONTENT)[name] == MC.opt.some(staged_content(fn))),
                'staging-file-gone': Not(c.cur.g(STG)[fn])}


def R2(view):
    """every catalogue entry refers to a stored file"""
    k = z3.Const('r2_k', ATOM.sort())
    P = MapOf(ATOM, BLOB)
    return z3.ForAll([k], Implies(Not(P.opt.is_none(view.g(PRIME)[k])), view.g(STORED)[P.opt.val(view.g(PRIME)[k])]))


SETREQ = Rec('SetRequest', {'func': W.enum(_enums.Func), 'keyset': ATOM, 'table': W.enum(_enums.Table), 'value': Tup(STAGED, BLOB)})
W.declare_fields('DbWorker', ghost_set_answer=Opt(BOOL))


def _prime_table(ex, e):
    return C(GlobLoc_(PRIME), MapOf(ATOM, BLOB))


from pyvc.core import GlobLoc as GlobLoc_


def _send_exists(ex, recv, args, kwargs, line):
    ex.set_field(recv, 'ghost_set_answer', args[0], line)
    return None


key_text = z3.Function('key_text', ATOM.sort(), ATOM.sort())           # str(request.keyset)


@contract(W, 'dawgie/db/shelve/comms.py', 'Worker.do', props=['C07', 'C06'])
class worker_do_set(ContractBase):
    """the Func.set branch of the database server (other requests are outside this contract: `requires`)"""
    params = {'self': DBW, 'request': SETREQ}
    modifies = [STORED, CONTENT, STG, PRIME, 'DbWorker.ghost_set_answer']
    abstract = {'DBI().tables[request.table.value]': _prime_table,
                'str(request.keyset)': lambda ex, e: V(key_text(SETREQ.get(ex.to_z3(ex.st.env['request'], SETREQ), 'keyset')), ATOM)}
    methods = {('DbWorker', '_send'): _send_exists}
    inline_callees = []

    def requires(c):
        r = c['request']
        return {'a-set-request-on-the-primary-table': And(SETREQ.get(r, 'func') == W.enum(_enums.Func).const('set'),
                                                          SETREQ.get(r, 'table') == W.enum(_enums.Table).const('prime')),
                'R2': R2(c.old)}

    def boundary_invariant(c):
        return {'no-dangling-catalogue-entry': R2(c.cur)}

    def ensures(c):
        s, r = c['self'], c['request']
        name = Tup(STAGED, BLOB).get(SETREQ.get(r, 'value'), '_1')
        k = c.sk('k', ATOM)
        P = MapOf(ATOM, BLOB)
        key = key_text(SETREQ.get(r, 'keyset'))
        return {'no-dangling-catalogue-entry': R2(c.cur),
                'client-told-whether-content-existed': c.cur.f('DbWorker.ghost_set_answer', s) == Opt(BOOL).some(c.old.g(STORED)[name]),
                # every stored value is catalogued under its own key, whether or not its content was already in the store
                'catalogued-under-its-own-key': c.cur.g(PRIME)[key] == P.opt.some(name),
                'other-catalogue-entries-untouched': Implies(k != key, c.cur.g(PRIME)[k] == c.old.g(PRIME)[k])}


# ---------------------------------------------------------------- Interface._update / _update_msv: the novelty reports
IFACE = Ref('Interface')
SV = Ref('StateVector')
VAL = Ref('Value')
REPORT = Rec('Report', {'isnew': BOOL, 'existed': BOOL})
W.declare_global('ghost.reports', ListOf(REPORT))         # ghost: (isnew reported, `exists` answered by the store) per value
W.declare_global('ghost.last_exists', BOOL)
W.class_path['Interface'] = 'dawgie.db.shelve.model.Interface'
LR = ListOf(REPORT)
for _m, _t in (('_alg', Ref('Alg')), ('_bot', Ref('Bot')), ('_tn', ATOM), ('_task', ATOM), ('_algn', ATOM), ('_runid', INT)):
    W.methods[('Interface', _m)] = (lambda t: (lambda ex, r, a, k, l: V(ex.fresh('iface', t), t)))(_t)
W.methods[('Alg', 'abort')] = lambda ex, r, a, k, l: V(ex.fresh('abort', BOOL), BOOL)
W.methods[('Alg', 'state_vectors')] = lambda ex, r, a, k, l: ex.newbox(ex.fresh('svs', ListSet(SV)), ListSet(SV))
W.methods[('StateVector', 'keys')] = lambda ex, r, a, k, l: ex.newbox(ex.fresh('keys', SetOf(ATOM)), SetOf(ATOM))
W.methods[('StateVector', 'name')] = lambda ex, r, a, k, l: V(ex.fresh('svname', ATOM), ATOM)
W.methods[('StateVector', '__getitem__')] = lambda ex, r, a, k, l: V(z3.Function('sv_item', SV.sort(), ATOM.sort(), VAL.sort())(r.t, ex.to_z3(a[0], ATOM)), VAL)
W.methods[('Interface', '_Interface__to_key')] = lambda ex, r, a, k, l: V(ex.fresh('primekey', ATOM), ATOM)


def _set_prime(ex, recv, args, kwargs, line):
    """assumed (proved for the server side above): the store answers whether identical content existed before"""
    e = ex.fresh('exists', BOOL)
    ex._note_write('ghost.last_exists', line)
    ex.st.glob['ghost.last_exists'] = e
    return V(e, BOOL)


def _new_values(ex, recv, args, kwargs, line):
    name, isnew = args[0]
    t = ex.truth(isnew, line)
    rep = V(REPORT.mk(t if not isinstance(t, bool) else z3.BoolVal(t), ex.st.glob['ghost.last_exists']), REPORT)
    ex.call_method(ex.get_global('ghost.reports'), 'append', [rep], {}, line)
    return None


W.bases = dict(getattr(W, 'bases', {}), Interface=['Connector'])
W.class_path['Connector'] = 'dawgie.db.shelve.comms.Connector'
W.declare_global('ghost.server_answer', BOOL)      # what Worker.do(Func.set) answers: identical content existed (proved above)


def _connector_do(ex, recv, args, kwargs, line):
    """assumed: one request/response round trip with the database server; for Func.set the response is `exists`"""
    e = ex.fresh('exists', BOOL)
    ex._note_write('ghost.last_exists', line)
    ex.st.glob['ghost.last_exists'] = e
    return V(e, BOOL)


W.methods[('Interface', '_Connector__do')] = _connector_do
W.externs['dawgie.db.util.encode'] = Extern(ret=ATOM)
W.externs['dawgie.db.shelve.comms.COMMAND'] = Extern(fn=lambda ex, args, kwargs, e: Dotted('command'))


@contract(W, 'dawgie/db/shelve/comms.py', 'Connector._set_prime', props=['C07'])
class set_prime(ContractBase):
    params = {'self': IFACE, 'key': ATOM, 'value': VAL}
    returns = BOOL
    modifies = ['ghost.last_exists']
    externs = {'dawgie.db.util.encode': Extern(ret=ATOM)}      # here only its result is passed on (what encode does: contract `encode` below)

    def ensures(c):
        return {'answers-whether-the-content-existed': c.result == c.cur.g('ghost.last_exists')}
W.methods[('Bot', 'new_values')] = _new_values
W.externs['dawgie.db.shelve.comms.acquire'] = Extern(ret=ATOM)
W.externs['dawgie.db.shelve.comms.release'] = Extern(drop=True)
W.externs['dawgie.db.util.verify'] = Extern(ret=BOOL)
W.declare_fields('Interface', _log=Ref('Logger'))
W.methods[('Logger', 'debug')] = lambda ex, r, a, k, l: None
W.methods[('Logger', 'critical')] = lambda ex, r, a, k, l: None


def _subscript_sv(ex, base, key, line):
    if isinstance(base, V) and base.ty == SV:
        return W.methods[('StateVector', '__getitem__')](ex, base, [key], {}, line)
    return None


W.index_hooks.append(_subscript_sv)


def reports_faithful(c, view, since):
    """every report added since `since` says new exactly when the store said the content did not exist"""
    i = z3.Int('rp_i')
    r = view.g('ghost.reports')
    return z3.ForAll([i], Implies(And(since <= i, i < LR.len(r)), REPORT.get(LR.arr(r)[i], 'isnew') == Not(REPORT.get(LR.arr(r)[i], 'existed'))))


def _update_contract(qual, loop_heads):
    @contract(W, 'dawgie/db/shelve/model.py', qual, props=['C07'])
    class _K(ContractBase):
        params = {'self': IFACE} if qual.endswith('_update') else {'self': IFACE, 'msv': SV}
        modifies = ['ghost.reports', 'ghost.last_exists']
        raises = {'AbortAEError': 'maybe', 'NotValidImplementationError': 'maybe'}
        abstract = {"'.'.join(*": ATOM, "'update: ' + name": ATOM, 'str(runid)': ATOM}
        locals = {'valid': BOOL}

        def ensures(c):
            n0 = LR.len(c.old.g('ghost.reports'))
            return {'new-exactly-when-not-stored-before': reports_faithful(c, c.cur, n0),
                    'earlier-reports-kept': LR.len(c.cur.g('ghost.reports')) >= n0}

    def _inv(c):
        n0 = LR.len(c.old.g('ghost.reports'))
        return {'faithful': reports_faithful(c, c.cur, n0), 'grows': LR.len(c.cur.g('ghost.reports')) >= n0}
    _K.loops = {h: Loop(inv=_inv, modifies=['ghost.reports', 'ghost.last_exists']) for h in loop_heads}
    _K.__name__ = qual.replace('.', '_')
    return _K


iface_update = _update_contract('Interface._update', ['for sv in self._alg().state_vectors()', 'for k in sv.keys()'])
iface_update_msv = _update_contract('Interface._update_msv', ['for k in msv.keys()'])


# ------------------------------------------------------------------------------------------------ db.util.encode
import ast as _ast07
W.declare_global('dawgie.context.data_stg', ATOM)
W.declare_global('ghost.staged_in', Opt(ATOM))                # the directory the staging file was created in
W.declare_global('ghost.written', MapOf(STAGED, ATOM))        # what was written into a staging file (its pickled bytes)
PICKLED = z3.Function('pickled', ATOM.sort(), ATOM.sort())                     # pickle.dumps(value, HIGHEST_PROTOCOL)
tool_sum = z3.Function('checksum_of', ATOM.sort(), ATOM.sort(), ATOM.sort())   # (tool, content) -> the hex digest the tool prints
digest_name = z3.Function('joined', ATOM.sort(), ATOM.sort(), ATOM.sort())     # '_'.join([m, s])
WR = MapOf(STAGED, ATOM)
FH = Rec('StageHandle', {'path': STAGED})


def _mkstemp(ex, args, kwargs, e):
    d = kwargs.get('dir')
    fn = ex.fresh('staging_file', STAGED)
    ex.assume(Not(ex.st.glob[STG][fn]))
    for g, v in (('ghost.staged_in', Opt(ATOM).some(ex.to_z3(d, ATOM))), (STG, z3.Store(ex.st.glob[STG], fn, True))):
        ex._note_write(g, e.lineno)
        ex.st.glob[g] = v
    return (V(ex.fresh('fd', INT), INT), V(fn, STAGED))


def _pickle_dump(ex, args, kwargs, e):
    h = ex.to_z3(args[1], FH)
    ex._note_write('ghost.written', e.lineno)
    ex.st.glob['ghost.written'] = z3.Store(ex.st.glob['ghost.written'], FH.get(h, 'path'), WR.opt.some(PICKLED(ex.to_z3(args[0], ATOM))))
    return None


def _check_output(ex, args, kwargs, e):
    """md5sum/sha1sum -b <file>: the digest of what the file holds at that moment"""
    cmd = args[0]
    if not (isinstance(cmd, list) and len(cmd) == 3 and cmd[0] in ('md5sum', 'sha1sum') and cmd[1] == '-b'):
        raise Unsupported('subprocess.check_output(%r)' % (cmd,))
    fn = ex.to_z3(cmd[2], STAGED)
    w = ex.st.glob['ghost.written'][fn]
    ex.vc('safe.digest-of-a-written-file@%d' % e.lineno, Not(WR.opt.is_none(w)), e.lineno)
    return V(tool_sum(atom(cmd[0]), WR.opt.val(w)), ATOM)


_we07 = W.with_enter


def _with_enter07(ex, item, line):
    call = item.context_expr
    if isinstance(call, _ast07.Call) and isinstance(call.func, _ast07.Name) and call.func.id == 'open':
        p = ex.eval(call.args[0])
        if isinstance(p, V) and p.ty == STAGED:
            return V(FH.mk(p.t), FH)
    return _we07(ex, item, line)


W.with_enter = _with_enter07


@contract(W, 'dawgie/db/util/__init__.py', 'encode', props=['C07'])
class encode(ContractBase):
    """the value is pickled into a fresh file of the STAGING area, and named after the md5 and sha1 digests of exactly the
    bytes that were written"""
    params = {'value': ATOM}
    returns = Tup(STAGED, BLOB)
    modifies = [STG, 'ghost.staged_in', 'ghost.written']
    externs = {'tempfile.mkstemp': Extern(fn=_mkstemp), 'os.close': Extern(drop=True), 'os.chmod': Extern(drop=True),
               'pickle.dump': Extern(fn=_pickle_dump), 'subprocess.check_output': Extern(fn=_check_output),
               'dawgie.db.util._extract': Extern(fn=lambda ex, a, k, e: a[0])}         # the digest is the first word of the tool's output
    abstract = {"int('0664', 8)": INT, "'_'.join([m, s])": lambda ex, e: V(digest_name(ex.to_z3(ex.st.env['m'], ATOM), ex.to_z3(ex.st.env['s'], ATOM)), ATOM),
                'pickle.HIGHEST_PROTOCOL': INT}

    def ensures(c):
        RT = Tup(STAGED, BLOB)
        fn, name = RT.get(c.result, '_0'), RT.get(c.result, '_1')
        content = PICKLED(c['value'])
        return {'staged-outside-the-store': c.cur.g('ghost.staged_in') == Opt(ATOM).some(c.old.g('dawgie.context.data_stg')),
                'fresh-staging-file-holds-the-pickle': And(Not(c.old.g(STG)[fn]), c.cur.g(STG)[fn], c.cur.g('ghost.written')[fn] == WR.opt.some(content)),
                'named-by-the-digests-of-those-bytes': name == digest_name(tool_sum(atom('md5sum'), content), tool_sum(atom('sha1sum'), content))}
