"""C08 (and the naming half of C06): shelve.util — versioned names, sub-table selection by exact name, id assignment."""
from .base import *
from . import c15_version

TABLE = MapOf(STR, INT)
from pyvc.types import strlit


def SEP_P():
    return strlit(':parent___')


def SEP_V():
    return strlit('___version:')


def verstr(t):
    """Version.asstring(): "<d>.<i>.<b>" as a function of the version triple"""
    return z3.Function('asstring', VERSION.sort(), STR.sort())(t)


@contract(W, 'dawgie/__init__.py', 'Version.asstring', props=['C06', 'C08'])
class version_asstring(ContractBase):
    """assumed for callers: a function of the version triple (digits and dots only: see lemma hypotheses)"""
    params = {'self': VER}
    returns = STR
    modifies = []
    stub = True

    def ensures(c):
        return {'fn': c.result == verstr(c.old.f('Version._version_', c['self']))}


def sur(name, parent):
    """construct(name, parent): '<parent>:parent___<name>'"""
    from pyvc.world import istr
    return z3.Concat(istr(parent), SEP_P(), name)


def full(name, parent, ver):
    return z3.Concat(sur(name, parent), SEP_V(), ver)


def selects(key, name, parent):
    """the selection rule of subset(): the constructed name itself, or that name followed by a version"""
    return Or(key == sur(name, parent), z3.PrefixOf(z3.Concat(sur(name, parent), SEP_V()), key))


@contract(W, 'dawgie/db/shelve/util.py', 'construct', props=['C06', 'C08'])
class construct(ContractBase):
    params = {'name': STR, 'parent': Opt(INT), 'ver': Opt(VER)}
    defaults = {'parent': None, 'ver': None}
    returns = STR
    modifies = []

    def requires(c):
        return {'ids-are-naturals': Or(Opt(INT).is_none(c['parent']), Opt(INT).val(c['parent']) >= 0)}

    def ensures(c):
        p, v, n = c['parent'], c['ver'], c['name']
        OI_, OV = Opt(INT), Opt(VER)
        base = If(OI_.is_none(p), n, sur(n, OI_.val(p)))
        vs = verstr(c.old.f('Version._version_', OV.val(v)))
        return {'format': c.result == If(OV.is_none(v), base, z3.Concat(base, SEP_V(), vs))}


def o_concat(a, b):
    return z3.Function('str_concat', STR.sort(), STR.sort(), STR.sort())(a, b)


def o_startswith(a, b):
    return z3.Function('str_startswith1', STR.sort(), STR.sort(), z3.BoolSort())(a, b)


def selects_code(key, name, parent):
    """the same rule with the string operations left uninterpreted: the code-level proof of subset() only needs that
    the code applies this rule to every key, not what the operations mean (their meaning is the lemma below)"""
    from pyvc.world import istr
    s_ = o_concat(o_concat(istr(parent), SEP_P()), name)
    return Or(key == s_, o_startswith(key, o_concat(s_, SEP_V())))


@contract(W, 'dawgie/db/shelve/util.py', 'subset', props=['C08'])
class subset(ContractBase):
    params = {'from_table': TABLE, 'name': STR, 'parents': ListSet(INT)}
    returns = TABLE
    modifies = []
    locals = {'result': TABLE}
    opaque_strings = True
    inline_callees = ['dawgie.db.shelve.util.construct']

    defaults = {'parents': None}
    none_as_empty = ['parents']

    def requires(c):
        p = c.sk('p', INT)
        return {'ids-are-naturals': Implies(c['parents'][p], p >= 0)}

    @staticmethod
    def _spec(c, res, done):
        k = c.sk('k', STR)
        p = z3.Const('sp_p', z3.IntSort())
        tab = c['from_table']
        hit = z3.Exists([p], And(done[p], selects_code(k, c['name'], p)))
        given = c['parents'] != ListSet(INT).empty()        # (without parents the function selects by bare prefix: not specified here)
        return {'only-selected': Implies(And(given, Not(TABLE.opt.is_none(res[k]))), And(res[k] == tab[k], hit)),
                'all-selected': Implies(And(given, hit, Not(TABLE.opt.is_none(tab[k]))), res[k] == tab[k]),
                'a-sub-table': Implies(Not(TABLE.opt.is_none(res[k])), res[k] == tab[k])}

    def ensures(c):
        return subset._spec(c, c.result, c['parents'])

    def _inv(c):
        return subset._spec(c, c.loc('result'), c.done)
    loops = {'for parent in parents': Loop(inv=_inv)}


def _exact_lemma():
    """the selection rule is exact addressing: among keys of the catalogue's two formats,
           <id>:parent___<name>            and            <id>:parent___<name>___version:<d.i.b>
    subset(name, parent) selects precisely those whose own name and parent id are the given ones.
    Hypotheses (A3): ids print as decimal digits, version strings are digits and dots, names contain neither separator."""
    P, Vs = z3.StringVal(':parent___'), z3.StringVal('___version:')
    n, n2, v2, ps, ps2, k = z3.Strings('lx_n lx_n2 lx_v2 lx_ps lx_ps2 lx_k')
    digits = lambda x: z3.InRe(x, z3.Plus(z3.Range('0', '9')))
    sepfree = lambda x: And(Not(z3.Contains(x, P)), Not(z3.Contains(x, Vs)))
    ver = z3.InRe(v2, z3.Plus(z3.Union(z3.Range('0', '9'), z3.Re('.'))))
    sn = z3.Concat(ps, P, n)
    rule = Or(k == sn, z3.PrefixOf(z3.Concat(sn, Vs), k))
    same = And(n2 == n, ps2 == ps)
    base = And(digits(ps), digits(ps2), sepfree(n), sepfree(n2))
    versioned = And(base, ver, k == z3.Concat(ps2, P, n2, Vs, v2))
    plain = And(base, k == z3.Concat(ps2, P, n2))
    return [('versioned.only-exact', Implies(And(versioned, rule), same)),
            ('versioned.all-exact', Implies(And(versioned, same), rule)),
            ('plain.only-exact', Implies(And(plain, rule), same)),
            ('plain.all-exact', Implies(And(plain, same), rule))]


_exact_lemma._mod = __name__
W.lemmas = getattr(W, 'lemmas', []) + [('C08', 'subset', _exact_lemma)]


# ------------------------------------------------------------------------------------------------ id assignment (R1)
INDEX = ListOf(STR)
def cname(*a):
    """what construct() returns (declared per string mode)"""
    return z3.Function('constructed_name', STR.sort(), Opt(INT).sort(), Opt(VER).sort(), STR.sort())(*a)


def R1(table, index):
    """name <-> id is a bijection onto 0..n-1: the index lists each catalogued name at its id and nothing else"""
    i = z3.Int('r1_i')
    k = z3.Const('r1_k', STR.sort())
    n, arr = INDEX.len(index), INDEX.arr(index)
    present = lambda key: Not(TABLE.opt.is_none(table[key]))
    return [QHyp([i], Implies(And(0 <= i, i < n), table[arr[i]] == TABLE.opt.some(i)), 'R1.index->table'),
            QHyp([k], Implies(present(k), And(0 <= TABLE.opt.val(table[k]), TABLE.opt.val(table[k]) < n, arr[TABLE.opt.val(table[k])] == k)), 'R1.table->index')]


def R1_goal(c, table, index):
    i, k = c.sk('i', INT), c.sk('k', STR)
    n, arr = INDEX.len(index), INDEX.arr(index)
    return {'R1.index->table': Implies(And(0 <= i, i < n), table[arr[i]] == TABLE.opt.some(i)),
            'R1.table->index': Implies(Not(TABLE.opt.is_none(table[k])), And(0 <= TABLE.opt.val(table[k]), TABLE.opt.val(table[k]) < n, arr[TABLE.opt.val(table[k])] == k))}


def _construct_fn(ex, args, kwargs, e):
    a = (list(args) + [None, None])[:3]
    return V(cname(ex.to_z3(a[0], STR), ex.to_z3(a[1], Opt(INT)), ex.to_z3(a[2], Opt(VER))), STR)


@contract(W, 'dawgie/db/shelve/util.py', 'append', props=['C08', 'C06'])
class append(ContractBase):
    """one id per constructed name, ids never reassigned, the index and the table stay inverse of each other"""
    params = {'name': STR, 'table': TABLE, 'index': INDEX, 'parent': Opt(INT), 'ver': Opt(VER)}
    defaults = {'parent': None, 'ver': None}
    returns = Tup(BOOL, INT, STR)
    modifies = []            # only the two containers handed in
    opaque_strings = True
    externs = {'dawgie.db.shelve.util.construct': Extern(fn=_construct_fn)}      # its format: contract `construct` above
    assumes = [lambda c: R1(c['table'], c['index']) + [INDEX.len(c['index']) >= 0]]       # (a list has a non-negative length)

    def requires(c):
        return {}

    def ensures(c):
        t0, x0 = c['table'], c['index']
        t1, x1 = c.loc('table'), c.loc('index')
        full_name = cname(c['name'], c['parent'], c['ver'])
        k, i = c.sk('k', STR), c.sk('i', INT)
        rid = Tup(BOOL, INT, STR).get(c.result, '_1')
        out = dict(R1_goal(c, t1, x1))
        out.update({
            'id-of-the-constructed-name': And(t1[full_name] == TABLE.opt.some(rid), Tup(BOOL, INT, STR).get(c.result, '_2') == full_name),
            'known-name-keeps-its-id': Implies(Not(TABLE.opt.is_none(t0[full_name])), And(t1[full_name] == t0[full_name], INDEX.len(x1) == INDEX.len(x0))),
            'new-name-gets-the-next-id': Implies(TABLE.opt.is_none(t0[full_name]), And(rid == INDEX.len(x0), INDEX.len(x1) == INDEX.len(x0) + 1)),
            'other-names-untouched': Implies(k != full_name, t1[k] == t0[k]),
            'ids-never-reassigned': Implies(And(0 <= i, i < INDEX.len(x0)), INDEX.arr(x1)[i] == INDEX.arr(x0)[i])})
        return out


# ------------------------------------------------------------------------------------------------ shelve.remove
W.declare_global('DBI.is_open', BOOL)
W.declare_global('DBI.is_reopened', BOOL)
PRIMET = MapOf(STR, ATOM)
W.declare_global('DBI.tables.prime', PRIMET)
SI = SetOf(INT)
KEYPARTS = ('run', 'tgt', 'task', 'alg', 'sv', 'val')


def pkey(*a):
    """str((run, target id, task id, alg id, sv id, value id)): the textual primary key"""
    return z3.Function('prime_key_text', *([z3.IntSort()] * 6 + [STR.sort()]))(*a)


def part(name, k):
    """the numbers a textual primary key was printed from (str of a tuple of ints is injective)"""
    return z3.Function('prime_key_' + name, STR.sort(), z3.IntSort())(k)


def pkey_axioms(c):
    xs = z3.Ints('pk_r pk_t pk_k pk_a pk_s pk_v')
    k = pkey(*xs)
    q = QHyp(list(xs), And(*[part(n, k) == x for n, x in zip(KEYPARTS, xs)]), 'prime-key.injective',
             triggers=[(z3.Function('prime_key_text', *([z3.IntSort()] * 6 + [STR.sort()])), (0, 1, 2, 3, 4, 5))])
    return [q]


@contract(W, 'dawgie/db/shelve/__init__.py', 'remove', props=['C08'])
class remove(ContractBase):
    """every primary entry of the run and target whose algorithm, state-vector and value ids are among the ids selected
    for the three names goes - all versions of each, not just the first found - and no other entry is touched"""
    params = {'runid': INT, 'tn': STR, 'taskn': STR, 'algn': STR, 'svn': STR, 'vn': STR}
    modifies = ['DBI.tables.prime']
    raises = {'RuntimeError': lambda c: Or(Not(c.old.g('DBI.is_open')), c.old.g('DBI.is_reopened')),
              'KeyError': lambda c: Or(TABLE.opt.is_none(c.old.g('DBI.tables.target')[c['tn']]), TABLE.opt.is_none(c.old.g('DBI.tables.task')[c['taskn']]))}
    opaque_strings = True
    abstract = {"str((runid, tnid, tskid, algid, svid, vid))": lambda ex, e: V(pkey(*[ex._num(ex.st.env[n]) for n in ('runid', 'tnid', 'tskid', 'algid', 'svid', 'vid')]), STR)}
    locals = {'algids': Bag(INT), 'svids': Bag(INT), 'vids': Bag(INT)}
    assumes = [pkey_axioms]

    def requires(c):
        k = c.sk('rk', STR)
        nat = lambda t: Implies(Not(TABLE.opt.is_none(c.old.g(t)[k])), TABLE.opt.val(c.old.g(t)[k]) >= 0)
        return {'ids-are-naturals': And(nat('DBI.tables.target'), nat('DBI.tables.task'), nat('DBI.tables.alg'), nat('DBI.tables.state'), nat('DBI.tables.value'))}

    @staticmethod
    def _addressed(c, A, S, Vs, k):
        """k is the key of (run, target, task, a, s, v) for some a in A, s in S, v in Vs"""
        run = c['runid']
        tn = TABLE.opt.val(c.old.g('DBI.tables.target')[c['tn']])
        tk = TABLE.opt.val(c.old.g('DBI.tables.task')[c['taskn']])
        a, s_, v = part('alg', k), part('sv', k), part('val', k)
        return And(A[a], S[s_], Vs[v], k == pkey(run, tn, tk, a, s_, v))

    @staticmethod
    def _state(c, addressed):
        k = c.sk('k', STR)
        P0, P1 = c.old.g('DBI.tables.prime'), c.cur.g('DBI.tables.prime')
        return {'prime': P1[k] == If(addressed(k), PRIMET.opt.none(), P0[k])}

    def ensures(c):
        A, S, Vs = c.loc('algids'), c.loc('svids'), c.loc('vids')
        return remove._state(c, lambda k: remove._addressed(c, A, S, Vs, k))

    def _inv_a(c):
        A, S, Vs = c.loc('algids'), c.loc('svids'), c.loc('vids')
        return remove._state(c, lambda k: remove._addressed(c, c.done, S, Vs, k))

    def _inv_s(c):
        A, S, Vs = c.loc('algids'), c.loc('svids'), c.loc('vids')
        oa = c.outer_done('for algid in algids')
        one = z3.Store(SI.empty(), c.loc('algid'), True)
        return remove._state(c, lambda k: Or(remove._addressed(c, oa, S, Vs, k), remove._addressed(c, one, c.done, Vs, k)))

    def _inv_v(c):
        A, S, Vs = c.loc('algids'), c.loc('svids'), c.loc('vids')
        oa, os_ = c.outer_done('for algid in algids'), c.outer_done('for svid in svids')
        onea = z3.Store(SI.empty(), c.loc('algid'), True)
        ones = z3.Store(SI.empty(), c.loc('svid'), True)
        return remove._state(c, lambda k: Or(remove._addressed(c, oa, S, Vs, k), remove._addressed(c, onea, os_, Vs, k), remove._addressed(c, onea, ones, c.done, k)))
    loops = {'for algid in algids': Loop(inv=_inv_a, modifies=['DBI.tables.prime']), 'for svid in svids': Loop(inv=_inv_s, modifies=['DBI.tables.prime']),
             'for vid in vids': Loop(inv=_inv_v, modifies=['DBI.tables.prime'])}


# ------------------------------------------------------------------------------------------------ shelve.next
PK6 = Tup(INT, INT, INT, INT, INT, INT)


def _prime_keys_fn(ex, args, kwargs, e):
    """util.prime_keys(table): the tuples the textual keys denote (eval of each key)"""
    T = ex.read(args[0])
    S = ex.fresh('keys', SetOf(PK6))
    t = z3.Const(ex.path.fresh_name('qt'), PK6.sort())
    k = z3.Const(ex.path.fresh_name('qk'), STR.sort())
    parts = lambda kk: PK6.mk(*[part(n, kk) for n in KEYPARTS])
    comps = [PK6.get(t, '_%d' % i) for i in range(6)]
    ex.st.qh.append(QHyp([k], Implies(Not(PRIMET.opt.is_none(T[k])), S[parts(k)]), 'prime_keys>'))
    ex.st.qh.append(QHyp([t], Implies(S[t], Not(PRIMET.opt.is_none(T[pkey(*comps)]))), 'prime_keys<'))
    return ex.newbox(S, SetOf(PK6, listlike=True))


@contract(W, 'dawgie/db/shelve/__init__.py', 'next', props=['C08'])
class next_(ContractBase):
    """the next run id is greater than the run id of every stored entry (numerically, whatever the key text looks like)"""
    params = {}
    returns = INT
    modifies = []
    raises = {'RuntimeError': lambda c: Or(Not(c.old.g('DBI.is_open')), c.old.g('DBI.is_reopened'))}
    opaque_strings = True
    externs = {'dawgie.db.shelve.util.prime_keys': Extern(fn=_prime_keys_fn)}
    assumes = [pkey_axioms]
    locals = {'known': Bag(INT)}

    def requires(c):
        k = c.sk('rk', STR)
        P = c.old.g('DBI.tables.prime')
        return {'keys-are-printed-tuples': Implies(Not(PRIMET.opt.is_none(P[k])), k == pkey(*[part(n, k) for n in KEYPARTS]))}

    def ensures(c):
        k = c.sk('k', STR)
        P = c.old.g('DBI.tables.prime')
        return {'greater-than-every-stored-run': Implies(Not(PRIMET.opt.is_none(P[k])), c.result > part('run', k)),
                'first-run-is-1': Implies(P == PRIMET.empty(), c.result == 1)}


# ------------------------------------------------------------------------------------------------ replay of construct()
def _construct_replay(model, vc):
    """name, parent id and version of the solver's model through the real util.construct, compared with the documented format"""
    import dawgie.db.shelve.util as util
    ev = lambda t: model.eval(t, model_completion=True)
    OI_, OV = Opt(INT), Opt(VER)
    try:
        name = ev(vc.inputs['name']).as_string()
    except Exception:
        return None
    p_t, v_t = vc.inputs['parent'], vc.inputs['ver']
    parent = None if z3.is_true(ev(OI_.is_none(p_t))) else ev(OI_.val(p_t)).as_long()
    ver = None
    if not z3.is_true(ev(OV.is_none(v_t))):
        heap = z3.Array('H_Version._version_', VER.sort(), VERSION.sort())
        t = heap[OV.val(v_t)]
        ver = util.LocalVersion('%d.%d.%d' % tuple(abs(ev(VERSION.get(t, f)).as_long()) for f in ('design', 'impl', 'bugfix')))
    got = util.construct(name, parent, ver)
    want = ('' if parent is None else str(parent) + ':parent___') + name + ('' if ver is None else '___version:' + ver.asstring())
    return {'reproduced': got != want, 'input': {'name': name, 'parent': parent, 'version': ver.asstring() if ver else None}, 'observed': got, 'expected': want}


construct.replay = staticmethod(_construct_replay)
