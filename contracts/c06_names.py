"""C06 (naming half): versioned catalogue names identify (name, parent id, version) uniquely, so keys built from
different authors / versions / targets never coincide."""
from .base import *
from . import c08_catalogue


def _injective_lemma():
    """construct is injective on (name, parent, version) under A3: two catalogue keys are equal only if they were
    built from the same name, the same parent id and the same version string"""
    P, Vs = z3.StringVal(':parent___'), z3.StringVal('___version:')
    n, n2, v, v2, ps, ps2 = z3.Strings('ci_n ci_n2 ci_v ci_v2 ci_ps ci_ps2')
    digits = lambda x: z3.InRe(x, z3.Plus(z3.Range('0', '9')))
    sepfree = lambda x: And(Not(z3.Contains(x, P)), Not(z3.Contains(x, Vs)), Not(z3.Contains(x, z3.StringVal(':'))))
    ver = lambda x: z3.InRe(x, z3.Plus(z3.Union(z3.Range('0', '9'), z3.Re('.'))))
    base = And(digits(ps), digits(ps2), sepfree(n), sepfree(n2), ver(v), ver(v2))
    k1v, k2v = z3.Concat(ps, P, n, Vs, v), z3.Concat(ps2, P, n2, Vs, v2)
    k1, k2 = z3.Concat(ps, P, n), z3.Concat(ps2, P, n2)
    return [('versioned-keys', Implies(And(base, k1v == k2v), And(ps == ps2, n == n2, v == v2))),
            ('plain-keys', Implies(And(base, k1 == k2), And(ps == ps2, n == n2))),
            ('versioned-never-equals-plain', Implies(base, k1v != k2))]


_injective_lemma._mod = __name__
W.lemmas = getattr(W, 'lemmas', []) + [('C06', 'construct-injective', _injective_lemma)]


# ---------------------------------------------------------------- Interface.__to_key: the six-component primary key
from . import c07_store
from .c07_store import IFACE, SV, VAL
import dawgie.db.shelve.enums as _enums
TABLE_E = W.enum(_enums.Table)
OI_, OV_ = Opt(INT), Opt(VERSION)
cons = z3.Function('construct', ATOM.sort(), OI_.sort(), OV_.sort(), ATOM.sort())        # util.construct (format + injectivity: lemmas)
id_of = z3.Function('catalogue_id', TABLE_E.sort(), ATOM.sort(), z3.IntSort())           # id of a constructed name in a table
ver_of_alg = z3.Function('alg_version', Ref('Alg').sort(), VERSION.sort())
ver_of_sv = z3.Function('sv_version', SV.sort(), VERSION.sort())
ver_of_val = z3.Function('value_version', VAL.sort(), VERSION.sort())
alg_name = z3.Function('alg_name', Ref('Alg').sort(), ATOM.sort())
sv_name = z3.Function('sv_name', SV.sort(), ATOM.sort())
sv_item = z3.Function('sv_item', SV.sort(), ATOM.sort(), VAL.sort())
KEY6 = Tup(INT, INT, INT, INT, INT, INT)


def _update_cmd(ex, recv, args, kwargs, line):
    """assumed (util.append, proved under C08 for its id assignment): registers construct(name, parent, ver) in the table
    and returns (exists, id, full name)"""
    name, parent, table, _value, ver = args
    k = cons(ex.to_z3(name, ATOM), ex.to_z3(parent, OI_), ex.to_z3(ver, OV_))
    return (None, V(id_of(ex.to_z3(table, TABLE_E), k), INT), None)


METHODS = {('Interface', '_update_cmd'): _update_cmd,
           ('Alg', 'name'): lambda ex, r, a, k, l: V(alg_name(r.t), ATOM),
           ('Alg', '_get_ver'): lambda ex, r, a, k, l: V(ver_of_alg(r.t), VERSION),
           ('StateVector', 'name'): lambda ex, r, a, k, l: V(sv_name(r.t), ATOM),
           ('StateVector', '_get_ver'): lambda ex, r, a, k, l: V(ver_of_sv(r.t), VERSION),
           ('StateVector', '__getitem__'): lambda ex, r, a, k, l: V(sv_item(r.t, ex.to_z3(a[0], ATOM)), VAL),
           ('Value', '_get_ver'): lambda ex, r, a, k, l: V(ver_of_val(r.t), VERSION)}


@contract(W, 'dawgie/db/shelve/model.py', 'Interface.__to_key', props=['C06'])
class to_key(ContractBase):
    params = {'self': IFACE, 'runid': INT, 'tn': ATOM, 'task': ATOM, 'alg': Ref('Alg'), 'sv': SV, 'vn': ATOM}
    returns = KEY6
    modifies = []
    methods = METHODS

    def ensures(c):
        T = lambda n: TABLE_E.const(n)
        none_i, none_v = OI_.none(), OV_.none()
        trg = id_of(T('target'), cons(c['tn'], none_i, none_v))
        tid = id_of(T('task'), cons(c['task'], none_i, none_v))
        aid = id_of(T('alg'), cons(alg_name(c['alg']), OI_.some(tid), OV_.some(ver_of_alg(c['alg']))))
        sid = id_of(T('state'), cons(sv_name(c['sv']), OI_.some(aid), OV_.some(ver_of_sv(c['sv']))))
        vid = id_of(T('value'), cons(c['vn'], OI_.some(sid), OV_.some(ver_of_val(sv_item(c['sv'], c['vn'])))))
        return {'key-of-exactly-this-identity-at-its-current-versions': c.result == KEY6.mk(c['runid'], trg, tid, aid, sid, vid)}


# ---------------------------------------------------------------- Interface._load: exact run, else highest run of the same identity
# Inside _load a primary key is only compared as a whole, by its tail k[1:] (the identity: target, task, algorithm,
# state vector, value ids) and ordered by k[0] (the run id); it is modelled as an abstract value with those two views.
PKEY = Ref('PrimeKey')
IDENT = Ref('Identity')
run_of = z3.Function('key_run', PKEY.sort(), z3.IntSort())
ident_of = z3.Function('key_identity', PKEY.sort(), IDENT.sort())
key_of = z3.Function('to_key', SV.sort(), ATOM.sort(), PKEY.sort())       # __to_key(runid, tn, task, alg, sv, vn) of this Interface
KEYS = ListSet(PKEY)
W.declare_fields('StateVector', ghost_loaded=MapOf(ATOM, PKEY))       # ghost: which primary entry each value was filled from
W.declare_fields('Interface', msv=SV, _Interface__null_metric=ATOM)
LOADED = 'StateVector.ghost_loaded'
ML = MapOf(ATOM, PKEY)
sv_keys = z3.Function('sv_keys', SV.sort(), SetOf(ATOM).sort())


def _key_slice(ex, base, lo, hi, line):
    if base.ty == PKEY and lo == 1 and hi is None:
        return V(ident_of(base.t), IDENT)
    if base.ty == PKEY and hi is None and isinstance(lo, int) and 2 <= lo <= 5:
        # a shorter tail of the key: a coarser view (equal identities have equal shorter tails, not conversely)
        return V(z3.Function('key_tail_from_%d' % lo, PKEY.sort(), Ref('Tail%d' % lo).sort())(base.t), Ref('Tail%d' % lo))
    return None


def _key_index(ex, base, key, line):
    if isinstance(base, V) and base.ty == PKEY and key == 0:
        return V(run_of(base.t), INT)
    return None


W.user_slice = _key_slice
W.index_hooks.append(_key_index)


def _sv_setitem(ex, recv, args, kwargs, line):
    """sv[vn] = self._get_prime(pk): ghost record of the entry the value is decoded from"""
    pk = ex.st.ghost.get('last_get_prime')
    cur = ex.get_field(recv, 'ghost_loaded')
    ex.call_method(cur, '__setitem__', [args[0], V(pk, PKEY)], {}, line)
    return None


def _get_prime(ex, recv, args, kwargs, line):
    """assumed (decode of the blob named by the entry): a function of the primary entry"""
    ex.st.ghost['last_get_prime'] = ex.to_z3(args[0], PKEY)
    return V(ex.fresh('decoded', VAL), VAL)


def _to_key_here(ex, recv, args, kwargs, line):
    """the key __to_key builds for (sv, vn) of this data set (its six components are proved in Interface.__to_key above)"""
    sv, vn = args[4], args[5]
    return V(key_of(ex.to_z3(sv, SV), ex.to_z3(vn, ATOM)), PKEY)


LOAD_METHODS = dict(METHODS)
LOAD_METHODS.update({('Interface', '_Interface__to_key'): _to_key_here,
                     ('StateVector', '__setitem__'): _sv_setitem, ('Interface', '_get_prime'): _get_prime,
                     ('Interface', '_prime_keys'): lambda ex, r, a, k, l: ex.newbox(ex.st.glob['ghost.prime_keys'], KEYS),
                     ('Interface', '_alg'): lambda ex, r, a, k, l: V(z3.Const('the_alg', Ref('Alg').sort()), Ref('Alg')),
                     ('Interface', '_bot'): lambda ex, r, a, k, l: V(z3.Const('the_bot', Ref('Bot').sort()), Ref('Bot')),
                     ('Interface', '_tn'): lambda ex, r, a, k, l: V(z3.Const('the_target', ATOM.sort()), ATOM),
                     ('Interface', '_task'): lambda ex, r, a, k, l: V(z3.Const('the_task', ATOM.sort()), ATOM),
                     ('Bot', '_runid'): lambda ex, r, a, k, l: V(ex.fresh('runid', INT), INT),
                     ('Alg', 'abort'): lambda ex, r, a, k, l: V(ex.fresh('abort', BOOL), BOOL),
                     ('Alg', 'state_vectors'): lambda ex, r, a, k, l: ex.newbox(z3.Const('the_state_vectors', ListSet(SV).sort()), ListSet(SV))})
W.declare_global('ghost.prime_keys', KEYS)
W.externs['dawgie.util.MetricStateVector'] = Extern(fn=lambda ex, args, kwargs, e: V(z3.Const('the_msv', SV.sort()), SV))
_is0 = W.iter_source


def _iter_sv(ex, src, line):
    if isinstance(src, V) and src.ty == SV:
        return ex.newbox(sv_keys(src.t), SetOf(ATOM))
    return _is0(ex, src, line)


W.iter_source = _iter_sv


def load_rule(c, view, sv, vn):
    """what a value may be filled from: the entry of the requested run if present, else the highest run of the same
    (target, task, algorithm+version, state vector+version, value+version), else nothing"""
    K = key_of(sv, vn)
    pks = c.old.g('ghost.prime_keys')
    k = z3.Const('lr_k', PKEY.sort())
    got = view.f(LOADED, sv)[vn]
    was = c.old.f(LOADED, sv)[vn]
    G = ML.opt.val(got)
    some_older = z3.Exists([k], And(pks[k], ident_of(k) == ident_of(K)))
    return And(Implies(pks[K], got == ML.opt.some(K)),
               Implies(And(Not(pks[K]), some_older), And(Not(ML.opt.is_none(got)), pks[G], ident_of(G) == ident_of(K),
                                                         z3.ForAll([k], Implies(And(pks[k], ident_of(k) == ident_of(K)), run_of(k) <= run_of(G))))),
               Implies(And(Not(pks[K]), Not(some_older)), got == was))


@contract(W, 'dawgie/db/shelve/model.py', 'Interface._load', props=['C06'])
class iface_load(ContractBase):
    params = {'self': IFACE, 'algref': Opt(ATOM), 'err': BOOL, 'ver': Opt(ATOM), 'lok': Opt(ATOM)}
    defaults = {'algref': None, 'err': True, 'ver': None, 'lok': None}
    modifies = [LOADED, 'Interface.msv']
    methods = LOAD_METHODS
    raises = {'AbortAEError': 'maybe'}
    abstract = {"'.'.join([self._tn(), self._task(), self._algn()])": ATOM, "'load: ' + name": ATOM}
    locals = {'spks': KEYS}

    def requires(c):
        s1, s2 = z3.Consts('dv_a dv_b', SV.sort())
        return {'plain-load': Opt(ATOM).is_none(c['algref']),
                'metric-state-vector-is-a-fresh-object': Not(z3.Const('the_state_vectors', ListSet(SV).sort())[z3.Const('the_msv', SV.sort())])}

    def ensures(c):
        sv, vn = c.sk('sv', SV), c.sk('vn', ATOM)
        svs = z3.Const('the_state_vectors', ListSet(SV).sort())
        mine = Or(svs[sv], sv == z3.Const('the_msv', SV.sort()))
        return {'load-rule': Implies(And(mine, sv_keys(sv)[vn]), load_rule(c, c.cur, sv, vn)),
                'other-state-vectors-untouched': Implies(Not(mine), c.cur.f(LOADED, sv)[vn] == c.old.f(LOADED, sv)[vn])}

    def _inv_sv(c):
        sv, vn = c.sk('sv', SV), c.sk('vn', ATOM)
        return {'done': Implies(And(c.done[sv], sv_keys(sv)[vn]), load_rule(c, c.cur, sv, vn)),
                'rest': Implies(Not(c.done[sv]), c.cur.f(LOADED, sv)[vn] == c.old.f(LOADED, sv)[vn])}

    def _inv_vn(c):
        sv, vn = c.sk('sv', SV), c.sk('vn', ATOM)
        cur_sv = c.loc('sv')
        outer = c.outer_done('for sv in ')
        return {'this.done': Implies(And(sv == cur_sv, c.done[vn]), load_rule(c, c.cur, sv, vn)),
                'this.rest': Implies(And(sv == cur_sv, Not(c.done[vn])), c.cur.f(LOADED, sv)[vn] == c.old.f(LOADED, sv)[vn]),
                'others.done': Implies(And(sv != cur_sv, outer[sv], sv_keys(sv)[vn]), load_rule(c, c.cur, sv, vn)),
                'others.rest': Implies(And(sv != cur_sv, Not(outer[sv])), c.cur.f(LOADED, sv)[vn] == c.old.f(LOADED, sv)[vn])}
    loops = {'for sv in ': Loop(inv=_inv_sv, modifies=[LOADED]), 'for vn in sv': Loop(inv=_inv_vn, modifies=[LOADED])}
