"""C15: pl.version.current — the table of current versions records, for every algorithm, state vector and value the
engine offers, that element's OWN version under its full name, and nothing else."""
from .base import *

OBJ15 = Ref('AeObj15')
SO15 = SetOf(OBJ15)
VT = MapOf(ATOM, ATOM)                         # full name -> version text
bot15 = z3.Function('bot_built_by', OBJ15.sort(), OBJ15.sort())             # f(task_name(f))
routines15 = z3.Function('routines15', OBJ15.sort(), SO15.sort())
svs15 = z3.Function('state_vectors15', OBJ15.sort(), SO15.sort())
keys15 = z3.Function('value_names15', OBJ15.sort(), SetOf(ATOM).sort())
item15 = z3.Function('value15', OBJ15.sort(), ATOM.sort(), OBJ15.sort())
ver15 = z3.Function('asstring15', OBJ15.sort(), ATOM.sort())
n2 = z3.Function('name_alg', OBJ15.sort(), OBJ15.sort(), ATOM.sort())
n3 = z3.Function('name_sv', OBJ15.sort(), OBJ15.sort(), OBJ15.sort(), ATOM.sort())
n4 = z3.Function('name_value', OBJ15.sort(), OBJ15.sort(), OBJ15.sort(), ATOM.sort(), ATOM.sort())
# A3: full names are injective - the elements a full name was built from
pf = z3.Function('factory_of_name', ATOM.sort(), OBJ15.sort())
pa = z3.Function('alg_of_name', ATOM.sort(), OBJ15.sort())
ps = z3.Function('sv_of_name', ATOM.sort(), OBJ15.sort())
pk = z3.Function('value_name_of_name', ATOM.sort(), ATOM.sort())
W.methods[('AeObj15', 'routines')] = lambda ex, r, a, k, l: ex.newbox(routines15(r.t), SetOf(OBJ15, listlike=True))
W.methods[('AeObj15', 'state_vectors')] = lambda ex, r, a, k, l: ex.newbox(svs15(r.t), SetOf(OBJ15, listlike=True))
W.methods[('AeObj15', 'keys')] = lambda ex, r, a, k, l: ex.newbox(keys15(r.t), SetOf(ATOM, listlike=True))
W.methods[('AeObj15', 'asstring')] = lambda ex, r, a, k, l: V(ver15(r.t), ATOM)


def _index15(ex, base, key, line):
    if isinstance(base, V) and base.ty == OBJ15:
        return V(item15(base.t, ex.to_z3(key, ATOM)), OBJ15)
    return None


W.index_hooks.append(_index15)
_cv15 = W.call_value


def _call_value15(ex, f, args, kwargs, e):
    if isinstance(f, V) and f.ty == OBJ15:
        return V(bot15(f.t), OBJ15)          # a factory called with its task name builds its object
    return _cv15(ex, f, args, kwargs, e)


W.call_value = _call_value15


def names_injective(c):
    f, a, s = z3.Consts('ni_f ni_a ni_s', OBJ15.sort())
    k = z3.Const('ni_k', ATOM.sort())
    return [QHyp([f, a], And(pf(n2(f, a)) == f, pa(n2(f, a)) == a), 'A3.alg-name', triggers=[(n2, (0, 1))]),
            QHyp([f, a, s], And(pf(n3(f, a, s)) == f, pa(n3(f, a, s)) == a, ps(n3(f, a, s)) == s), 'A3.sv-name', triggers=[(n3, (0, 1, 2))]),
            QHyp([f, a, s, k], And(pf(n4(f, a, s, k)) == f, pa(n4(f, a, s, k)) == a, ps(n4(f, a, s, k)) == s, pk(n4(f, a, s, k)) == k), 'A3.value-name',
                 triggers=[(n4, (0, 1, 2, 3))])]


def _env(ex, *names):
    return [ex.to_z3(ex.st.env[n], OBJ15 if n != 'k' else ATOM) for n in names]


@contract(W, 'dawgie/pl/version.py', 'current', props=['C15'])
class current(ContractBase):
    params = {'factories': Bag(OBJ15)}
    returns = Tup(VT, VT, VT)
    modifies = []
    locals = {'talg': VT, 'tsv': VT, 'tv': VT}
    assumes = [names_injective]
    externs = {'dawgie.util.task_name': Extern(ret=ATOM)}
    abstract = {"'.'.join([bot._name(), alg.name()])": lambda ex, e: V(n2(*_env(ex, 'f', 'alg')), ATOM),
                "'.'.join([bot._name(), alg.name(), sv.name()])": lambda ex, e: V(n3(*_env(ex, 'f', 'alg', 'sv')), ATOM),
                "'.'.join([bot._name(), alg.name(), sv.name(), k])": lambda ex, e: V(n4(*_env(ex, 'f', 'alg', 'sv', 'k')), ATOM)}

    @staticmethod
    def _tables(c, TA, TS, TV, P2, P3, P4):
        """P2(f,a) / P3(f,a,s) / P4(f,a,s,k): the element has been recorded so far"""
        n = c.sk('n', ATOM)
        f, a, s, k = pf(n), pa(n), ps(n), pk(n)
        return {'algorithms': TA[n] == If(And(P2(f, a), n == n2(f, a)), VT.opt.some(ver15(a)), VT.opt.none()),
                'state-vectors': TS[n] == If(And(P3(f, a, s), keys15(s) != SetOf(ATOM).empty(), n == n3(f, a, s)), VT.opt.some(ver15(s)), VT.opt.none()),
                'values-under-their-own-version': TV[n] == If(And(P4(f, a, s, k), n == n4(f, a, s, k)), VT.opt.some(ver15(item15(s, k))), VT.opt.none())}

    def ensures(c):
        F = c['factories']
        R = Tup(VT, VT, VT)
        in2 = lambda f, a: And(F[f], routines15(bot15(f))[a])
        in3 = lambda f, a, s: And(in2(f, a), svs15(a)[s])
        in4 = lambda f, a, s, k: And(in3(f, a, s), keys15(s)[k])
        return current._tables(c, R.get(c.result, '_0'), R.get(c.result, '_1'), R.get(c.result, '_2'), in2, in3, in4)

    def _inv_f(c):
        D = c.done
        in2 = lambda f, a: And(D[f], routines15(bot15(f))[a])
        in3 = lambda f, a, s: And(in2(f, a), svs15(a)[s])
        in4 = lambda f, a, s, k: And(in3(f, a, s), keys15(s)[k])
        return current._tables(c, c.loc('talg'), c.loc('tsv'), c.loc('tv'), in2, in3, in4)

    def _inv_a(c):
        F0 = c.outer_done('for f in factories')
        f0 = c.loc('f')
        D = c.done
        in2 = lambda f, a: Or(And(F0[f], routines15(bot15(f))[a]), And(f == f0, D[a]))
        in3 = lambda f, a, s: And(in2(f, a), svs15(a)[s])
        in4 = lambda f, a, s, k: And(in3(f, a, s), keys15(s)[k])
        out = current._tables(c, c.loc('talg'), c.loc('tsv'), c.loc('tv'), in2, in3, in4)
        out['bot'] = c.loc('bot') == bot15(f0)
        return out

    def _inv_s(c):
        F0, A0 = c.outer_done('for f in factories'), c.outer_done('for alg in bot.routines()')
        f0, a0 = c.loc('f'), c.loc('alg')
        D = c.done
        in2 = lambda f, a: Or(And(F0[f], routines15(bot15(f))[a]), And(f == f0, Or(A0[a], a == a0)))
        in3 = lambda f, a, s: Or(And(F0[f], routines15(bot15(f))[a], svs15(a)[s]), And(f == f0, A0[a], svs15(a)[s]), And(f == f0, a == a0, D[s]))
        in4 = lambda f, a, s, k: And(in3(f, a, s), keys15(s)[k])
        out = current._tables(c, c.loc('talg'), c.loc('tsv'), c.loc('tv'), in2, in3, in4)
        out['bot'] = c.loc('bot') == bot15(f0)
        return out

    def _inv_k(c):
        F0, A0, S0 = c.outer_done('for f in factories'), c.outer_done('for alg in bot.routines()'), c.outer_done('for sv in alg.state_vectors()')
        f0, a0, s0 = c.loc('f'), c.loc('alg'), c.loc('sv')
        D = c.done
        in2 = lambda f, a: Or(And(F0[f], routines15(bot15(f))[a]), And(f == f0, Or(A0[a], a == a0)))
        in3 = lambda f, a, s: Or(And(F0[f], routines15(bot15(f))[a], svs15(a)[s]), And(f == f0, A0[a], svs15(a)[s]), And(f == f0, a == a0, Or(S0[s], s == s0)))
        in4 = lambda f, a, s, k: Or(And(F0[f], routines15(bot15(f))[a], svs15(a)[s], keys15(s)[k]), And(f == f0, A0[a], svs15(a)[s], keys15(s)[k]),
                                    And(f == f0, a == a0, S0[s], keys15(s)[k]), And(f == f0, a == a0, s == s0, D[k]))
        out = current._tables(c, c.loc('talg'), c.loc('tsv'), c.loc('tv'), in2, in3, in4)
        out['bot'] = c.loc('bot') == bot15(f0)
        return out
    loops = {'for f in factories': Loop(inv=_inv_f), 'for alg in bot.routines()': Loop(inv=_inv_a), 'for sv in alg.state_vectors()': Loop(inv=_inv_s),
             'for k in sv.keys()': Loop(inv=_inv_k)}
