"""C15 (first half): dawgie.Version comparison operators are the lexicographic order on (design, impl, bugfix)."""
from .base import *


def ver(c, who):
    return c.old.f('Version._version_', c[who])


def lex_lt(a, b):
    return Or(VERSION.get(a, 'design') < VERSION.get(b, 'design'),
              And(VERSION.get(a, 'design') == VERSION.get(b, 'design'),
                  Or(VERSION.get(a, 'impl') < VERSION.get(b, 'impl'),
                     And(VERSION.get(a, 'impl') == VERSION.get(b, 'impl'),
                         VERSION.get(a, 'bugfix') < VERSION.get(b, 'bugfix')))))


for _n in ('design', 'implementation', 'bugfix', '_get_ver'):
    def _mk(n):
        @contract(W, 'dawgie/__init__.py', 'Version.' + n, props=['C15'])
        class _K(ContractBase):
            params = {'self': VER}
            inline = True
        return _K
    _mk(_n)


def _cmp_contract(name, spec):
    @contract(W, 'dawgie/__init__.py', 'Version.' + name, props=['C15'])
    class _K(ContractBase):
        params = {'self': VER, 'other': VER}
        returns = BOOL
        modifies = []

        def ensures(c):
            a, b = ver(c, 'self'), ver(c, 'other')
            return {'lex': c.result == spec(a, b)}
    _K.__name__ = 'Version' + name
    return _K


_cmp_contract('__eq__', lambda a, b: a == b)
_cmp_contract('__ne__', lambda a, b: a != b)
_cmp_contract('__lt__', lambda a, b: lex_lt(a, b))
_cmp_contract('__le__', lambda a, b: Or(lex_lt(a, b), a == b))
_cmp_contract('__gt__', lambda a, b: lex_lt(b, a))
_cmp_contract('__ge__', lambda a, b: Or(lex_lt(b, a), a == b))


@contract(W, 'dawgie/__init__.py', 'Version.newer', props=['C15'])
class VersionNewer(ContractBase):
    params = {'self': VER, 'than': VERSION}
    returns = BOOL
    modifies = []

    def ensures(c):
        return {'lex': c.result == lex_lt(c['than'], ver(c, 'self'))}


# ---------------------------------------------------------------- schedule._diff: current versus persisted versions
VMAP = MapOf(ATOM, ATOM)              # name -> current version string
PMAP = MapOf(ATOM, ListSet(ATOM))     # name -> persisted version strings


@contract(W, 'dawgie/pl/schedule.py', '_diff', props=['C15'])
class _diff(ContractBase):
    params = {'curr': VMAP, 'prev': PMAP}
    returns = ListSet(ATOM)
    modifies = []
    locals = {'diff': ListSet(ATOM)}

    @staticmethod
    def _changed(c, k):
        cur, prev = c['curr'], c['prev']
        return And(Not(VMAP.opt.is_none(cur[k])),
                   Or(PMAP.opt.is_none(prev[k]), Not(PMAP.opt.val(prev[k])[VMAP.opt.val(cur[k])])))

    def ensures(c):
        k = c.sk('k', ATOM)
        return {'exact': c.result[k] == _diff._changed(c, k)}

    def _inv(c):
        k = c.sk('k', ATOM)
        return {'exact': c.loc('diff')[k] == And(c.done[k], _diff._changed(c, k))}
    loops = {'for k in curr': Loop(inv=_inv)}


def _lemmas():
    """order lemmas over the lexicographic spec the six operators were proved equal to"""
    a, b, c = [VERSION.fresh(n) for n in 'abc']
    lt, le = lex_lt, (lambda x, y: Or(lex_lt(x, y), x == y))
    return [('trichotomy', Or(lt(a, b), a == b, lt(b, a))),
            ('exclusive', And(Not(And(lt(a, b), lt(b, a))), Not(And(lt(a, b), a == b)))),
            ('transitive', Implies(And(lt(a, b), lt(b, c)), lt(a, c))),
            ('antisymmetric', Implies(And(le(a, b), le(b, a)), a == b)),
            ('le-is-not-gt', le(a, b) == Not(lt(b, a)))]


_lemmas._mod = __name__
W.lemmas = getattr(W, 'lemmas', []) + [('C15', 'order', _lemmas)]
