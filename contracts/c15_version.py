"""C15 (first half): dawgie.Version comparison operators are the lexicographic order on (design, impl, bugfix)."""
from .base import *


def ver(c, who):
    return c.old.f('Version._version_', c[who])


def lex_lt(a, b):
    return Or(VERSION.get(a, 'design') < VERSION.get(b, 'design'),
              And(VERSION.get(a, 'design') == VERSION.get(b, 'design'),
                  Or(VERSION.get(a, 'impl') < VERSION.get(b, 'impl'),
                     And(VERSION.get(a, 'impl') == VERSION.get(b, 'impl'),
                         VERSION.get(a, 'bugfix') < VERSION.get(b, 'bugfix')))))


for _n in ('design', 'implementation', 'bugfix', '_get_ver'):
    def _mk(n):
        @contract(W, 'dawgie/__init__.py', 'Version.' + n, props=['C15'])
        class _K(ContractBase):
            params = {'self': VER}
            inline = True
        return _K
    _mk(_n)


def _cmp_contract(name, spec):
    @contract(W, 'dawgie/__init__.py', 'Version.' + name, props=['C15'])
    class _K(ContractBase):
        params = {'self': VER, 'other': VER}
        returns = BOOL
        modifies = []

        def ensures(c):
            a, b = ver(c, 'self'), ver(c, 'other')
            return {'lex': c.result == spec(a, b)}
    _K.__name__ = 'Version' + name
    return _K


_cmp_contract('__eq__', lambda a, b: a == b)
_cmp_contract('__ne__', lambda a, b: a != b)
_cmp_contract('__lt__', lambda a, b: lex_lt(a, b))
_cmp_contract('__le__', lambda a, b: Or(lex_lt(a, b), a == b))
_cmp_contract('__gt__', lambda a, b: lex_lt(b, a))
_cmp_contract('__ge__', lambda a, b: Or(lex_lt(b, a), a == b))


@contract(W, 'dawgie/__init__.py', 'Version.newer', props=['C15'])
class VersionNewer(ContractBase):
    params = {'self': VER, 'than': VERSION}
    returns = BOOL
    modifies = []

    def ensures(c):
        return {'lex': c.result == lex_lt(c['than'], ver(c, 'self'))}


# ---------------------------------------------------------------- schedule._diff: current versus persisted versions
VMAP = MapOf(ATOM, ATOM)              # name -> current version string
PMAP = MapOf(ATOM, ListSet(ATOM))     # name -> persisted version strings


@contract(W, 'dawgie/pl/schedule.py', '_diff', props=['C15'])
class _diff(ContractBase):
    params = {'curr': VMAP, 'prev': PMAP}
    returns = ListSet(ATOM)
    modifies = []
    locals = {'diff': ListSet(ATOM)}

    @staticmethod
    def _changed(c, k):
        cur, prev = c['curr'], c['prev']
        return And(Not(VMAP.opt.is_none(cur[k])),
                   Or(PMAP.opt.is_none(prev[k]), Not(PMAP.opt.val(prev[k])[VMAP.opt.val(cur[k])])))

    def ensures(c):
        k = c.sk('k', ATOM)
        return {'exact': c.result[k] == _diff._changed(c, k)}

    def _inv(c):
        k = c.sk('k', ATOM)
        return {'exact': c.loc('diff')[k] == And(c.done[k], _diff._changed(c, k))}
    loops = {'for k in curr': Loop(inv=_inv)}


def _lemmas():
    """order lemmas over the lexicographic spec the six operators were proved equal to"""
    a, b, c = [VERSION.fresh(n) for n in 'abc']
    lt, le = lex_lt, (lambda x, y: Or(lex_lt(x, y), x == y))
    return [('trichotomy', Or(lt(a, b), a == b, lt(b, a))),
            ('exclusive', And(Not(And(lt(a, b), lt(b, a))), Not(And(lt(a, b), a == b)))),
            ('transitive', Implies(And(lt(a, b), lt(b, c)), lt(a, c))),
            ('antisymmetric', Implies(And(le(a, b), le(b, a)), a == b)),
            ('le-is-not-gt', le(a, b) == Not(lt(b, a)))]


_lemmas._mod = __name__
W.lemmas = getattr(W, 'lemmas', []) + [('C15', 'order', _lemmas)]


# ---------------------------------------------------------------- replay of counter-models on the real dawgie.Version
def _intval(model, t):
    v = model.eval(t, model_completion=True)
    return v.as_long() if z3.is_int_value(v) else None


def _triple(model, t):
    vals = [_intval(model, VERSION.get(t, f)) for f in ('design', 'impl', 'bugfix')]
    return None if any(v is None for v in vals) else tuple(vals)


def _version_replay(name, oracle):
    def replay(model, vc):
        """build the two versions from the solver's model, call the real operator, compare with tuple order"""
        import dawgie

        class _V(dawgie.Version):
            def __init__(self, t):
                self._version_ = dawgie.VERSION(*t)
        heap = z3.Array('H_Version._version_', VER.sort(), VERSION.sort())
        a = _triple(model, heap[vc.inputs['self']])
        other = vc.inputs.get('other')
        b = _triple(model, heap[other]) if other is not None else _triple(model, vc.inputs['than'])
        if a is None or b is None:
            return None
        try:
            got = getattr(_V(a), name)(_V(b) if other is not None else dawgie.VERSION(*b))
        except Exception as e:
            return {'reproduced': True, 'input': {'self': a, 'other': b}, 'observed': '%s: %s' % (type(e).__name__, e), 'expected': oracle(a, b)}
        return {'reproduced': bool(got) != oracle(a, b), 'input': {'self': a, 'other': b}, 'observed': got, 'expected': oracle(a, b)}
    return staticmethod(replay)


for _nm, _or in (('__eq__', lambda a, b: a == b), ('__ne__', lambda a, b: a != b), ('__lt__', lambda a, b: a < b), ('__le__', lambda a, b: a <= b),
                 ('__gt__', lambda a, b: a > b), ('__ge__', lambda a, b: a >= b), ('newer', lambda a, b: a > b)):
    W.contracts['dawgie.Version.' + _nm].replay = _version_replay(_nm, _or)


# ---------------------------------------------------------------- replay of counter-models on the real schedule._diff
def _diff_replay(model, vc):
    """the two version tables of the solver's model as Python dicts (names over the model's finite universe of atoms),
    through the real _diff, compared with 'current version not among the persisted ones'"""
    import dawgie.pl.schedule as sched
    uni = model.get_universe(ATOM.sort()) or []
    ev = lambda t: model.eval(t, model_completion=True)
    cur_t, prev_t = vc.inputs['curr'], vc.inputs['prev']
    nm = lambda a: str(a)
    curr, prev = {}, {}
    for a in uni:
        if not z3.is_true(ev(VMAP.opt.is_none(cur_t[a]))):
            curr[nm(a)] = nm(ev(VMAP.opt.val(cur_t[a])))
        if not z3.is_true(ev(PMAP.opt.is_none(prev_t[a]))):
            s = PMAP.opt.val(prev_t[a])
            prev[nm(a)] = [nm(b) for b in uni if z3.is_true(ev(s[b]))]
    try:
        got = sched._diff(curr, prev)
    except Exception as e:
        return {'reproduced': True, 'input': {'curr': curr, 'prev': prev}, 'observed': '%s: %s' % (type(e).__name__, e), 'expected': 'a list of names'}
    want = sorted(k for k, v in curr.items() if k not in prev or v not in prev[k])
    return {'reproduced': sorted(got) != want or len(got) != len(set(got)), 'input': {'curr': curr, 'prev': prev}, 'observed': sorted(got), 'expected': want}


_diff.replay = staticmethod(_diff_replay)
