"""C15 (first half): dawgie.Version comparison operators are the lexicographic order on (design, impl, bugfix)."""
from .base import *


def ver(c, who):
    return c.old.f('Version._version_', c[who])


def lex_lt(a, b):
    return Or(VERSION.get(a, 'design') < VERSION.get(b, 'design'),
              And(VERSION.get(a, 'design') == VERSION.get(b, 'design'),
                  Or(VERSION.get(a, 'impl') < VERSION.get(b, 'impl'),
                     And(VERSION.get(a, 'impl') == VERSION.get(b, 'impl'),
                         VERSION.get(a, 'bugfix') < VERSION.get(b, 'bugfix')))))


for _n in ('design', 'implementation', 'bugfix', '_get_ver'):
    def _mk(n):
        @contract(W, 'dawgie/__init__.py', 'Version.' + n, props=['C15'])
        class _K(ContractBase):
            params = {'self': VER}
            inline = True
        return _K
    _mk(_n)


def _cmp_contract(name, spec):
    @contract(W, 'dawgie/__init__.py', 'Version.' + name, props=['C15'])
    class _K(ContractBase):
        params = {'self': VER, 'other': VER}
        returns = BOOL
        modifies = []

        def ensures(c):
            a, b = ver(c, 'self'), ver(c, 'other')
            return {'lex': c.result == spec(a, b)}
    _K.__name__ = 'Version' + name
    return _K


_cmp_contract('__eq__', lambda a, b: a == b)
_cmp_contract('__ne__', lambda a, b: a != b)
_cmp_contract('__lt__', lambda a, b: lex_lt(a, b))
_cmp_contract('__le__', lambda a, b: Or(lex_lt(a, b), a == b))
_cmp_contract('__gt__', lambda a, b: lex_lt(b, a))
_cmp_contract('__ge__', lambda a, b: Or(lex_lt(b, a), a == b))


@contract(W, 'dawgie/__init__.py', 'Version.newer', props=['C15'])
class VersionNewer(ContractBase):
    params = {'self': VER, 'than': VERSION}
    returns = BOOL
    modifies = []

    def ensures(c):
        return {'lex': c.result == lex_lt(c['than'], ver(c, 'self'))}
