"""C05: schedule.purge withdraws the target from every descendant and touches nothing else."""
from .base import *


@contract(W, 'dawgie/pl/schedule.py', 'purge', props=['C05', 'C04'])
class purge(ContractBase):
    params = {'node': NODE, 'target': ATOM}
    modifies = ['Node.todo', 'Node.doing', 'Node.do']
    recursive = True
    assumes = [one_node_per_tag_among_children]

    def requires(c):
        return {}

    def ensures(c):
        n, t = c.sk('n', NODE), c.sk('t', ATOM)
        node, target = c['node'], c['target']
        out = {}
        for nm, f in (('todo', todo), ('doing', doing), ('do', do_)):
            out['withdrawn.' + nm] = Implies(reach(node, n), Not(f(c.cur, n)[target]))
            out['frame.targets.' + nm] = Implies(t != target, f(c.cur, n)[t] == f(c.old, n)[t])
            out['frame.nodes.' + nm] = Implies(Not(reach(node, n)), f(c.cur, n)[t] == f(c.old, n)[t])
            out['only-removes.' + nm] = Implies(f(c.cur, n)[t], f(c.old, n)[t])
        return out

    def _inv(c):
        # children in `done` have been purged; the rest of the tree is as at loop entry
        n, t = c.sk('n', NODE), c.sk('t', ATOM)
        node, target = c['node'], c['target']
        out = {}
        for nm, f in (('todo', todo), ('doing', doing), ('do', do_)):
            out['done.' + nm] = Implies(And(c.done[wit(node, n)], reach(wit(node, n), n)), Not(f(c.cur, n)[target]))
            out['self.' + nm] = Implies(n == node, Not(f(c.cur, n)[target]))
            out['targets.' + nm] = Implies(t != target, f(c.cur, n)[t] == f(c.old, n)[t])
            out['nodes.' + nm] = Implies(Not(reach(node, n)), f(c.cur, n)[t] == f(c.old, n)[t])
            out['removes.' + nm] = Implies(f(c.cur, n)[t], f(c.old, n)[t])
        return out
    loops = {'for child in ': Loop(inv=_inv, modifies=['Node.todo', 'Node.doing', 'Node.do'])}
