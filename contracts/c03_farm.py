"""C03 / C11: what farm.dispatch does with the released work — message fan-out (_put), placement (Hand.do), the gate
and the assignment loop."""
from .base import *
from . import c01_release, c11_farm, c12_submit
import dawgie

DIST = W.enum(dawgie.Distribution)
unit_name = z3.Function('unit_name', Opt(ATOM).sort(), Opt(ATOM).sort(), ATOM.sort())     # jobid + '[' + (target or '__all__') + ']'
task_module = z3.Function('task_module', FACTORY.sort(), ATOM.sort())
CLUSTER, CLOUD, BUSY, JOBS, WK = ['dawgie.pl.farm.' + x for x in ('_cluster', '_cloud', '_busy', '_jobs', '_workers')]
LM = ListOf(MSG)
OA, OI = Opt(ATOM), Opt(INT)


@contract(W, 'dawgie/pl/message.py', 'make', props=['C03', 'C11'])
class message_make(ContractBase):
    params = {'ctxt': Opt(ATOM), 'fac': Opt(FACREF), 'inc': Opt(ATOM), 'jid': Opt(ATOM), 'psh': Opt(INT), 'rev': Opt(ATOM), 'rid': Opt(INT),
              'suc': Opt(BOOL), 'target': Opt(ATOM), 'tim': Opt(Ref('Timing')), 'typ': MTYPE, 'val': Opt(ATOM)}
    defaults = {'ctxt': None, 'fac': None, 'inc': None, 'jid': None, 'psh': None, 'rev': None, 'rid': None, 'suc': None, 'target': None,
                'tim': None, 'typ': dawgie.pl.message.Type.wait, 'val': None}
    inline = True


W.externs['dawgie.context.dumps'] = Extern(ret=ATOM)
W.externs['dawgie.util.task_module'] = Extern(fn=lambda ex, args, kwargs, e: V(task_module(ex.to_z3(args[0], FACTORY)), ATOM))
W.methods[('Timing', '__setitem__')] = lambda ex, recv, args, kwargs, line: None


PUTRID = MapOf(NODE, INT)


def _drawn_once(c):
    """the run id drawn for the job before its units are put (the local `runid`); if the code no longer draws it once per
    job there is no such value and the invariant cannot hold"""
    try:
        return c.loc('runid')
    except KeyError:
        return z3.Int('run_id_drawn_once_for_the_job')

W.declare_global('ghost.put_runid', PUTRID)         # ghost: the run id the units of a job were given in this dispatch


def _put_ghost(ex, args, line):
    g = ex.st.glob['ghost.put_runid']
    ex._note_write('ghost.put_runid', line)
    ex.st.glob['ghost.put_runid'] = z3.Store(g, args['job'], PUTRID.opt.some(args['runid']))


@contract(W, 'dawgie/pl/farm.py', '_put', props=['C03', 'C11'])
class put(ContractBase):
    params = {'job': NODE, 'runid': INT, 'target': Opt(ATOM), 'where': DIST}
    modifies = [CLUSTER, CLOUD, 'ghost.put_runid']
    ghost_body = staticmethod(_put_ghost)      # ghost statement at entry when _put itself is verified; callers see the ensures clause
    abstract = {"'.'.join([target if target else '__all__', job.tag])": ATOM,
                'insights[key].summary if key in insights else dawgie.Distribution.cluster': DIST,
                'datetime.datetime.now(datetime.UTC)': None, "{'scheduled': now}": None}

    def ensures(c):
        j = c['job']
        q0, q1, d0, d1 = c.old.g(CLUSTER), c.cur.g(CLUSTER), c.old.g(CLOUD), c.cur.g(CLOUD)
        fac = c.old.f('Node.factory', j)
        i = z3.Int('pu_i')

        def appended(a0, a1):
            m = LM.arr(a1)[LM.len(a0)]
            return And(LM.len(a1) == LM.len(a0) + 1,
                       z3.ForAll([i], Implies(And(0 <= i, i < LM.len(a0)), LM.arr(a1)[i] == LM.arr(a0)[i])),
                       MSG.get(m, 'jobid') == OA.some(tag(c.old, j)), MSG.get(m, 'runid') == OI.some(c['runid']), MSG.get(m, 'target') == c['target'],
                       MSG.get(m, 'type') == MTYPE.const('task'),
                       MSG.get(m, 'factory') == Opt(FACREF).some(FACREF.mk(task_module(fac), c.old.f('Factory.__name__', fac))))
        return {'exactly-one-message-for-the-unit': Or(And(appended(q0, q1), d1 == d0), And(appended(d0, d1), q1 == q0)),
                'ghost.run-id-of-the-job-recorded': c.cur.g('ghost.put_runid') == z3.Store(c.old.g('ghost.put_runid'), j, PUTRID.opt.some(c['runid']))}

    def requires(c):
        t = c['target']
        return {'len': And(LM.len(c.old.g(CLUSTER)) >= 0, LM.len(c.old.g(CLOUD)) >= 0),
                'agency-slot': ListOf(Opt(Ref('Agency'))).len(c.old.g('dawgie.pl.farm._agency')) == 1,     # module constant [None]; plow() assigns slot 0
                # a message is made only for a unit that was released (is in the job's `do`), never for one merely executing
                'unit-was-released': Or(OA.is_none(t), do_(c.old, c['job'])[OA.val(t)]),
                # every unit of one job released by one dispatch carries the same run id (it is drawn once per job)
                'one-run-id-per-job': Or(PUTRID.opt.is_none(c.old.g('ghost.put_runid')[c['job']]), PUTRID.opt.val(c.old.g('ghost.put_runid')[c['job']]) == c['runid'])}


def _unit(ex, e):
    t = ex.st.env['task']
    return V(unit_name(MSG.get(t.t, 'jobid'), MSG.get(t.t, 'target')), ATOM)


@contract(W, 'dawgie/pl/farm.py', 'Hand.do', props=['C03', 'C11'])
class hand_do(ContractBase):
    params = {'self': HAND, 'task': MSG}
    modifies = [BUSY, 'dawgie.pl.farm._time', 'Hand.ghost_sent']
    abstract = {"task.jobid + '[' + (task.target if task.target else '__all__') + ']'": _unit, 'datetime.datetime.now()': ATOM,
                '_busy[-1]': ATOM}

    def ensures(c):
        s, t = c['self'], c['task']
        o = c.sk('o', HAND)
        u = c.sk('u', ATOM)
        name = unit_name(MSG.get(t, 'jobid'), MSG.get(t, 'target'))
        return {'busy-gets-the-unit': And(c.cur.g(BUSY)[name], Implies(u != name, c.cur.g(BUSY)[u] == c.old.g(BUSY)[u])),
                'task-sent-to-this-worker-only': And(sent(c.cur, s) == z3.Concat(sent(c.old, s), z3.Unit(t)),
                                                     Implies(o != s, sent(c.cur, o) == sent(c.old, o)))}


# ---------------------------------------------------------------- farm.dispatch
from pyvc.world import card_fn
W.declare_fields('Hand', ghost_tasks=INT)           # ghost: how many task messages this connection was handed (Hand.do)
W.declare_global('ghost.archive_triggered', BOOL)
TASKS = 'Hand.ghost_tasks'
hand_do.modifies = hand_do.modifies + [TASKS]
_do_ens = hand_do.ensures


def _do_ensures(c):
    d = dict(_do_ens(c))
    o = c.sk('o', HAND)
    d['task-count'] = And(c.cur.f(TASKS, c['self']) == c.old.f(TASKS, c['self']) + 1, Implies(o != c['self'], c.cur.f(TASKS, o) == c.old.f(TASKS, o)))
    return d


def _do_on_call(ex, args, line):
    h = V(args['self'], HAND)
    ex.set_field(h, 'ghost_tasks', ex.binop(ast.Add(), ex.get_field(h, 'ghost_tasks'), 1, line), line)


hand_do.ensures = staticmethod(_do_ensures)
hand_do.ghost_body = staticmethod(_do_on_call)       # executed when Hand.do itself is verified (ghost statement at entry)

# rerunid may fail when the database does (dispatch anticipates it with a bare except)
c11_farm.rerunid.raises = {'Exception': 'maybe'}
W.externs['dawgie.db.next'].raises = {'Exception': 'maybe'}
W.externs['dawgie.pl.schedule.promote.more'] = Extern(fn=lambda ex, args, kwargs, e: False)      # A2
W.externs['importlib.import_module'] = Extern(fn=lambda ex, args, kwargs, e: Dotted('ae_module'))
W.externs['dawgie.util.task_name'] = Extern(ret=ATOM)


def _archiving_trigger(ex, recv, args, kwargs, line):
    """assumed (C10): archiving_trigger leaves `running`, so the pipeline is no longer active; ghost flag"""
    ex._note_write('ghost.archive_triggered', line)
    ex.st.glob['ghost.archive_triggered'] = z3.BoolVal(True)
    ex.set_field(recv, 'state', V(FSMSTATE.const('archiving'), FSMSTATE), line)
    return None


def _dyn_factory(ex, obj, name, e):
    if isinstance(obj, Dotted) and obj.path == 'ae_module':
        return Dotted('ae_factory')
    return None


W.dyn_getattr_hooks.append(_dyn_factory)


ROUTINES = ListSet(Ref('Alg'))
W.externs['ae_factory'] = Extern(fn=lambda ex, args, kwargs, e: V(ex.fresh('bot', Ref('Bot')), Ref('Bot')))
W.methods[('Bot', 'routines')] = lambda ex, r, a, k, l: ex.newbox(ex.fresh('routines', ROUTINES), ROUTINES)
W.methods[('Alg', 'name')] = lambda ex, r, a, k, l: V(ex.fresh('algname', ATOM), ATOM)
W.methods[('Alg', 'where')] = lambda ex, r, a, k, l: V(ex.fresh('where', DIST), DIST)


@contract(W, 'dawgie/pl/farm.py', '_cluster_sort', props=['C03', 'C11'])
class cluster_sort(ContractBase):
    """assumed: sorting permutes the queued messages (list.sort with a comparator)"""
    params = {}
    modifies = [CLUSTER]
    stub = True

    def ensures(c):
        return {'same-length': LM.len(c.cur.g(CLUSTER)) == LM.len(c.old.g(CLUSTER))}


@contract(W, 'dawgie/pl/farm.py', '_workers_sort', props=['C03', 'C11'])
class workers_sort(ContractBase):
    """assumed: regroups the idle workers by host without adding or dropping any"""
    params = {}
    modifies = []
    stub = True


def J_do(view):
    """released-but-not-yet-queued work is never forgotten: a node with something in `do` is in farm._jobs"""
    n = z3.Const('jd_n', NODE.sort())
    t = z3.Const('jd_t', ATOM.sort())
    return z3.ForAll([n, t], Implies(do_(view, n)[t], view.g(JOBS)[n]))


@contract(W, 'dawgie/pl/farm.py', 'dispatch', props=['C03', 'C11'])
class dispatch(ContractBase):
    params = {}
    modifies = ['ghost.put_runid', JOBS, CLUSTER, CLOUD, BUSY, WK, 'dawgie.pl.farm._time', 'dawgie.pl.farm._reject', 'dawgie.pl.farm._repeat', 'Hand.ghost_sent', TASKS,
                'Transport.closed', 'Node.todo', 'Node.doing', 'Node.do', 'Node.status', 'FSM.state', 'ghost.archive_triggered']
    assumes = [fsm_distinct_events]
    methods = {('FSM', 'archiving_trigger'): _archiving_trigger}
    abstract = {"j.tag.split('.')[-1]": ATOM}
    locals = {'where': DIST}

    def requires(c):
        LR = ListOf(MSG)
        return {'J_do': J_do(c.old), 'not-archived-yet': Not(c.old.g('ghost.archive_triggered')),
                'lens': And(LM.len(c.old.g(CLUSTER)) >= 0, LM.len(c.old.g(CLOUD)) >= 0, LR.len(c.old.g('dawgie.pl.farm._reject')) >= 0,
                            ListOf(Opt(Ref('Agency'))).len(c.old.g('dawgie.pl.farm._agency')) == 1),
                'no-cloud-agency': Opt(Ref('Agency')).is_none(ListOf(Opt(Ref('Agency'))).arr(c.old.g('dawgie.pl.farm._agency'))[0]),
                # only the cloud agency's callback (_move) ever fills these two lists
                'nothing-rejected-or-repeated': And(LR.len(c.old.g('dawgie.pl.farm._reject')) == 0, LR.len(c.old.g('dawgie.pl.farm._repeat')) == 0),
                'no-unit-put-yet': c.old.g('ghost.put_runid') == PUTRID.empty()}

    def ensures(c):
        h = c.sk('h', HAND)
        n, t = c.sk('n', NODE), c.sk('t', ATOM)
        got = c.cur.f(TASKS, h) - c.old.f(TASKS, h)
        return {'gate.nothing-while-inactive': Implies(Not(fsm_active(c.old)),
                                                       And(got == 0, sent(c.cur, h) == sent(c.old, h), c.cur.g(CLUSTER) == c.old.g(CLUSTER),
                                                           c.cur.g(WK) == c.old.g(WK), c.cur.g(JOBS) == c.old.g(JOBS), do_(c.cur, n)[t] == do_(c.old, n)[t])),
                'no-task-once-archiving': Implies(c.cur.g('ghost.archive_triggered'), got == 0),
                'tasks-only-to-listed-workers-one-each': And(got >= 0, got <= 1, Implies(got == 1, c.old.g(WK)[h])),
                'busy-workers-leave-the-idle-list': Implies(got == 1, Not(c.cur.g(WK)[h])),
                'released-work-is-never-forgotten': J_do(c.cur)}

    def _inv_jobs(c):
        h = c.sk('h', HAND)
        n = c.sk('n', NODE)
        return {'J_do': J_do(c.cur),
                'no-tasks-yet': c.cur.f(TASKS, h) == c.old.f(TASKS, h),
                'workers': c.cur.g(WK) == c.old.g(WK),
                'archived': c.cur.g('ghost.archive_triggered') == c.entry.g('ghost.archive_triggered'),
                'lens': And(LM.len(c.cur.g(CLUSTER)) >= 0, LM.len(c.cur.g(CLOUD)) >= 0),
                'archive-means-nothing-queued': Implies(c.entry.g('ghost.archive_triggered'), And(c.it == ListSet(NODE).empty(), LM.len(c.cur.g(CLUSTER)) == 0)),
                'units-only-of-jobs-handled': Implies(Not(PUTRID.opt.is_none(c.cur.g('ghost.put_runid')[n])), c.done[n])}

    def _inv_put(c):
        h = c.sk('h', HAND)
        n = c.sk('n', NODE)
        j = c.loc('j')
        P = c.cur.g('ghost.put_runid')
        outer = c.outer_done('for j in _jobs.copy()')
        return {'units-only-of-jobs-handled': Implies(And(Not(PUTRID.opt.is_none(P[n])), n != j), outer[n]),
                # (regressions always run under id 0, the others under the id drawn once for the job)
                'one-run-id-for-this-job': Or(PUTRID.opt.is_none(P[j]), PUTRID.opt.val(P[j]) == If(
                    c.cur.f('Factory.__name__', c.cur.f('Node.factory', j)) == atom('regress'), 0, _drawn_once(c))),
                'J_do': J_do(c.cur), 'no-tasks-yet': c.cur.f(TASKS, h) == c.old.f(TASKS, h), 'workers': c.cur.g(WK) == c.old.g(WK),
                'jobs': c.cur.g(JOBS) == c.entry.g(JOBS), 'lens': And(LM.len(c.cur.g(CLUSTER)) >= 0, LM.len(c.cur.g(CLOUD)) >= 0)}

    def _inv_assign(c):
        h = c.sk('h', HAND)
        wk0, wk = c.entry.g(WK), c.cur.g(WK)
        cf = card_fn(ListSet(HAND))
        got = c.cur.f(TASKS, h) - c.entry.f(TASKS, h)
        return {'counts': And(cf(wk) == cf(wk0) - c.done, LM.len(c.cur.g(CLUSTER)) == LM.len(c.entry.g(CLUSTER)) - c.done, c.done >= 0),
                'one-each': And(got >= 0, got <= 1, got <= c.done, Implies(got == 1, And(wk0[h], Not(wk[h]))), Implies(wk[h], wk0[h])),
                'J_do': J_do(c.cur), 'archived': c.cur.g('ghost.archive_triggered') == c.entry.g('ghost.archive_triggered')}

    loops = {'for j in _jobs.copy()': Loop(inv=_inv_jobs, modifies=[JOBS, CLUSTER, CLOUD, 'Node.do', 'Node.status', 'ghost.put_runid']),
             'for alg in ': Loop(inv=lambda c: {}, modifies=[]),
             "for t in sorted(list(j.get('do')))": Loop(inv=_inv_put, modifies=[CLUSTER, CLOUD, 'ghost.put_runid']),
             'for dummy in range(': Loop(inv=_inv_assign, modifies=[WK, CLUSTER, BUSY, 'dawgie.pl.farm._time', 'Hand.ghost_sent', TASKS])}
