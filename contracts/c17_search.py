"""C17: run-id ranges, paging of shelve search results."""
from .base import *

OI = Opt(INT)


@contract(W, 'dawgie/db/basis.py', 'Range.__contains__', props=['C17'])
class range_contains(ContractBase):
    params = {'self': RANGE, 'member': INT}
    returns = BOOL
    modifies = []
    inline = True
    also_verify = True

    def ensures(c):
        r, m = c['self'], c['member']
        stop = RANGE.get(r, 'stop')
        return {'half-open': c.result == And(RANGE.get(r, 'start') <= m, Or(OI.is_none(stop), m < OI.val(stop)))}


@contract(W, 'dawgie/db/basis.py', 'Range.__ge__', props=['C17'])
class range_ge(ContractBase):
    params = {'self': RANGE, 'other': INT}
    returns = BOOL
    modifies = []
    inline = True
    also_verify = True

    def ensures(c):
        return {'start': c.result == (RANGE.get(c['self'], 'start') >= c['other'])}


SEARCHIMPL = Ref('SearchImplementation')
W.class_path['SearchImplementation'] = 'dawgie.db.shelve.search.SearchImplementation'
PARAMS = Ref('Params')
LPK = ListOf(PK)
LSTR = ListOf(STR)      # its sort is resolved at use (Str is opaque while _find is verified)
prime_keys_of = z3.Function('matching_prime_keys', PARAMS.sort(), LPK.sort())


@contract(W, 'dawgie/db/shelve/search.py', 'SearchImplementation._prime_keys', props=['C17'])
class prime_keys_stub(ContractBase):
    """what _find relies on: a pure function of the parameters and the store (its matching rule is decided by the bounded stand-in)"""
    params = {'self': SEARCHIMPL, 'parameters': PARAMS, 'keylen': INT}
    defaults = {'keylen': 5}
    returns = LPK
    modifies = []
    stub = True

    def ensures(c):
        return {'fn': c.result == prime_keys_of(c['parameters'])}


def fmt(view, pk):
    """the entry string of a prime key: the two nested f-strings of _find as functions of what they format"""
    from pyvc.core import fstring_fn
    idx = lambda t: LSTR.arr(view.g('DBI.indices.' + t))
    rid = fstring_fn('{}', [INT])(PK.get(pk, 'run'))
    return fstring_fn('{}.{}.{}.{}.{}', [STR] * 5)(rid, name_part(idx('target')[PK.get(pk, 'tgt')]), name_part(idx('task')[PK.get(pk, 'task')]),
                                                   name_part(idx('alg')[PK.get(pk, 'alg')]), name_part(idx('state')[PK.get(pk, 'sv')]))


def chain(view, pks):
    """R4: every id of a matching prime key indexes its table"""
    i = z3.Const('ch_i', z3.IntSort())
    g = lambda t: LSTR.len(view.g('DBI.indices.' + t))
    pk = LPK.arr(pks)[i]
    return z3.ForAll([i], Implies(And(0 <= i, i < LPK.len(pks)),
                                  And(PK.get(pk, 'run') >= 0, 0 <= PK.get(pk, 'tgt'), PK.get(pk, 'tgt') < g('target'), 0 <= PK.get(pk, 'task'), PK.get(pk, 'task') < g('task'),
                                      0 <= PK.get(pk, 'alg'), PK.get(pk, 'alg') < g('alg'), 0 <= PK.get(pk, 'sv'), PK.get(pk, 'sv') < g('state'))))


@contract(W, 'dawgie/db/shelve/search.py', 'SearchImplementation._find', props=['C17'])
class find_page(ContractBase):
    params = {'self': SEARCHIMPL, 'parameters': PARAMS, 'index': INT, 'limit': Opt(INT)}
    returns = SEARCHRESULTS
    modifies = []
    locals = {'items': LSTR}
    opaque_fstrings = True
    opaque_strings = True          # entries are only copied and compared for equality: no string theory needed

    def requires(c):
        lim = c['limit']
        return {'chain': chain(c.old, prime_keys_of(c['parameters'])), 'index': c['index'] >= 0,
                'limit': Or(OI.is_none(lim), OI.val(lim) >= 0), 'len': LPK.len(prime_keys_of(c['parameters'])) >= 0}

    @staticmethod
    def _page(c):
        pks = prime_keys_of(c['parameters'])
        n = LPK.len(pks)
        lo = If(c['index'] > n, n, c['index'])
        lim = c['limit']
        hi = If(OI.is_none(lim), n, If(c['index'] + OI.val(lim) > n, n, c['index'] + OI.val(lim)))
        return pks, lo, If(hi > lo, hi - lo, 0)

    def ensures(c):
        pks, lo, cnt = find_page._page(c)
        items = SEARCHRESULTS.get(c.result, 'items')
        j = z3.Const('pg_j', z3.IntSort())
        return {'total': SEARCHRESULTS.get(c.result, 'total') == LPK.len(pks),
                'page.size': LSTR.len(items) == cnt,
                'page.entries': z3.ForAll([j], Implies(And(0 <= j, j < cnt), LSTR.arr(items)[j] == fmt(c.old, LPK.arr(pks)[lo + j])))}

    def _inv(c):
        pks, lo, cnt = find_page._page(c)
        items = c.loc('items')
        j = z3.Const('pg_j', z3.IntSort())
        return {'size': LSTR.len(items) == c.done,
                'slice': And(LPK.len(c.it) == cnt, z3.ForAll([j], Implies(And(0 <= j, j < cnt), LPK.arr(c.it)[j] == LPK.arr(pks)[lo + j]))),
                'entries': z3.ForAll([j], Implies(And(0 <= j, j < c.done), LSTR.arr(items)[j] == fmt(c.old, LPK.arr(pks)[lo + j])))}
    loops = {'for pk in pks[': Loop(inv=_inv)}


def _pages_lemma():
    """consecutive pages tile the full list without gaps or repeats: entry j of page k (size L) is entry k*L+j of the
    full list, page sizes are min(L, n-k*L) clamped at 0, so entry i of the list is on page i div L at offset i mod L"""
    n, L, k, i = z3.Ints('pl_n pl_L pl_k pl_i')
    clamp = lambda x: If(x > n, n, x)
    lo = lambda kk: clamp(kk * L)
    cnt = lambda kk: If(clamp(kk * L + L) > lo(kk), clamp(kk * L + L) - lo(kk), 0)
    pre = And(n >= 0, L > 0, k >= 0)
    return [('pages-adjacent', Implies(pre, lo(k) + cnt(k) == lo(k + 1))),
            ('every-entry-on-exactly-one-page', Implies(And(pre, 0 <= i, i < n, k == i / L), And(lo(k) <= i, i < lo(k) + cnt(k)))),
            ('no-page-beyond-the-end', Implies(And(pre, k * L >= n), cnt(k) == 0))]


_pages_lemma._mod = __name__
W.lemmas = getattr(W, 'lemmas', []) + [('C17', 'pages', _pages_lemma)]


# ---------------------------------------------------------------- replay of counter-models on the real Range
def _range_replay(name):
    def replay(model, vc):
        import dawgie.db.basis as basis
        ev = lambda t: model.eval(t, model_completion=True)
        r = vc.inputs['self']
        start = ev(RANGE.get(r, 'start')).as_long()
        stop_t = RANGE.get(r, 'stop')
        stop = None if z3.is_true(ev(OI.is_none(stop_t))) else ev(OI.val(stop_t)).as_long()
        x = ev(vc.inputs['member' if name == '__contains__' else 'other']).as_long()
        real = basis.Range(start, stop)
        got = (x in real) if name == '__contains__' else (real >= x)
        want = (start <= x and (stop is None or x < stop)) if name == '__contains__' else (start >= x)
        return {'reproduced': bool(got) != want, 'input': {'range': [start, stop], 'value': x}, 'observed': got, 'expected': want}
    return staticmethod(replay)


range_contains.replay = _range_replay('__contains__')
range_ge.replay = _range_replay('__ge__')


# ------------------------------------------------------------------------------------------------ search._subset
from .c08_catalogue import TABLE as _TABLE17


@contract(W, 'dawgie/db/shelve/search.py', '_subset', props=['C17'])
class search_subset(ContractBase):
    """a name constraint selects the table entries whose own name (parent and version stripped) EQUALS the name"""
    params = {'from_table': _TABLE17, 'name': STR}
    returns = _TABLE17
    modifies = []
    opaque_strings = True

    def ensures(c):
        k = c.sk('k', STR)
        T = c['from_table']
        return {'exactly-the-entries-with-that-name': c.result[k] == If(And(Not(_TABLE17.opt.is_none(T[k])), name_part(k) == c['name']), T[k], _TABLE17.opt.none())}
