"""C16 / C20: tools.compliant.rule_10 — the gate accepts a package's timer events only when every event designates its
moment in exactly one way and every non-boot event carries a time of day: the shape schedule._delay relies on."""
import datetime as _dtm
from .base import *
from .calendar_model import *
from .c20_delay import EVENT, MOMENT, OB, ODATE, OI, OT

has_events = z3.Const('package_defines_events', z3.BoolSort())
events_set = z3.Const('package_events', SetOf(EVENT).sort())
_iu10 = W.isinstance_user


def _isinstance10(ex, v, c, e):
    """values are typed in this model: a day is a date, dom/dow are ints, a time is a time (their absence is None)"""
    path = getattr(c, 'path', None)
    if isinstance(v, V) and ((v.ty == DATE and (c is _dtm.date or path == 'datetime.date')) or (v.ty == TIME and (c is _dtm.time or path == 'datetime.time'))):
        return True
    if isinstance(v, V) and isinstance(v.ty, Opt) and v.ty.inner in (DATE, TIME):
        want = {DATE: ('datetime.date', _dtm.date), TIME: ('datetime.time', _dtm.time)}[v.ty.inner]
        if c is want[1] or path == want[0]:
            return V(Not(v.ty.is_none(v.t)), BOOL)
    return _iu10(ex, v, c, e)


W.isinstance_user = _isinstance10


def shaped(ev):
    """exactly one of boot/day/dom/dow designates the moment, and unless it is a boot event it has a time of day"""
    m = EVENT.get(ev, 'moment')
    boot, day, dom, dow, tm = [MOMENT.get(m, k) for k in ('boot', 'day', 'dom', 'dow', 'time')]
    nn = lambda o, x: If(o.is_none(x), 0, 1)
    return And(nn(OB, boot) + nn(ODATE, day) + nn(OI, dom) + nn(OI, dow) == 1, Implies(OB.is_none(boot), Not(OT.is_none(tm))))


w_bad = z3.Function('w_misshaped_event', SetOf(EVENT).sort(), EVENT.sort())


def some_bad(S):
    return And(S[w_bad(S)], Not(shaped(w_bad(S))))


@contract(W, 'dawgie/tools/compliant.py', 'rule_10', props=['C16', 'C20'])
class rule_10(ContractBase):
    params = {'task': ATOM}
    returns = BOOL
    modifies = []
    locals = {'findings': Bag(BOOL)}
    externs = {'importlib.import_module': Extern(fn=lambda ex, a, k, e: Dotted('ae_package10')),
               'ae_package10.events': Extern(fn=lambda ex, a, k, e: ex.newbox(events_set, SetOf(EVENT, listlike=True)))}
    abstract = {"'events' in dir(mod)": lambda ex, e: V(has_events, BOOL)}
    assumes = [lambda c: [QHyp([z3.Const('ch_S', SetOf(EVENT).sort()), z3.Const('ch_e', EVENT.sort())],
                               Implies(And(z3.Const('ch_S', SetOf(EVENT).sort())[z3.Const('ch_e', EVENT.sort())], Not(shaped(z3.Const('ch_e', EVENT.sort())))),
                                       some_bad(z3.Const('ch_S', SetOf(EVENT).sort()))), 'choice.bad-event')]]

    def ensures(c):
        return {'accepts-exactly-well-shaped-moments': c.result == Or(Not(has_events), Not(some_bad(events_set)))}

    def _inv(c):
        return {'findings': c.loc('findings')[z3.BoolVal(False)] == some_bad(c.done)}
    loops = {'for e in mod.events()': Loop(inv=_inv)}
