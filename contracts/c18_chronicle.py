"""C18: pl.logger.chronicle — the day walk of find() loads every existing day directory of the window exactly once,
newest first, with the caller's window and outcome, and truncates to the newest entries; _load keeps exactly the
entries of the outcome strictly inside the window; append adds the entry to its run's journal of its completion day."""
import ast as _ast
from .base import *
from .calendar_model import *

ENTRY = Ref('Entry')
ENTRIES = ListOf(ENTRY)
JPATH = Rec('JPATH', {'level': INT, 'y': INT, 'm': INT, 'd': INT})       # chronicles/<y>[/<m>[/<d>]]
ODT, OINT = Opt(DT), Opt(INT)

# the chronicles directory tree, by day number: trusted structure = a day directory lies inside its month and year
DD = z3.Function('day_dir_exists', z3.IntSort(), z3.BoolSort())
MD = z3.Function('month_dir_exists', z3.IntSort(), z3.IntSort(), z3.BoolSort())
YD = z3.Function('year_dir_exists', z3.IntSort(), z3.BoolSort())

W.declare_global('ghost.loaded', SetOf(INT))          # day numbers whose journal directory was handed to _load
W.declare_global('ghost.load_args_ok', BOOL)          # every _load call got the caller's window and outcome
W.declare_global('ghost.newest_first', BOOL)          # every _load call was for a day older than all earlier ones


def fs_structure(c):
    y, m, n = z3.Ints('fs_y fs_m fs_n')
    return [QHyp([y, m, n], Implies(And(1 <= m, m <= 12, days_from_civil(y, m, 1) <= n, n < days_from_civil(y, m, 1) + dim(y, m), DD(n)), MD(y, m)),
                 'fs.day-in-month', triggers=[(MD, (0, 1))]),
            QHyp([y, m], Implies(And(1 <= m, m <= 12, MD(y, m)), YD(y)), 'fs.month-in-year', triggers=[(MD, (0, 1))]),
            QHyp([y, n], Implies(And(days_from_civil(y, 1, 1) <= n, n <= days_from_civil(y, 12, 31), DD(n)), YD(y)), 'fs.day-in-year', triggers=[(YD, (0,))])]


def dt_lt(a, b):
    return Or(DT.get(a, 'days') < DT.get(b, 'days'), And(DT.get(a, 'days') == DT.get(b, 'days'), DT.get(a, 'us') < DT.get(b, 'us')))


def _order(ex, op, ty, ta, tb):
    if ty == DT:
        lt, gt = dt_lt(ta, tb), dt_lt(tb, ta)
        return {_ast.Lt: lt, _ast.Gt: gt, _ast.LtE: Not(gt), _ast.GtE: Not(lt)}[type(op)]
    return _prev_order(ex, op, ty, ta, tb)


_prev_order = W.order
W.order = _order
W.rec_methods[(DT.name, 'date')] = lambda ex, recv, args, kwargs, line: V(DT.get(recv.t, 'days'), INT)


def _jp(level, y, m, d):
    return V(JPATH.mk(*[x if not isinstance(x, int) else z3.IntVal(x) for x in (level, y, m, d)]), JPATH)


def _cursor_part(ex, part):
    cur = ex.st.env['cursor']
    return ex.getattr(cur, part, 0).t


def _join_year(ex, e):
    return _jp(1, _cursor_part(ex, 'year'), 0, 0)


def _join_month(ex, e):
    j = ex.st.env['journal'].t
    return _jp(2, JPATH.get(j, 'y'), _cursor_part(ex, 'month'), 0)


def _join_day(ex, e):
    j = ex.st.env['journal'].t
    return _jp(3, JPATH.get(j, 'y'), JPATH.get(j, 'm'), _cursor_part(ex, 'day'))


def _isdir(ex, e):
    j = ex.st.env['journal'].t
    lv, y, m, d = [JPATH.get(j, k) for k in ('level', 'y', 'm', 'd')]
    return V(If(lv == 1, YD(y), If(lv == 2, MD(y, m), And(lv == 3, valid_date(y, m, d), DD(days_from_civil(y, m, d))))), BOOL)


def _load_stub(ex, args, kwargs, e):
    """ghost record of one _load call; what _load returns is specified by its own contract below"""
    if len(args) != 4 or kwargs:
        # another calling convention than the one this contract was written for: contract drift, not a verdict
        raise Unsupported('_load is called with %d positional and %d keyword arguments (contract: after, before, journal, succeeded)' % (len(args), len(kwargs or {})))
    after, before, journal, succeeded = args
    st = ex.st
    j = ex.to_z3(journal, JPATH)
    day = days_from_civil(JPATH.get(j, 'y'), JPATH.get(j, 'm'), JPATH.get(j, 'd'))
    loaded = st.glob['ghost.loaded']
    older = z3.Int(ex.path.fresh_name('ld_n'))
    ex.vc('pre._load.day-directory@%d' % e.lineno, And(JPATH.get(j, 'level') == 3, DD(day)), e.lineno)
    ex.vc('pre._load.not-loaded-before@%d' % e.lineno, Not(loaded[day]), e.lineno)
    sk = ex.prove_ctx.sk('ld_n', INT)
    ex.vc('pre._load.older-than-all-loaded@%d' % e.lineno, Implies(loaded[sk], sk > day), e.lineno)
    a0, b0, _lim = effective(ex)
    ok = And(ex.to_z3(after, DT) == a0, ex.to_z3(before, DT) == b0, ex.to_z3(succeeded, BOOL) == ex.args['succeeded'])
    ex.vc('pre._load.callers-window-and-outcome@%d' % e.lineno, ok, e.lineno)
    ex._note_write('ghost.loaded', e.lineno)
    st.glob['ghost.loaded'] = z3.Store(loaded, day, True)
    r = ex.fresh('chunk', ENTRIES)
    ex.assume(ENTRIES.len(r) >= 0)
    return ex.newbox(r, ENTRIES)


EPOCH = DT.mk(days_from_civil(z3.IntVal(1980), z3.IntVal(1), z3.IntVal(1)), z3.IntVal(0))


def effective(ex):
    """the window and limit the caller asked for: after defaults to 1980-01-01, before to the current instant, and a
    limit is ignored when both ends are given"""
    after, before, limit = ex.args['after'], ex.args['before'], ex.args['limit']
    now = ex.st.ghost.get('now')
    a = If(ODT.is_none(after), EPOCH, ODT.val(after))
    b = ODT.val(before) if now is None else If(ODT.is_none(before), now, ODT.val(before))
    lim = If(And(Not(ODT.is_none(after)), Not(ODT.is_none(before))), OINT.none(), limit)
    return a, b, lim


@contract(W, 'dawgie/pl/logger/chronicle.py', 'find', props=['C18'])
class find(ContractBase):
    params = {'after': ODT, 'before': ODT, 'limit': OINT, 'succeeded': BOOL}
    defaults = {'after': None, 'before': None, 'limit': None, 'succeeded': True}
    returns = ENTRIES
    modifies = ['ghost.loaded']
    raises = {'ValueError': lambda c: And(ODT.is_none(c['after']), ODT.is_none(c['before']), OINT.is_none(c['limit']))}
    assumes = [fs_structure]
    locals = {'entries': ENTRIES, 'cursor': DT, 'journal': JPATH, 'limit': OINT, 'after': DT, 'before': DT}
    abstract = {"os.path.join(dawgie.context.data_dbs, 'chronicles', str(cursor.year))": _join_year,
                "os.path.join(journal, f'{cursor.month:02d}')": _join_month,
                "os.path.join(journal, f'{cursor.day:02d}')": _join_day,
                "os.path.isdir(journal)": _isdir}
    externs = {'dawgie.pl.logger.chronicle._load': Extern(fn=_load_stub)}

    def requires(c):
        ok = lambda o: Implies(Not(ODT.is_none(o)), And(DT.get(ODT.val(o), 'us') >= 0, DT.get(ODT.val(o), 'us') < DAY_US,
                                                      DT.get(ODT.val(o), 'days') >= days_from_civil(2, 1, 1), DT.get(ODT.val(o), 'days') <= days_from_civil(9000, 1, 1)))
        return {'valid-instants': And(ok(c['after']), ok(c['before'])), 'nothing-loaded-yet': c.old.g('ghost.loaded') == SetOf(INT).empty(),
                'limit-positive': Implies(Not(OINT.is_none(c['limit'])), OINT.val(c['limit']) > 0)}

    @staticmethod
    def _eff(c):
        return effective(c.ex)

    def ensures(c):
        a, b, lim = find._eff(c)
        n = c.sk('n', INT)
        i = c.sk('i', INT)
        loaded = c.cur.g('ghost.loaded')
        E = c.loc('entries')
        R = c.result
        oldest = And(dt_lt(EPOCH, a), Not(OINT.is_none(lim)))
        k = OINT.val(lim)
        in_window = And(DT.get(a, 'days') <= n, n <= DT.get(b, 'days'))
        return {
            # only day directories of the window are read
            'only-days-of-the-window': Implies(loaded[n], And(in_window, DD(n))),
            # without a limit every existing day directory of the window is read (exactly once: pre._load.not-loaded-before)
            'every-day-of-the-window': Implies(And(OINT.is_none(lim), in_window, DD(n)), loaded[n]),
            # with a limit the walk stops early only when it has enough, and then every day newer than any unread one is read
            'newest-days-first': Implies(And(in_window, DD(n), Not(loaded[n]), loaded[c.sk('m', INT)]), c.sk('m', INT) > n),
            'stops-early-only-when-enough': Implies(And(in_window, DD(n), Not(loaded[n])), And(Not(OINT.is_none(lim)), ENTRIES.len(E) >= k)),
            # what is returned: everything, the first `limit` (newest), or for an `after`-only query the last `limit` of what was read
            'all-without-limit': Implies(OINT.is_none(lim), And(ENTRIES.len(R) == ENTRIES.len(E), Implies(And(0 <= i, i < ENTRIES.len(E)), ENTRIES.arr(R)[i] == ENTRIES.arr(E)[i]))),
            'newest-limit': Implies(And(Not(OINT.is_none(lim)), Not(oldest)),
                                    And(ENTRIES.len(R) == If(k < ENTRIES.len(E), k, ENTRIES.len(E)),
                                        Implies(And(0 <= i, i < ENTRIES.len(R)), ENTRIES.arr(R)[i] == ENTRIES.arr(E)[i]))),
            'oldest-limit': Implies(oldest, And(ENTRIES.len(R) == If(k < ENTRIES.len(E), k, ENTRIES.len(E)),
                                                Implies(And(0 <= i, i < ENTRIES.len(R)), ENTRIES.arr(R)[i] == ENTRIES.arr(E)[i + ENTRIES.len(E) - ENTRIES.len(R)]))),
        }

    def _inv(c):
        a, b, lim = find._eff(c)
        n, m = c.sk('n', INT), c.sk('m', INT)
        loaded = c.cur.g('ghost.loaded')
        cur = c.loc('cursor')
        cd = DT.get(cur, 'days')
        return {'cursor-valid': And(DT.get(cur, 'us') >= 0, DT.get(cur, 'us') < DAY_US, cd <= DT.get(b, 'days'), cd >= days_from_civil(1, 1, 1)),
                'locals': And(c.loc('after') == a, c.loc('before') == b, c.loc('limit') == lim),
                'read-so-far': Implies(loaded[n], And(cd < n, n <= DT.get(b, 'days'), DT.get(a, 'days') <= n, DD(n))),
                'nothing-skipped': Implies(And(cd < n, n <= DT.get(b, 'days'), DD(n)), loaded[n]),
                'len': ENTRIES.len(c.loc('entries')) >= 0}
    loops = {'while (limit is None or len(entries) < limit) and cursor.date() >= after.date()': Loop(inv=_inv, modifies=['ghost.loaded'])}


# ------------------------------------------------------------------------------------------------ _load
FNAME = ATOM
files_in = z3.Function('files_in', JPATH.sort(), SetOf(FNAME).sort())                 # os.listdir(journal)
is_json = z3.Function('name_ends_with_json', FNAME.sort(), z3.BoolSort())
stored = z3.Function('entries_stored_in', JPATH.sort(), FNAME.sort(), SetOf(ENTRY).sort())   # json.load of that file
completed = z3.Function('completed_instant', ENTRY.sort(), DT.sort())                 # fromisoformat(entry['timing']['completed'])
outcome = z3.Function('recorded_outcome', ENTRY.sort(), ATOM.sort())                   # entry['status']
JFILE = Rec('JFILE', {'dir': JPATH, 'name': FNAME})
SUCCESS, FAILURE = atom('success'), atom('failure')
_cm18 = W.call_method


def _call_method18(ex, recv, name, args, kwargs, line):
    if isinstance(recv, V) and recv.ty == FNAME and name == 'endswith' and args == ['.json']:
        return V(is_json(recv.t), BOOL)
    if isinstance(recv, C) and isinstance(recv.ty, SetOf) and recv.ty.elem == ENTRY and name == 'sort':
        # the list of one day is ordered newest first: by the key whose contract says it leads with the completion time, reversed
        key, rev = kwargs.get('key'), kwargs.get('reverse', False)
        ok = isinstance(key, Dotted) and key.path.endswith('chronicle._most_recent_first') and rev is True
        ex.vc('post.sorted-newest-first@%d' % line, z3.BoolVal(bool(ok)), line, note='entries.sort(key=_most_recent_first, reverse=True) expected')
        return None
    return _cm18(ex, recv, name, args, kwargs, line)


W.call_method = _call_method18
_we18 = W.with_enter
JHANDLE = Rec('JHANDLE', {'file': JFILE})


def _with_enter18(ex, item, line):
    call = item.context_expr
    if isinstance(call, _ast.Call) and isinstance(call.func, _ast.Name) and call.func.id == 'open':
        p = ex.eval(call.args[0])
        if isinstance(p, V) and p.ty == JFILE:
            mode = call.args[1].value if len(call.args) > 1 else 'r'
            hook = getattr(ex.k, 'on_open', None)
            if hook is not None:
                hook(ex, p, mode, line)
            return V(JHANDLE.mk(p.t), JHANDLE)
    return _we18(ex, item, line)


W.with_enter = _with_enter18


def _listdir(ex, args, kwargs, e):
    return ex.newbox(files_in(ex.to_z3(args[0], JPATH)), SetOf(FNAME, listlike=True))


def _json_load_set(ex, args, kwargs, e):
    f = JHANDLE.get(ex.to_z3(args[0], JHANDLE), 'file')
    return ex.newbox(stored(JFILE.get(f, 'dir'), JFILE.get(f, 'name')), SetOf(ENTRY, listlike=True))


SE, SF = SetOf(ENTRY), SetOf(FNAME)
w_file = z3.Function('w_file_holding', SF.sort(), JPATH.sort(), ENTRY.sort(), FNAME.sort())


def held_in(D, j, e):
    """some *.json file among D of directory j stores e"""
    w = w_file(D, j, e)
    return And(D[w], files_in(j)[w], is_json(w), stored(j, w)[e])


def _choice18(c):
    D, fn, e = z3.Const('ch_D', SF.sort()), z3.Const('ch_fn', FNAME.sort()), z3.Const('ch_e', ENTRY.sort())
    j = c['journal']
    return [QHyp([D, fn, e], Implies(And(D[fn], files_in(j)[fn], is_json(fn), stored(j, fn)[e]), held_in(D, j, e)), 'choice.file')]


@contract(W, 'dawgie/pl/logger/chronicle.py', '_load', props=['C18'])
class load_(ContractBase):
    params = {'after': DT, 'before': DT, 'journal': JPATH, 'succeeded': BOOL}
    returns = Bag(ENTRY)
    modifies = []
    assumes = [_choice18]
    locals = {'entries': Bag(ENTRY)}
    externs = {'os.listdir': Extern(fn=_listdir), 'json.load': Extern(fn=_json_load_set)}
    abstract = {"os.path.join(journal, fn)": lambda ex, e: V(JFILE.mk(ex.to_z3(ex.st.env['journal'], JPATH), ex.to_z3(ex.st.env['fn'], FNAME)), JFILE),
                "datetime.fromisoformat(entry['timing']['completed'])": lambda ex, e: V(completed(ex.to_z3(ex.st.env['entry'], ENTRY)), DT),
                "entry['status']": lambda ex, e: V(outcome(ex.to_z3(ex.st.env['entry'], ENTRY)), ATOM)}

    def requires(c):
        return {}

    @staticmethod
    def _wanted(c, e):
        return And(dt_lt(c['after'], completed(e)), dt_lt(completed(e), c['before']), outcome(e) == If(c['succeeded'], SUCCESS, FAILURE))

    def ensures(c):
        e = c.sk('e', ENTRY)
        j = c['journal']
        return {'exactly-the-outcome-strictly-inside-the-window': c.result[e] == And(load_._wanted(c, e), held_in(files_in(j), j, e))}

    def _inv_files(c):
        e = c.sk('e', ENTRY)
        return {'kept': c.loc('entries')[e] == And(load_._wanted(c, e), held_in(c.done, c['journal'], e))}

    def _inv_entries(c):
        e = c.sk('e', ENTRY)
        outer = c.outer_done('for fn in filter(')
        return {'kept': c.loc('entries')[e] == And(load_._wanted(c, e), Or(held_in(outer, c['journal'], e), c.done[e]))}
    loops = {'for fn in filter(': Loop(inv=_inv_files), 'for entry in json.load(file)': Loop(inv=_inv_entries)}


# ------------------------------------------------------------------------------------------------ append
import datetime as _dtmod
TVAL = Rec('TVAL', {'is_dt': BOOL, 'dt': DT, 's': ATOM})                    # a timing value: a datetime or its text
TIMING = MapOf(ATOM, TVAL)
W.declare_fields('Entry', timing=TIMING, runid=INT)
iso = z3.Function('isoformat', DT.sort(), ATOM.sort())
parse = z3.Function('fromisoformat', ATOM.sort(), DT.sort())
AFILE = Rec('AFILE', {'day': INT, 'runid': INT})                            # chronicles/<y>/<mm>/<dd>/<runid>.json
AHANDLE = Rec('AHANDLE', {'file': AFILE})
JOURNALS = MapOf(AFILE, ENTRIES)
W.declare_global('ghost.journals', JOURNALS)                                 # the content of every journal file
COMPLETED = atom('completed')


def instant(tv):
    return If(TVAL.get(tv, 'is_dt'), TVAL.get(tv, 'dt'), parse(TVAL.get(tv, 's')))


def _entry_index(ex, base, key, line):
    if isinstance(base, V) and base.ty == ENTRY and key == 'timing':
        return C(FieldLoc_('Entry.timing', base.t), TIMING)
    if isinstance(base, V) and base.ty == ENTRY and key == 'runid':
        return ex.get_field(base, 'runid', line)
    return None


W.index_hooks.append(_entry_index)
_iu18 = W.isinstance_user


def _isinstance18(ex, v, c, e):
    if (c is _dtmod.datetime or (isinstance(c, Dotted) and c.path == 'datetime.datetime')) and isinstance(v, V) and v.ty == TVAL:
        return V(TVAL.get(v.t, 'is_dt'), BOOL)
    return _iu18(ex, v, c, e)


W.isinstance_user = _isinstance18
W.rec_methods[(TVAL.name, 'isoformat')] = lambda ex, recv, args, kwargs, line: V(TVAL.mk(z3.BoolVal(False), TVAL.get(recv.t, 'dt'), iso(TVAL.get(recv.t, 'dt'))), TVAL)
_we18b = W.with_enter


def _with_enter18b(ex, item, line):
    call = item.context_expr
    if isinstance(call, _ast.Call) and isinstance(call.func, _ast.Name) and call.func.id == 'open':
        p = ex.eval(call.args[0])
        if isinstance(p, V) and p.ty == AFILE:
            mode = call.args[1].value if len(call.args) > 1 else 'r'
            if 'w' in mode:         # opening for writing truncates
                ex._note_write('ghost.journals', line)
                ex.st.glob['ghost.journals'] = z3.Store(ex.st.glob['ghost.journals'], p.t, JOURNALS.opt.some(ENTRIES.empty()))
            else:
                ex.maybe_raise('FileNotFoundError', JOURNALS.opt.is_none(ex.st.glob['ghost.journals'][p.t]), line)
            return V(AHANDLE.mk(p.t), AHANDLE)
    return _we18b(ex, item, line)


W.with_enter = _with_enter18b


def _day_dir(ex, e):
    """chronicles/<the date part of the completion text, '-' replaced by the path separator>"""
    ent = ex.st.env['entry']
    tm = ex.read(C(FieldLoc_('Entry.timing', ent.t), TIMING))
    ex.vc('safe.KeyError@%d' % e.lineno, Not(TIMING.opt.is_none(tm[COMPLETED])), e.lineno)
    tv = TIMING.opt.val(tm[COMPLETED])
    ex.vc('safe.str-method-on-datetime@%d' % e.lineno, Not(TVAL.get(tv, 'is_dt')), e.lineno)
    return V(DT.get(parse(TVAL.get(tv, 's')), 'days'), INT)


def _journal_file(ex, e):
    return V(AFILE.mk(ex.to_z3(ex.st.env['journal'], INT), ex.get_field(ex.st.env['entry'], 'runid', e.lineno).t), AFILE)


def _json_load_list(ex, args, kwargs, e):
    f = AHANDLE.get(ex.to_z3(args[0], AHANDLE), 'file')
    return ex.newbox(JOURNALS.opt.val(ex.st.glob['ghost.journals'][f]), ENTRIES)


def _json_dump(ex, args, kwargs, e):
    f = AHANDLE.get(ex.to_z3(args[1], AHANDLE), 'file')
    ex._note_write('ghost.journals', e.lineno)
    ex.st.glob['ghost.journals'] = z3.Store(ex.st.glob['ghost.journals'], f, JOURNALS.opt.some(ex.to_z3(args[0], ENTRIES)))
    return None


has_keys = z3.Function('has_the_seven_keys', ENTRY.sort(), z3.BoolSort())


@contract(W, 'dawgie/pl/logger/chronicle.py', 'append', props=['C18'])
class append_(ContractBase):
    params = {'entry': ENTRY}
    modifies = ['ghost.journals', 'Entry.timing']
    raises = {'TypeError': lambda c: Not(has_keys(c['entry']))}
    locals = {'entries': ENTRIES, 'journal': None}
    externs = {'json.load': Extern(fn=_json_load_list), 'json.dump': Extern(fn=_json_dump), 'os.makedirs': Extern(fn=lambda ex, a, k, e: None)}
    abstract = {"all((key in entry for key in ['changeset', 'runid', 'status', 'target', 'task', 'timing', 'version']))": lambda ex, e: V(has_keys(ex.to_z3(ex.st.env['entry'], ENTRY)), BOOL),
                "os.path.join(dawgie.context.data_dbs, 'chronicles', entry['timing']['completed'].split(' ')[0].replace('-', os.path.sep))": _day_dir,
                "os.path.isdir(journal)": BOOL,
                "os.path.join(journal, f*": _journal_file,        # f'{entry["runid"]}.json' (unparsed differently by 3.11/3.12)
                "os.path.isfile(journal)": lambda ex, e: V(Not(JOURNALS.opt.is_none(ex.st.glob['ghost.journals'][ex.to_z3(ex.st.env['journal'], AFILE)])), BOOL)}

    @staticmethod
    def _tm(v, c):
        return v.f('Entry.timing', c['entry'])

    def requires(c):
        k = c.sk('rk', ATOM)
        tm = append_._tm(c.old, c)
        tv = TIMING.opt.val(tm[k])
        return {'completion-time-present': Not(TIMING.opt.is_none(tm[COMPLETED])),
                # A: isoformat/fromisoformat are inverse on the instants in use
                'iso-round-trip': Implies(Not(TIMING.opt.is_none(tm[k])), parse(iso(TVAL.get(tv, 'dt'))) == TVAL.get(tv, 'dt'))}

    def ensures(c):
        e = c['entry']
        tm0, tm1 = append_._tm(c.old, c), append_._tm(c.cur, c)
        day = DT.get(instant(TIMING.opt.val(tm0[COMPLETED])), 'days')
        f = AFILE.mk(day, c.old.f('Entry.runid', e))
        J0, J1 = c.old.g('ghost.journals'), c.cur.g('ghost.journals')
        L0 = If(JOURNALS.opt.is_none(J0[f]), ENTRIES.empty(), JOURNALS.opt.val(J0[f]))
        L1 = JOURNALS.opt.val(J1[f])
        i = c.sk('i', INT)
        g = c.sk('g', AFILE)
        k = c.sk('k', ATOM)
        return {'journal-of-the-completion-day-and-run': Not(JOURNALS.opt.is_none(J1[f])),
                'appended-exactly-once': And(ENTRIES.len(L1) == ENTRIES.len(L0) + 1, ENTRIES.arr(L1)[ENTRIES.len(L0)] == e),
                'earlier-entries-kept': Implies(And(0 <= i, i < ENTRIES.len(L0)), ENTRIES.arr(L1)[i] == ENTRIES.arr(L0)[i]),
                'other-journals-untouched': Implies(g != f, J1[g] == J0[g]),
                'times-recorded-as-given': And(TIMING.opt.is_none(tm1[k]) == TIMING.opt.is_none(tm0[k]),
                                               Implies(Not(TIMING.opt.is_none(tm0[k])), And(instant(TIMING.opt.val(tm1[k])) == instant(TIMING.opt.val(tm0[k])),
                                                                                            Not(TVAL.get(TIMING.opt.val(tm1[k]), 'is_dt')))))}

    def _inv(c):
        tm0, tm1 = append_._tm(c.old, c), append_._tm(c.cur, c)
        k = c.sk('k', ATOM)
        tv0, tv1 = TIMING.opt.val(tm0[k]), TIMING.opt.val(tm1[k])
        PAIR = Tup(ATOM, TVAL)
        return {'same-keys': TIMING.opt.is_none(tm1[k]) == TIMING.opt.is_none(tm0[k]),
                'same-instants': Implies(Not(TIMING.opt.is_none(tm0[k])), instant(tv1) == instant(tv0)),
                'visited-are-text': Implies(And(Not(TIMING.opt.is_none(tm0[k])), c.done[PAIR.mk(k, tv0)]), Not(TVAL.get(tv1, 'is_dt'))),
                'unvisited-untouched': Implies(Not(c.done[PAIR.mk(k, tv0)]), tm1[k] == tm0[k]),
                'journals': c.cur.g('ghost.journals') == c.old.g('ghost.journals')}
    loops = {"for (key, value) in entry['timing'].items()": Loop(inv=_inv, modifies=['Entry.timing'])}


# ------------------------------------------------------------------------------------------------ replay of find()
def _run_find_case(after, before, limit, succeeded, now, existing):
    """run the real chronicle.find on a scratch chronicles tree with exactly the day directories `existing`, a recording
    _load (two entries per day) and a fixed clock; judge the recorded day walk and the slice with a plain Python oracle"""
    import datetime as dtm
    import os
    import shutil
    import tempfile
    import dawgie.context
    import dawgie.pl.logger.chronicle as chron
    root = tempfile.mkdtemp(prefix='c18_replay_')
    saved_dbs, saved_load, saved_dt = dawgie.context.data_dbs, chron._load, chron.datetime
    calls = []
    existing = sorted(set(existing), reverse=True)
    inp = {'after': str(after), 'before': str(before), 'limit': limit, 'succeeded': succeeded, 'now': str(now), 'day_directories': [str(x) for x in existing]}
    try:
        for d in existing:
            os.makedirs(os.path.join(root, 'chronicles', '%04d' % d.year, '%02d' % d.month, '%02d' % d.day))

        def fake_load(a, b, journal, s):
            y, m, dd = [int(x) for x in journal.split(os.sep)[-3:]]
            calls.append((dtm.date(y, m, dd), a, b, s))
            return [{'day': (y, m, dd), 'k': k} for k in range(2)]

        class FakeDT(dtm.datetime):
            @classmethod
            def now(cls, tz=None):
                return cls(now.year, now.month, now.day, now.hour, now.minute, now.second, now.microsecond, tzinfo=dtm.UTC)
        dawgie.context.data_dbs = root
        chron._load = fake_load
        chron.datetime = FakeDT
        try:
            got = chron.find(after, before, limit, succeeded)
        except ValueError:
            ok = after is None and before is None and limit is None
            return {'reproduced': not ok, 'input': inp, 'observed': 'ValueError', 'expected': 'only when all three are None'}
        except Exception as e:
            return {'reproduced': True, 'input': inp, 'observed': '%s: %s' % (type(e).__name__, e), 'expected': 'no exception'}
        eff_limit = None if (after is not None and before is not None) else limit
        a_eff = after or dtm.datetime(1980, 1, 1, tzinfo=dtm.UTC)
        b_eff = before or FakeDT.now()
        window = [x for x in existing if a_eff.date() <= x <= b_eff.date()]
        problems = []
        days = [c_[0] for c_ in calls]
        if days != sorted(set(days), reverse=True):
            problems.append('day directories not read once each, newest first: %s' % [str(x) for x in days])
        if any(x not in window for x in days):
            problems.append('a day outside the window was read')
        if any((c_[1], c_[2], c_[3]) != (a_eff, b_eff, succeeded) for c_ in calls):
            problems.append('_load was not given the window and outcome of the caller')
        if eff_limit is None and days != window:
            problems.append('not every day directory of the window was read')
        if eff_limit is not None and (days != window[:len(days)] or (len(days) < len(window) and 2 * len(days) < eff_limit)):
            problems.append('stopped early without enough entries, or skipped a newer day')
        read = [e_ for d_ in days for e_ in [{'day': (d_.year, d_.month, d_.day), 'k': k} for k in range(2)]]
        oldest = after is not None and a_eff > dtm.datetime(1980, 1, 1, tzinfo=dtm.UTC) and eff_limit is not None
        want = read if eff_limit is None else (read[-eff_limit:] if oldest else read[:eff_limit])
        if got != want:
            problems.append('result is not the expected slice of what was read')
        return {'reproduced': bool(problems), 'input': inp, 'observed': {'days_read': [str(x) for x in days], 'returned': len(got), 'problems': problems},
                'expected': 'every existing day directory of the window once, newest first, with the window of the caller; the right slice'}
    finally:
        dawgie.context.data_dbs, chron._load, chron.datetime = saved_dbs, saved_load, saved_dt
        shutil.rmtree(root, ignore_errors=True)


def _find_replay(model, vc):
    """rebuild the query, the clock and the day directories from the solver's model and run the real find; the model of a
    loop-step obligation describes an intermediate state, so when it does not reproduce, the query is varied over a small
    grid (after/before present or not, limits 1..5, day directories across a month and a year boundary)"""
    import datetime as dtm
    ev = lambda t: model.eval(t, model_completion=True)
    base = z3.simplify(days_from_civil(z3.IntVal(2000), z3.IntVal(1), z3.IntVal(1))).as_long()
    first = None
    try:
        def instant(t):
            days, us = ev(DT.get(t, 'days')).as_long(), ev(DT.get(t, 'us')).as_long()
            return dtm.datetime(2000, 1, 1, tzinfo=dtm.UTC) + dtm.timedelta(days=days - base, microseconds=us)
        opt_dt = lambda o: None if z3.is_true(ev(ODT.is_none(o))) else instant(ODT.val(o))
        after, before = opt_dt(vc.inputs['after']), opt_dt(vc.inputs['before'])
        lim_t = vc.inputs['limit']
        limit = None if z3.is_true(ev(OINT.is_none(lim_t))) else ev(OINT.val(lim_t)).as_long()
        succeeded = z3.is_true(ev(vc.inputs['succeeded']))
        now = instant(vc.inputs['now']) if 'now' in vc.inputs else (before or dtm.datetime(2030, 1, 1, tzinfo=dtm.UTC))
        lo = after or dtm.datetime(1980, 1, 1, tzinfo=dtm.UTC)
        hi = before or now
        span = min(max((hi.date() - lo.date()).days, 0), 20000)
        existing = []
        d = hi.date() + dtm.timedelta(days=2)
        stop = hi.date() - dtm.timedelta(days=span + 40)
        while d >= stop and d.year >= 2:
            if z3.is_true(ev(DD(z3.IntVal((d - dtm.date(2000, 1, 1)).days + base)))):
                existing.append(d)
            d -= dtm.timedelta(days=1)
        first = _run_find_case(after, before, limit, succeeded, now, existing)
        if first.get('reproduced'):
            return first
    except (OverflowError, ValueError) as e:
        first = {'reproduced': False, 'error': 'model outside the datetime range: %s' % e}
    U = dtm.UTC
    days = [dtm.date(2023, 12, 30), dtm.date(2023, 12, 31), dtm.date(2024, 1, 1), dtm.date(2024, 2, 28), dtm.date(2024, 3, 1), dtm.date(2024, 3, 2)]
    now = dtm.datetime(2024, 3, 2, 12, 0, 0, tzinfo=U)
    afters = [None, dtm.datetime(2023, 12, 31, 6, 0, 0, tzinfo=U), dtm.datetime(2024, 1, 1, 0, 0, 0, tzinfo=U)]
    befores = [None, dtm.datetime(2024, 3, 1, 18, 0, 0, tzinfo=U), dtm.datetime(2024, 1, 1, 23, 0, 0, tzinfo=U)]
    for a in afters:
        for b in befores:
            for lim in (None, 1, 2, 3, 5):
                if a is None and b is None and lim is None:
                    continue
                r = _run_find_case(a, b, lim, True, now, days)
                if r.get('reproduced'):
                    r['found_by'] = 'varying the counter-model over a small grid of queries'
                    return r
    return first


find.replay = staticmethod(_find_replay)


# ------------------------------------------------------------------------------------------------ the sort key
completed_text = z3.Function('completion_time_text', ENTRY.sort(), ATOM.sort())      # entry['timing']['completed'] (ISO text: text order = time order)
SORTKEY = Tup(ATOM, INT, ATOM, ATOM)


@contract(W, 'dawgie/pl/logger/chronicle.py', '_most_recent_first', props=['C18'])
class most_recent_first(ContractBase):
    """entries of one day are compared by completion time first (run id, target, task only break ties)"""
    params = {'entry': ENTRY}
    returns = SORTKEY
    modifies = []
    abstract = {"entry['timing']['completed']": lambda ex, e: V(completed_text(ex.to_z3(ex.st.env['entry'], ENTRY)), ATOM),
                "int(entry['runid'])": lambda ex, e: ex.get_field(ex.st.env['entry'], 'runid', e.lineno),
                "entry['target']": ATOM, "entry['task']": ATOM}

    def ensures(c):
        return {'completion-time-leads': SORTKEY.get(c.result, '_0') == completed_text(c['entry']),
                'run-id-breaks-ties': SORTKEY.get(c.result, '_1') == c.old.f('Entry.runid', c['entry'])}
