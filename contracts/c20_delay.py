"""C20: schedule._delay — computable for every accepted specification and every instant, lands on its moment,
lies within one period."""
from .base import *
from .calendar_model import *

MOMENT = Rec('MOMENT', {'boot': Opt(BOOL), 'day': Opt(DATE), 'dom': Opt(INT), 'dow': Opt(INT), 'time': Opt(TIME)})
EVENT = Rec('EVENT', {'algref': ATOM, 'moment': MOMENT})
W.declare_global('dawgie.pl.schedule.booted', Bag(EVENT))
OB, ODATE, OI, OT = Opt(BOOL), Opt(DATE), Opt(INT), Opt(TIME)


def accepted(ev):
    """what tools.compliant.rule_10 accepts, with the day-of-month / day-of-week ranges of the property"""
    m = EVENT.get(ev, 'moment')
    boot, day, dom, dow, tm = [MOMENT.get(m, k) for k in ('boot', 'day', 'dom', 'dow', 'time')]
    nn = lambda o, x: If(o.is_none(x), 0, 1)
    t = OT.val(tm)
    tok = And(0 <= TIME.get(t, 'hour'), TIME.get(t, 'hour') < 24, 0 <= TIME.get(t, 'minute'), TIME.get(t, 'minute') < 60,
              0 <= TIME.get(t, 'second'), TIME.get(t, 'second') < 60)
    d = ODATE.val(day)
    return And(nn(OB, boot) + nn(ODATE, day) + nn(OI, dom) + nn(OI, dow) == 1,
               Implies(OB.is_none(boot), And(Not(OT.is_none(tm)), tok)),
               Implies(Not(ODATE.is_none(day)), valid_date(DATE.get(d, 'year'), DATE.get(d, 'month'), DATE.get(d, 'day'))),
               Implies(Not(OI.is_none(dom)), And(1 <= OI.val(dom), OI.val(dom) <= 31)),
               Implies(Not(OI.is_none(dow)), And(0 <= OI.val(dow), OI.val(dow) <= 6)))


@contract(W, 'dawgie/pl/schedule.py', '_delay', props=['C20'])
class delay(ContractBase):
    params = {'when': EVENT}
    returns = TD
    modifies = []
    raises = {'_DelayNotKnowableError': lambda c: And(Not(OB.is_none(MOMENT.get(EVENT.get(c['when'], 'moment'), 'boot'))),
                                                      c.old.g('dawgie.pl.schedule.booted')[c['when']])}

    def requires(c):
        return {'accepted-by-rule_10': accepted(c['when'])}

    def ensures(c):
        ev = c['when']
        m = EVENT.get(ev, 'moment')
        boot, day, dom, dow, tm = [MOMENT.get(m, k) for k in ('boot', 'day', 'dom', 'dow', 'time')]
        now = c.ex.st.ghost['now']
        res = c.result
        target = dt_plus(now, res)
        tdays, tus = DT.get(target, 'days'), DT.get(target, 'us')
        rd, rus = TD.get(res, 'days'), TD.get(res, 'us')
        within = lambda n: And(Or(rd < n, And(rd == n, rus == 0)), rd >= -1)       # -1 day < result <= n days
        t = OT.val(tm)
        at_time = tus == (TIME.get(t, 'hour') * 3600 + TIME.get(t, 'minute') * 60 + TIME.get(t, 'second')) * 1000000
        # the designated month: the current one while its day has not passed, else the next (the reading under which
        # 'matches the specification' and 'no further than one period ahead' can both hold); day clamped to its length
        ny0, nm0, nd0 = c.ex.st.ghost['ymd'][now.get_id()][:3]
        m1 = nm0 + If(OI.val(dom) < nd0, 1, 0)
        y, mo = ny0 + If(m1 == 13, 1, 0), If(m1 == 13, 1, m1)
        d = If(OI.val(dom) < dim(y, mo), OI.val(dom), dim(y, mo))
        dd = ODATE.val(day)
        return {
            'boot.immediately': Implies(Not(OB.is_none(boot)), And(rd == 0, rus == 0)),
            'dow.matches': Implies(Not(OI.is_none(dow)), And(isoweekday(tdays) - 1 == OI.val(dow), at_time)),
            'dow.within-a-week': Implies(Not(OI.is_none(dow)), within(7)),
            'dom.matches-clamped': Implies(Not(OI.is_none(dom)), And(valid_date(y, mo, d), tdays == days_from_civil(y, mo, d), at_time)),
            'dom.within-a-month': Implies(Not(OI.is_none(dom)), within(31)),
            'day.matches': Implies(Not(ODATE.is_none(day)),
                                   And(tdays == days_from_civil(DATE.get(dd, 'year'), DATE.get(dd, 'month'), DATE.get(dd, 'day')), at_time)),
        }


# ---------------------------------------------------------------- replay of a counter-model on the real schedule._delay
def _mv(model, t):
    v = model.eval(t, model_completion=True)
    if z3.is_int_value(v):
        return v.as_long()
    if z3.is_true(v):
        return True
    if z3.is_false(v):
        return False
    return str(v)


def _replay(model, vc):
    """build the concrete event and clock from the solver's model, run the real function, judge it with a plain
    Python oracle written from the property statement"""
    import calendar
    import datetime as dtm
    import types
    import dawgie
    import dawgie.pl.schedule as sched
    ev, now = vc.inputs.get('when'), vc.inputs.get('now')
    if ev is None or now is None:
        return None
    m = EVENT.get(ev, 'moment')
    g = lambda k: MOMENT.get(m, k)
    opt = lambda o, t, f: None if _mv(model, o.is_none(t)) else f(o.val(t))
    boot = opt(OB, g('boot'), lambda x: _mv(model, x))
    day = opt(ODATE, g('day'), lambda x: dtm.date(_mv(model, DATE.get(x, 'year')), _mv(model, DATE.get(x, 'month')), _mv(model, DATE.get(x, 'day'))))
    dom = opt(OI, g('dom'), lambda x: _mv(model, x))
    dow = opt(OI, g('dow'), lambda x: _mv(model, x))
    tm = opt(OT, g('time'), lambda x: dtm.time(_mv(model, TIME.get(x, 'hour')), _mv(model, TIME.get(x, 'minute')), _mv(model, TIME.get(x, 'second'))))
    days, us = _mv(model, DT.get(now, 'days')), _mv(model, DT.get(now, 'us'))
    base = z3.simplify(days_from_civil(z3.IntVal(2000), z3.IntVal(1), z3.IntVal(1))).as_long()
    clock = dtm.datetime(2000, 1, 1, tzinfo=dtm.UTC) + dtm.timedelta(days=days - base, microseconds=us)

    class FakeDT(dtm.datetime):
        @classmethod
        def now(cls, tz=None):
            return cls(clock.year, clock.month, clock.day, clock.hour, clock.minute, clock.second, clock.microsecond, tzinfo=dtm.UTC)
    saved = sched.datetime
    sched.datetime = types.SimpleNamespace(datetime=FakeDT, timedelta=dtm.timedelta, UTC=dtm.UTC)
    event = dawgie.EVENT(algref=None, moment=dawgie.MOMENT(boot=boot, day=day, dom=dom, dow=dow, time=tm))
    already = _mv(model, vc_booted(vc)[ev]) if vc_booted(vc) is not None else False
    sched.booted.clear()
    if already:
        sched.booted.append(event)
    inp = {'now': clock.isoformat(), 'event': {'boot': boot, 'day': str(day), 'dom': dom, 'dow': dow, 'time': str(tm)}, 'already_booted': already}
    try:
        try:
            d = sched._delay(event)
        except sched._DelayNotKnowableError:
            ok = boot is not None and already
            return {'reproduced': not ok, 'input': inp, 'observed': '_DelayNotKnowableError', 'expected': 'only for a boot event already fired'}
        except Exception as e:
            return {'reproduced': True, 'input': inp, 'observed': '%s: %s' % (type(e).__name__, e), 'expected': 'no exception'}
        then = clock + d
        problems = []
        if boot is not None and d != dtm.timedelta(0):
            problems.append('boot delay is not zero')
        if dow is not None:
            if then.weekday() != dow or (then.hour, then.minute, then.second) != (tm.hour, tm.minute, tm.second):
                problems.append('moment does not match day-of-week/time')
            if not (dtm.timedelta(days=-1) < d <= dtm.timedelta(days=7)):
                problems.append('further than one week ahead')
        if dom is not None:
            want = min(dom, calendar.monthrange(then.year, then.month)[1])
            if then.day != want or (then.hour, then.minute, then.second) != (tm.hour, tm.minute, tm.second):
                problems.append('moment does not match (clamped) day-of-month/time')
            if not (dtm.timedelta(days=-1) < d <= dtm.timedelta(days=31)):
                problems.append('further than one month ahead')
        return {'reproduced': bool(problems), 'input': inp, 'observed': {'delay': str(d), 'moment': then.isoformat(), 'problems': problems},
                'expected': 'a moment matching the specification within one period'}
    finally:
        sched.datetime = saved
        sched.booted.clear()


def vc_booted(vc):
    return vc.inputs.get('booted0')


delay.replay = staticmethod(_replay)
