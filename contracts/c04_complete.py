"""C03 / C04 / C05 / C18: schedule.complete (one history entry, queue bookkeeping) and farm.Hand._res / _translate."""
from .base import *
from . import c01_release, c05_purge, c11_farm

QUE = 'dawgie.pl.schedule.que'
ENTRY = Rec('ChronicleEntry', {'status': ATOM, 'target': ATOM, 'task': ATOM, 'runid': Opt(INT)})
W.declare_global('ghost.chronicle', ListOf(ENTRY))        # ghost: what was handed to chronicle.append, in order
W.declare_global('dawgie.pl.schedule.err', Bag(ATOM))
W.declare_global('dawgie.pl.schedule.suc', Bag(ATOM))
LE = ListOf(ENTRY)
state_name = z3.Function('State_name', STATE.sort(), ATOM.sort())        # State.<member>.name


def _chronicle_append(ex, args, kwargs, e):
    d = args[0]
    if not isinstance(d, dict):
        raise Unsupported('chronicle.append of a computed entry')
    ent = V(ENTRY.mk(ex.to_z3(d['status'], ATOM), ex.to_z3(d['target'], ATOM), ex.to_z3(d['task'], ATOM), ex.to_z3(d['runid'], Opt(INT))), ENTRY)
    ex.call_method(ex.get_global('ghost.chronicle'), 'append', [ent], {}, e.lineno)
    return None


W.externs['dawgie.pl.logger.chronicle.append'] = Extern(fn=_chronicle_append)
W.methods[('Alg', 'asstring')] = lambda ex, r, a, k, l: V(ex.fresh('version', ATOM), ATOM)


def _enum_name(ex, base, attr):
    return None


_py_attr = W.py_attr


def _state_attr(ex, base, attr, line):
    return None


# `status.name` of a symbolic State member
_getattr_hooks = getattr(W, 'rec_attr_hooks', [])
_orig_getattr = None


def _install_enum_name():
    from pyvc import core
    orig = core.Exec.getattr

    def getattr2(self, base, attr, line=0):
        if isinstance(base, V) and base.ty == STATE and attr == 'name':
            return V(state_name(base.t), ATOM)
        return orig(self, base, attr, line)
    if not getattr(core.Exec, '_enum_name_patch', False):
        core.Exec.getattr = getattr2
        core.Exec._enum_name_patch = True


_install_enum_name()


@contract(W, 'dawgie/pl/schedule.py', 'complete', props=['C01', 'C02', 'C03', 'C04', 'C05', 'C18'])
class complete(ContractBase):
    params = {'job': NODE, 'runid': Opt(INT), 'target': ATOM, 'timing': Ref('Timing'), 'status': STATE}
    modifies = ['Node.doing', 'Node.status', QUE, 'ghost.chronicle', 'dawgie.pl.schedule.err', 'dawgie.pl.schedule.suc']
    # here the history is the ghost log of what is handed to chronicle.append (what append does with it: contracts/c18_chronicle.py)
    externs = {'dawgie.pl.logger.chronicle.append': Extern(fn=_chronicle_append)}
    abstract = {'datetime.datetime.now(datetime.UTC)': None, '{k: str(v) for k, v in timing.items()}': Ref('Timing'),
                "{'timing': timing, 'runid': runid, 'target': target, 'task': job.tag, 'changeset': dawgie.context.git_rev}": ATOM}

    def requires(c):
        return {'log': LE.len(c.old.g('ghost.chronicle')) >= 0}

    def ensures(c):
        j, tg = c['job'], c['target']
        n, t = c.sk('n', NODE), c.sk('t', ATOM)
        ch0, ch1 = c.old.g('ghost.chronicle'), c.cur.g('ghost.chronicle')
        i = z3.Int('ce_i')
        e = LE.arr(ch1)[LE.len(ch0)]
        idle = And(todo(c.old, j) == TGTS.empty(), doing(c.cur, j) == TGTS.empty())
        return {'executing.this-target-done': doing(c.cur, j)[t] == And(doing(c.old, j)[t], tg != ALL, t != tg),
                'executing.others-untouched': Implies(n != j, doing(c.cur, n)[t] == doing(c.old, n)[t]),
                'queue.leaves-iff-idle': que(c.cur)[n] == And(que(c.old)[n], Not(And(n == j, idle))),
                'queue.idle-means-idle': Implies(que(c.cur)[j], Not(idle)),
                'history.exactly-one-entry-with-the-outcome': And(
                    LE.len(ch1) == LE.len(ch0) + 1,
                    z3.ForAll([i], Implies(And(0 <= i, i < LE.len(ch0)), LE.arr(ch1)[i] == LE.arr(ch0)[i])),
                    ENTRY.get(e, 'status') == state_name(c['status']), ENTRY.get(e, 'target') == tg,
                    ENTRY.get(e, 'task') == tag(c.old, j), ENTRY.get(e, 'runid') == c['runid'])}


@contract(W, 'dawgie/pl/farm.py', 'Hand._translate', props=['C05'])
class translate(ContractBase):
    params = {'state': Opt(BOOL)}
    returns = STATE
    modifies = []
    inline = True
    also_verify = True

    def ensures(c):
        OB = Opt(BOOL)
        s = c['state']
        return {'three-outcomes': c.result == If(OB.is_none(s), STATE.const('invalid'), If(OB.val(s), STATE.const('success'), STATE.const('failure')))}


# ---------------------------------------------------------------- farm.Hand._res: a worker's reply
W.declare_global('ghost.update_calls', INT)          # ghost: how many times schedule.update ran
from .c03_farm import unit_name


@contract(W, 'dawgie/pl/schedule.py', 'update', props=['C02'])
class update_stub(ContractBase):
    """frame of schedule.update as _res needs it (its behaviour is specified in c02_update.py)"""
    params = {'values': Opt(ATOM), 'original': NODE, 'rid': Opt(INT)}
    modifies = ['Node.todo', 'Node.status', 'Node.runid', 'Node.event', QUE, 'ghost.update_calls']
    stub = True

    def ensures(c):
        n, t = c.sk('n', NODE), c.sk('t', ATOM)
        return {'called-once': c.cur.g('ghost.update_calls') == c.old.g('ghost.update_calls') + 1,
                'pending-only-grows': Implies(todo(c.old, n)[t], todo(c.cur, n)[t]),
                'queue-keeps-what-is-pending-or-executing': Implies(And(que(c.old)[n], Or(todo(c.old, n) != TGTS.empty(), doing(c.old, n) != TGTS.empty())), que(c.cur)[n]),
                'queue-has-no-idle-entry': Implies(que(c.cur)[n], Or(todo(c.cur, n) != TGTS.empty(), doing(c.cur, n) != TGTS.empty())),
                # (organize: nothing queued that has work afterwards is dropped - proved in c02_organize.py)
                'queued-entries-with-work-stay': Implies(And(que(c.old)[n], Or(todo(c.cur, n) != TGTS.empty(), doing(c.cur, n) != TGTS.empty())), que(c.cur)[n]),
                'whoever-gained-pending-work-is-queued': Implies(And(todo(c.cur, n)[t], Not(todo(c.old, n)[t])), que(c.cur)[n]),
                'executing-untouched': doing(c.cur, n)[t] == doing(c.old, n)[t]}


def _res_unit(ex, e):
    m = ex.st.env['msg']
    return V(unit_name(MSG.get(m.t, 'jobid'), MSG.get(m.t, 'incarnation')), ATOM)


@contract(W, 'dawgie/pl/farm.py', 'Hand._res', props=['C01', 'C02', 'C03', 'C04', 'C05'])
class hand_res(ContractBase):
    params = {'msg': MSG}
    modifies = c11_farm.RES_MODIFIES
    assumes = [lambda c: [c01_release.choice_axiom(c.old), c01_release.J3(c.old)] + c01_release.choice_tree(c.old), one_node_per_tag_among_children]
    abstract = {"msg.jobid + '[' + (msg.incarnation if msg.incarnation else '__all__') + ']'": _res_unit, 'any(msg.values)': BOOL}

    def requires(c):
        m = c['msg']
        return {'reply-names-its-job': Not(Opt(ATOM).is_none(MSG.get(m, 'jobid'))), 'reply-carries-timing': Not(Opt(Ref('Timing')).is_none(MSG.get(m, 'timing'))),
                'log': LE.len(c.old.g('ghost.chronicle')) >= 0}

    @staticmethod
    def J2(view):
        x = z3.Const('j2_n', NODE.sort())
        return z3.ForAll([x], Implies(que(view)[x], Or(todo(view, x) != TGTS.empty(), doing(view, x) != TGTS.empty())))

    def ensures(c):
        m = c['msg']
        OA = Opt(ATOM)
        n, t, u = c.sk('n', NODE), c.sk('t', ATOM), c.sk('u', ATOM)
        jobid = OA.val(MSG.get(m, 'jobid'))
        inc = If(OA.is_none(MSG.get(m, 'incarnation')), ALL, OA.val(MSG.get(m, 'incarnation')))
        q = que(c.old)
        w = c01_release.node_of(q, jobid)
        queued = And(q[w], tag(c.old, w) == jobid)
        OB = Opt(BOOL)
        suc = MSG.get(m, 'success')
        success = And(Not(OB.is_none(suc)), OB.val(suc))
        name = unit_name(MSG.get(m, 'jobid'), MSG.get(m, 'incarnation'))
        ch0, ch1 = c.old.g('ghost.chronicle'), c.cur.g('ghost.chronicle')
        e = LE.arr(ch1)[LE.len(ch0)]
        status = If(OB.is_none(suc), STATE.const('invalid'), If(OB.val(suc), STATE.const('success'), STATE.const('failure')))
        upd = c.cur.g('ghost.update_calls') - c.old.g('ghost.update_calls')
        found = Or(queued, c01_release.find._in_tree(hand_res._fc(c)))
        return {'crew.unit-no-longer-busy': And(Not(c.cur.g('dawgie.pl.farm._busy')[name]),
                                                Implies(u != name, c.cur.g('dawgie.pl.farm._busy')[u] == c.old.g('dawgie.pl.farm._busy')[u])),
                'applied.completion-recorded-once': Implies(found, And(LE.len(ch1) == LE.len(ch0) + 1, ENTRY.get(e, 'status') == state_name(status),
                                                                        ENTRY.get(e, 'target') == inc, ENTRY.get(e, 'task') == jobid,
                                                                        ENTRY.get(e, 'runid') == MSG.get(m, 'runid'))),
                'applied.report-propagated-once-on-success-only': Implies(found, upd == If(success, 1, 0)),
                'failure.no-dependent-is-triggered': Implies(Not(success), Implies(todo(c.cur, n)[t], todo(c.old, n)[t])),
                'failure.other-targets-untouched': Implies(And(Not(success), t != inc, inc != ALL),
                                                           And(todo(c.cur, n)[t] == todo(c.old, n)[t], doing(c.cur, n)[t] == doing(c.old, n)[t])),
                # a failed or invalid unit is withdrawn from its job and from everything below it, whether or not the job is still queued
                'failure.withdrawn-from-the-job-and-its-dependents': Implies(And(Not(success), found), Implies(reach(hand_res._job(c), n),
                                                                             And(Not(todo(c.cur, n)[inc]), Not(doing(c.cur, n)[inc]), Not(do_(c.cur, n)[inc])))),
                # only idle entries leave the queue: whoever still has something pending or executing stays queued
                'entries-with-work-stay-queued': Implies(And(que(c.old)[n], Or(todo(c.cur, n) != TGTS.empty(), doing(c.cur, n) != TGTS.empty())), que(c.cur)[n]),
                # J2 (no idle queue entry) is preserved by a reply
                'idle-means-idle': Implies(And(hand_res.J2(c.old), queued, que(c.cur)[n]), Or(todo(c.cur, n) != TGTS.empty(), doing(c.cur, n) != TGTS.empty()))}

    @staticmethod
    def _fc(c):
        """the view schedule.find has of this call: its `job` argument is the reply's job id"""
        class _V:
            pass
        v = _V()
        v.old, v.cur = c.old, c.cur
        jobid = Opt(ATOM).val(MSG.get(c['msg'], 'jobid'))
        v.__class__.__getitem__ = lambda self, k: jobid
        return v

    @staticmethod
    def _job(c):
        """the node schedule.find returned (the local `job`)"""
        try:
            return c.loc('job')
        except KeyError:        # the path on which find raised IndexError: `job` was never bound (and `found` is false there)
            return z3.Const('no_job_found', NODE.sort())

    def _inv_busy(c):
        u = c.sk('u', ATOM)
        m = c['msg']
        name = unit_name(MSG.get(m, 'jobid'), MSG.get(m, 'incarnation'))
        return {'others': Implies(u != name, c.cur.g('dawgie.pl.farm._busy')[u] == c.old.g('dawgie.pl.farm._busy')[u])}

    def _inv_prune(c):
        n, t = c.sk('n', NODE), c.sk('t', ATOM)
        idle = lambda v, x: And(todo(v, x) == TGTS.empty(), doing(v, x) == TGTS.empty())
        return {'queue': que(c.cur)[n] == And(que(c.entry)[n], Not(And(c.done[n], idle(c.cur, n)))),
                'sets': And(todo(c.cur, n)[t] == todo(c.entry, n)[t], doing(c.cur, n)[t] == doing(c.entry, n)[t])}
    loops = {'while 0 < _busy.count(done)': Loop(inv=_inv_busy, modifies=['dawgie.pl.farm._busy', 'dawgie.pl.farm._time']),
             'for idle in ': Loop(inv=_inv_prune, modifies=[QUE])}


def _translate_replay(model, vc):
    """the reply flag from the solver's model, through the real Hand._translate"""
    import dawgie.pl.farm as farm
    from dawgie.pl.jobinfo import State
    OB = Opt(BOOL)
    s = vc.inputs['state']
    flag = None if z3.is_true(model.eval(OB.is_none(s), model_completion=True)) else z3.is_true(model.eval(OB.val(s), model_completion=True))
    got = farm.Hand._translate(flag)
    want = State.invalid if flag is None else (State.success if flag else State.failure)
    return {'reproduced': got is not want, 'input': {'state': flag}, 'observed': str(got), 'expected': str(want)}


translate.replay = staticmethod(_translate_replay)
