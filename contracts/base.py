"""The DAWGIE world: heap schema, globals, library models shared by all contract files."""
import ast
import z3
from pyvc.world import World, PyClass
from pyvc.core import V, C, Lam, Dotted, Bound, Iter, Unsupported, Extern, QHyp, _Raise
from pyvc.spec import *     # noqa

W = World()

VERSION = Rec('VERSION', {'design': INT, 'impl': INT, 'bugfix': INT})
VER = Ref('Version')
W.declare_fields('Version', _version_=VERSION)
W.class_path['Version'] = 'dawgie.Version'

# ---------------------------------------------------------------------------- scheduler view (DESIGN §3)
import dawgie.pl.jobinfo
NODE = Ref('Node')
FACTORY = Ref('Factory')
STATE = W.enum(dawgie.pl.jobinfo.State)
TGTS = SetOf(ATOM)
W.declare_fields('Node', tag=ATOM, todo=TGTS, doing=TGTS, do=TGTS, ancestry=SetOf(ATOM), level=INT, status=STATE,
                 runid=Opt(INT), kids=SetOf(NODE), factory=FACTORY, event=Opt(ATOM), alg=Ref('Alg'), period=SetOf(Ref('Event'), listlike=True))
W.declare_fields('Factory', __name__=ATOM)
W.class_path['Node'] = 'dawgie.pl.dag.Node'
W.declare_global('dawgie.pl.schedule.que', ListSet(NODE))
W.declare_global('dawgie.pl.schedule.per', ListSet(NODE))
W.declare_global('dawgie.pl.schedule.pipeline_paused', BOOL)

reach = z3.Function('reach', NODE.sort(), NODE.sort(), z3.BoolSort())     # desc*: only true facts of the lfp are given
wit = z3.Function('wit', NODE.sort(), NODE.sort(), NODE.sort())           # inversion witness
KIDS0 = None


def reach_axioms(kids_arr):
    """facts of the least fixed point desc* over the (unchanging) child relation"""
    a, b, c = z3.Consts('ra rb rc', NODE.sort())
    return [QHyp([a], reach(a, a), 'reach.refl'),
            QHyp([a, b], z3.Implies(reach(a, b), z3.Or(a == b, z3.And(kids_arr[a][wit(a, b)], reach(wit(a, b), b)))), 'reach.inv'),
            QHyp([a, c, b], z3.Implies(z3.And(kids_arr[a][c], reach(c, b)), reach(a, b)), 'reach.step')]


def _node_get(ex, recv, args, kwargs, line):
    key = args[0]
    if not isinstance(key, str):
        raise Unsupported('Element.get with a computed key')
    return ex.get_field(recv, key, line)


def _node_set(ex, recv, args, kwargs, line):
    key = args[0]
    if not isinstance(key, str):
        raise Unsupported('Element.set with a computed key')
    ex.set_field(recv, key, args[1], line)
    return None


W.methods[('Node', 'get')] = _node_get
W.methods[('Node', 'set')] = _node_set

_base_iter_source = W.iter_source


def _iter_source(ex, src, line):
    if isinstance(src, V) and isinstance(src.ty, Ref) and src.ty.cls == 'Node':
        return C(FieldLoc_('Node.kids', src.t), SetOf(NODE))
    return _base_iter_source(ex, src, line)


from pyvc.core import FieldLoc as FieldLoc_
W.iter_source = _iter_source


def todo(v, n):
    return v.f('Node.todo', n)


def doing(v, n):
    return v.f('Node.doing', n)


def do_(v, n):
    return v.f('Node.do', n)


def tag(v, n):
    return v.f('Node.tag', n)


def anc(v, n):
    return v.f('Node.ancestry', n)


def que(v):
    return v.g('dawgie.pl.schedule.que')


ALL = atom('__all__')


def _invariants(ex, c):
    out = []
    if 'Node.kids' in c.old.heap:
        out += reach_axioms(c.old.heap['Node.kids'])
    for f in getattr(ex.k, 'assumes', []) or []:
        out += list(f(c))
    return out


W.invariants = _invariants

# ---------------------------------------------------------------------------- FSM view (DESIGN §3)
import dawgie.tools.submit
import dawgie.pl.state
PRIO = W.enum(dawgie.tools.submit.Priority)
STATUS = W.enum(dawgie.pl.state.Status)
FSMSTATE = Enum('FsmState', list(dawgie.pl.state.FSM.states))
FSM = Ref('FSM')
EVENT_ = Ref('Event')
DEFERRED = Ref('Deferred')
W.declare_fields('FSM', priority=Opt(PRIO), changeset=Opt(ATOM), state=FSMSTATE, _FSM__transitioning=STATUS, _FSM__prior=Opt(FSMSTATE),
                 _FSM__doctest=BOOL, crew_thread=Opt(DEFERRED), doing_thread=Opt(DEFERRED), todo_thread=Opt(DEFERRED),
                 wait_on_crew=EVENT_, wait_on_doing=EVENT_, wait_on_todo=EVENT_, wait_timeout=REAL, open_again=BOOL)
W.declare_fields('Event', flag=BOOL)
W.class_path['FSM'] = 'dawgie.pl.state.FSM'
W.declare_global('ghost.update_triggers', INT)        # ghost: number of update_trigger() calls so far
W.declare_global('ghost.pollers_started', SetOf(ATOM))  # ghost: which pollers (crew/doing/todo) were started by this call


def _ev_set(val):
    def f(ex, recv, args, kwargs, line):
        ex.set_field(recv, 'flag', val, line)
        return None
    return f


W.methods[('Event', 'set')] = _ev_set(True)
W.methods[('Event', 'clear')] = _ev_set(False)
W.methods[('Event', 'wait')] = lambda ex, recv, args, kwargs, line: ex.get_field(recv, 'flag', line)
W.methods[('Event', 'is_set')] = lambda ex, recv, args, kwargs, line: ex.get_field(recv, 'flag', line)
W.methods[('Deferred', 'addCallbacks')] = lambda ex, recv, args, kwargs, line: recv
W.methods[('Deferred', 'addErrback')] = lambda ex, recv, args, kwargs, line: recv
W.methods[('Deferred', 'addCallback')] = lambda ex, recv, args, kwargs, line: recv


def fsm_distinct_events(c):
    """rep invariant of FSM.__init__: the three wait events are three distinct objects"""
    s = z3.Const('fs', FSM.sort())
    v = c.old
    a, b, d = v.arr('FSM.wait_on_crew')[s], v.arr('FSM.wait_on_doing')[s], v.arr('FSM.wait_on_todo')[s]
    return [QHyp([s], And(a != b, a != d, b != d), 'fsm.events')]


def flag(view, fsm, which):
    return view.f('Event.flag', view.f('FSM.wait_on_' + which, fsm))
