"""The DAWGIE world: heap schema, globals, library models shared by all contract files."""
import ast
import z3
from pyvc.world import World, PyClass
from pyvc.core import V, C, Lam, Dotted, Bound, Iter, Unsupported, Extern, QHyp, _Raise
from pyvc.spec import *     # noqa

W = World()

VERSION = Rec('VERSION', {'design': INT, 'impl': INT, 'bugfix': INT})
VER = Ref('Version')
W.declare_fields('Version', _version_=VERSION)
W.class_path['Version'] = 'dawgie.Version'

# ---------------------------------------------------------------------------- scheduler view (DESIGN §3)
import dawgie.pl.jobinfo
NODE = Ref('Node')
FACTORY = Ref('Factory')
STATE = W.enum(dawgie.pl.jobinfo.State)
TGTS = SetOf(ATOM)
W.declare_fields('Node', tag=ATOM, todo=TGTS, doing=TGTS, do=TGTS, ancestry=SetOf(ATOM), level=INT, status=STATE,
                 runid=Opt(INT), kids=SetOf(NODE), factory=FACTORY, event=Opt(ATOM), alg=Ref('Alg'), period=SetOf(Ref('Event'), listlike=True))
W.declare_fields('Factory', __name__=ATOM)
W.class_path['Node'] = 'dawgie.pl.dag.Node'
W.declare_global('dawgie.pl.schedule.que', ListSet(NODE))
W.declare_global('dawgie.pl.schedule.per', ListSet(NODE))
W.declare_global('dawgie.pl.schedule.pipeline_paused', BOOL)

reach = z3.Function('reach', NODE.sort(), NODE.sort(), z3.BoolSort())     # desc*: only true facts of the lfp are given
wit = z3.Function('wit', NODE.sort(), NODE.sort(), NODE.sort())           # inversion witness
KIDS0 = None


def reach_axioms(kids_arr):
    """facts of the least fixed point desc* over the (unchanging) child relation"""
    a, b, c = z3.Consts('ra rb rc', NODE.sort())
    return [QHyp([a], reach(a, a), 'reach.refl'),
            # a path never needs a self loop, so the inversion witness is a child other than the node itself
            QHyp([a, b], z3.Implies(reach(a, b), z3.Or(a == b, z3.And(kids_arr[a][wit(a, b)], wit(a, b) != a, reach(wit(a, b), b)))), 'reach.inv'),
            QHyp([a, c, b], z3.Implies(z3.And(kids_arr[a][c], reach(c, b)), reach(a, b)), 'reach.step')]


def _node_get(ex, recv, args, kwargs, line):
    key = args[0]
    if not isinstance(key, str):
        raise Unsupported('Element.get with a computed key')
    return ex.get_field(recv, key, line)


def _node_set(ex, recv, args, kwargs, line):
    key = args[0]
    if not isinstance(key, str):
        raise Unsupported('Element.set with a computed key')
    ex.set_field(recv, key, args[1], line)
    return None


W.methods[('Node', 'get')] = _node_get
W.methods[('Node', 'set')] = _node_set

_base_iter_source = W.iter_source


def _iter_source(ex, src, line):
    if isinstance(src, V) and isinstance(src.ty, Ref) and src.ty.cls == 'Node':
        return C(FieldLoc_('Node.kids', src.t), SetOf(NODE))
    return _base_iter_source(ex, src, line)


from pyvc.core import FieldLoc as FieldLoc_
W.iter_source = _iter_source


def todo(v, n):
    return v.f('Node.todo', n)


def doing(v, n):
    return v.f('Node.doing', n)


def do_(v, n):
    return v.f('Node.do', n)


def tag(v, n):
    return v.f('Node.tag', n)


def anc(v, n):
    return v.f('Node.ancestry', n)


def que(v):
    return v.g('dawgie.pl.schedule.que')


ALL = atom('__all__')


def _invariants(ex, c):
    out = []
    # a Python list has a non-negative length (holds of every list-valued global and field)
    for gk, gty in W.globals.items():
        if isinstance(gty, ListOf) and gk in c.old.glob:
            out.append(gty.len(c.old.glob[gk]) >= 0)
    for fk, fty in W.fields.items():
        if isinstance(fty, ListOf) and fk in c.old.heap:
            r = z3.Const('ln_' + fk, Ref(fk.split('.')[0]).sort())
            out.append(QHyp([r], fty.len(c.old.heap[fk][r]) >= 0, 'len>=0'))
    if 'Node.kids' in c.old.heap and not getattr(ex.k, 'no_reach', False):
        out += reach_axioms(c.old.heap['Node.kids'])
    for f in getattr(ex.k, 'assumes', []) or []:
        out += list(f(c))
    return out


W.invariants = _invariants

# ---------------------------------------------------------------------------- FSM view (DESIGN §3)
import dawgie.tools.submit
import dawgie.pl.state
PRIO = W.enum(dawgie.tools.submit.Priority)
STATUS = W.enum(dawgie.pl.state.Status)
FSMSTATE = Enum('FsmState', list(dawgie.pl.state.FSM.states))
FSM = Ref('FSM')
EVENT_ = Ref('Event')
DEFERRED = Ref('Deferred')
W.declare_fields('FSM', priority=Opt(PRIO), changeset=Opt(ATOM), state=FSMSTATE, _FSM__transitioning=STATUS, _FSM__prior=Opt(FSMSTATE),
                 _FSM__doctest=BOOL, crew_thread=Opt(DEFERRED), doing_thread=Opt(DEFERRED), todo_thread=Opt(DEFERRED),
                 wait_on_crew=EVENT_, wait_on_doing=EVENT_, wait_on_todo=EVENT_, wait_timeout=REAL, open_again=BOOL)
W.declare_fields('Event', flag=BOOL)
W.class_path['FSM'] = 'dawgie.pl.state.FSM'
W.declare_global('ghost.update_triggers', INT)        # ghost: number of update_trigger() calls so far
W.declare_global('ghost.pollers_started', SetOf(ATOM))  # ghost: which pollers (crew/doing/todo) were started by this call


def _ev_set(val):
    def f(ex, recv, args, kwargs, line):
        ex.set_field(recv, 'flag', val, line)
        return None
    return f


W.methods[('Event', 'set')] = _ev_set(True)
W.methods[('Event', 'clear')] = _ev_set(False)
W.methods[('Event', 'wait')] = lambda ex, recv, args, kwargs, line: ex.get_field(recv, 'flag', line)
W.methods[('Event', 'is_set')] = lambda ex, recv, args, kwargs, line: ex.get_field(recv, 'flag', line)
W.methods[('Deferred', 'addCallbacks')] = lambda ex, recv, args, kwargs, line: recv
W.methods[('Deferred', 'addErrback')] = lambda ex, recv, args, kwargs, line: recv
W.methods[('Deferred', 'addCallback')] = lambda ex, recv, args, kwargs, line: recv


def fsm_distinct_events(c):
    """rep invariant of FSM.__init__: the three wait events are three distinct objects"""
    s = z3.Const('fs', FSM.sort())
    v = c.old
    a, b, d = v.arr('FSM.wait_on_crew')[s], v.arr('FSM.wait_on_doing')[s], v.arr('FSM.wait_on_todo')[s]
    return [QHyp([s], And(a != b, a != d, b != d), 'fsm.events')]


def flag(view, fsm, which):
    return view.f('Event.flag', view.f('FSM.wait_on_' + which, fsm))

# ---------------------------------------------------------------------------- shelve comms.Worker (database lock)
import dawgie.db.shelve.enums
MUTEX = W.enum(dawgie.db.shelve.enums.Mutex)
DBW = Ref('DbWorker')
LOOPCALL = Ref('LoopingCall')
W.declare_fields('DbWorker', _Worker__has_lock=BOOL, _Worker__looping_call_stopped=BOOL, _Worker__connection_lost=BOOL,
                 _Worker__looping_call=LOOPCALL, _Worker__id_name=ATOM,
                 ghost_told=Opt(MUTEX), ghost_nsent=INT, ghost_answer=Opt(BOOL))
W.declare_fields('LoopingCall', running=BOOL)
W.class_path['DbWorker'] = 'dawgie.db.shelve.comms.Worker'
W.declare_global('dawgie.context.db_lock', BOOL)


def _dbw_send(ex, recv, args, kwargs, line):
    """assumed: _send pickles and writes one framed response; ghost: what this client was last told"""
    v = args[0]
    ex.set_field(recv, 'ghost_nsent', ex.binop(ast.Add(), ex.get_field(recv, 'ghost_nsent'), 1, line), line)
    ty = ex.ty_of(v)
    if ty == MUTEX:
        ex.set_field(recv, 'ghost_told', v, line)
    elif ty == BOOL:
        ex.set_field(recv, 'ghost_answer', v, line)
    else:
        raise Unsupported('_send of %r' % (v,))
    return None


W.methods[('DbWorker', '_send')] = _dbw_send
W.externs['dawgie.db.shelve.state.DBI'] = Extern(fn=lambda ex, args, kwargs, e: Dotted('DBI'))
W.externs['DBI.task_engine.add_task'] = Extern(drop=True)
W.externs['twisted.internet.reactor.callLater'] = Extern(drop=True)

# ---------------------------------------------------------------------------- farm view (DESIGN §3)
import dawgie.pl.message
MTYPE = W.enum(dawgie.pl.message.Type)
FACREF = Rec('FacRef', {'module': ATOM, 'name': ATOM})
MSG = Rec('MSG', {'context': Opt(ATOM), 'factory': Opt(FACREF), 'incarnation': Opt(ATOM), 'jobid': Opt(ATOM), 'ps_hint': Opt(INT),
                  'revision': Opt(ATOM), 'runid': Opt(INT), 'success': Opt(BOOL), 'target': Opt(ATOM), 'timing': Opt(Ref('Timing')),
                  'type': MTYPE, 'values': Opt(ATOM)})
W.rec_classes = {'dawgie.pl.message.MSG': MSG}
HAND = Ref('Hand')
TRANSPORT = Ref('Transport')
W.declare_fields('Hand', _abort=MSG, _Hand__proceed=MSG, _Hand__wait=MSG, _Hand__incarnation=Opt(ATOM), _Hand__buf=BYTES, _Hand__len=Opt(INT),
                 _Hand__blen=INT, transport=TRANSPORT, ghost_sent=SeqOf(MSG))
W.declare_fields('Transport', closed=BOOL)
W.class_path['Hand'] = 'dawgie.pl.farm.Hand'
W.methods[('Transport', 'loseConnection')] = lambda ex, recv, args, kwargs, line: ex.set_field(recv, 'closed', True, line)
W.declare_global('dawgie.pl.farm._workers', ListSet(HAND))
from pyvc.types import Bag
W.declare_global('dawgie.pl.farm._cluster', ListOf(MSG))
W.declare_global('dawgie.pl.farm._cloud', ListOf(MSG))
W.declare_global('dawgie.pl.farm._reject', ListOf(MSG))
W.declare_global('dawgie.pl.farm._repeat', ListOf(MSG))
W.declare_global('dawgie.pl.farm._busy', Bag(ATOM))          # unit names handed to workers (duplicates possible)
W.declare_global('dawgie.pl.farm._jobs', Bag(NODE))                # a job may be listed twice (released again before it was queued)
W.declare_global('dawgie.pl.farm._time', MapOf(ATOM, ATOM))
W.declare_global('dawgie.pl.farm._agency', ListOf(Opt(Ref('Agency'))))
W.declare_global('dawgie.context.git_rev', Opt(ATOM))
W.declare_global('dawgie.context.fsm', FSM)


def _message_send(ex, args, kwargs, e):
    """assumed (verified separately under C14: message.send writes one frame): ghost log of what each Hand was sent"""
    m, s = args[0], args[1]
    if isinstance(s, V) and isinstance(s.ty, Ref) and s.ty.cls == 'Hand':
        cur = ex.get_field(s, 'ghost_sent')
        ex.call_method(cur, 'append', [m], {}, e.lineno)
        return None
    raise Unsupported('message.send to %r' % (s,))


W.externs['dawgie.pl.message.send'] = Extern(fn=_message_send)


def sent(view, h):
    return view.f('Hand.ghost_sent', h)


def closed(view, h):
    return view.f('Transport.closed', view.f('Hand.transport', h))


def workers(view):
    return view.g('dawgie.pl.farm._workers')


def fsm_active(view):
    s = view.g('dawgie.context.fsm')
    return And(view.f('FSM.state', s) == FSMSTATE.const('running'), view.f('FSM._FSM__transitioning', s) == STATUS.const('active'))

# ---------------------------------------------------------------------------- framing (C14): struct / pickle as uninterpreted functions
pack_fn = z3.Function('pack_be32', z3.IntSort(), BYTES.sort())          # struct.pack('>I', n)
unpack_fn = z3.Function('unpack_be32', BYTES.sort(), z3.IntSort())      # struct.unpack('>I', b)[0]
loads_fn = z3.Function('pickle_loads', BYTES.sort(), MSG.sort())        # dawgie.pl.message.loads
frames_fn = z3.Function('frames', BYTES.sort(), SeqOf(MSG).sort())      # messages of the complete frames at the head of a stream
rest_fn = z3.Function('rest', BYTES.sort(), BYTES.sort())              # what remains after them
TWO32 = 4294967296


def struct_axioms():
    """assumed contract of struct '>I': a bijection between 0..2^32-1 and the 4-byte strings (instantiated at pack/unpack terms)"""
    n = z3.Const('sa_n', z3.IntSort())
    h = z3.Const('sa_h', BYTES.sort())
    return [QHyp([n], Implies(And(n >= 0, n < TWO32), And(z3.Length(pack_fn(n)) == 4, unpack_fn(pack_fn(n)) == n)), 'struct.pack',
                 triggers=[(pack_fn, 0)]),
            QHyp([h], Implies(z3.Length(h) == 4, And(unpack_fn(h) >= 0, unpack_fn(h) < TWO32, pack_fn(unpack_fn(h)) == h)), 'struct.unpack',
                 triggers=[(unpack_fn, 0)])]


def frames_axioms():
    """definition (unfolding) of the specification functions frames/rest, instantiated at every frames(.)/rest(.) term"""
    u = z3.Const('fa_u', BYTES.sort())
    n = unpack_fn(z3.SubSeq(u, 0, 4))
    L = z3.Length(u)
    body = If(Or(L < 4, L < 4 + n),
              And(frames_fn(u) == z3.Empty(SeqOf(MSG).sort()), rest_fn(u) == u),
              And(frames_fn(u) == z3.Concat(z3.Unit(loads_fn(z3.SubSeq(u, 4, n))), frames_fn(z3.SubSeq(u, 4 + n, L - 4 - n))),
                  rest_fn(u) == rest_fn(z3.SubSeq(u, 4 + n, L - 4 - n))))
    return [QHyp([u], body, 'frames.def', triggers=[(frames_fn, 0), (rest_fn, 0)])]


def _struct_pack(ex, args, kwargs, e):
    if args[0] not in ('>I', '>L'):
        raise Unsupported('struct.pack format %r' % (args[0],))
    n = ex._num(args[1])
    ex.vc('safe.struct.pack-range@%d' % e.lineno, And(n >= 0, n < TWO32), e.lineno)
    return V(pack_fn(n), BYTES)


def _struct_unpack(ex, args, kwargs, e):
    if args[0] not in ('>I', '>L'):
        raise Unsupported('struct.unpack format %r' % (args[0],))
    b = ex.to_z3(args[1], BYTES)
    ex.vc('safe.struct.unpack-size@%d' % e.lineno, z3.Length(b) == 4, e.lineno)
    return (V(unpack_fn(b), INT),)


W.externs['struct.pack'] = Extern(fn=_struct_pack)
W.externs['struct.unpack'] = Extern(fn=_struct_unpack)
W.externs['dawgie.pl.message.loads'] = Extern(fn=lambda ex, args, kwargs, e: V(loads_fn(ex.to_z3(args[0], BYTES)), MSG))
W.declare_fields('Hand', ghost_delivered=SeqOf(MSG))

W.externs['pickle.loads'] = Extern(fn=lambda ex, args, kwargs, e: V(loads_fn(ex.to_z3(args[0], BYTES)), MSG))

# log sink
LOGSINK = Ref('LogSink')
W.declare_fields('LogSink', _LogSink__buf=BYTES, _LogSink__len=Opt(INT), _LogSink__blen=INT, _LogSink__actual=Ref('LogHandler'),
                 ghost_delivered=SeqOf(MSG))
W.class_path['LogSink'] = 'dawgie.pl.logger.LogSink'
W.externs['logging.makeLogRecord'] = Extern(fn=lambda ex, args, kwargs, e: args[0])
W.methods[('LogHandler', 'flush')] = lambda ex, recv, args, kwargs, line: None

# shelve comms.Worker framing state: a dict with the fixed keys actual/data/expected, modelled as a record object
import dawgie.db.shelve.enums as _enums
FUNC = W.enum(_enums.Func)
COMMAND = Rec('COMMAND', {'func': FUNC, 'keyset': Opt(ATOM), 'table': Opt(ATOM), 'value': Opt(ATOM)})
W.declare_fields('DbWorker', _Worker__buf=Ref('WBuf'), transport=TRANSPORT, ghost_delivered=SeqOf(MSG))
W.declare_fields('WBuf', actual=INT, data=BYTES, expected=Opt(INT))
cmd_of = z3.Function('command_of', MSG.sort(), COMMAND.sort())     # view of an unpickled payload as a COMMAND

# ---------------------------------------------------------------------------- shelve store view (DESIGN §3)
PK = Rec('PK', {'run': INT, 'tgt': INT, 'task': INT, 'alg': INT, 'sv': INT, 'val': INT})     # a prime key
for _t in ('target', 'task', 'alg', 'state', 'value'):
    W.declare_global('DBI.indices.' + _t, ListOf(STR))
    W.declare_global('DBI.tables.' + _t, MapOf(STR, INT))
RANGE = Rec('Range', {'start': INT, 'stop': Opt(INT)})
SEARCHRESULTS = Rec('SearchResults', {'items': ListOf(STR), 'total': INT})
W.rec_classes['dawgie.db.basis.Range'] = RANGE
W.rec_classes['dawgie.db.basis.SearchResults'] = SEARCHRESULTS
def name_part(k):
    """dissect(key)[1]"""
    return z3.Function('dissect_name', STR.sort(), STR.sort())(k)



def _dissect(ex, args, kwargs, e):
    """assumed here (proved under C06): dissect(construct(n, p, v)) = (p, n, v); only the name part is used by callers in this file"""
    k = ex.to_z3(args[0], STR)
    return (None, V(name_part(k), STR), None)


W.externs['dawgie.db.shelve.util.dissect'] = Extern(fn=_dissect)

# ---------------------------------------------------------------------------- the algorithm tree
CONSTRUCT = Ref('Construct')
W.declare_fields('Construct', _at=ListSet(NODE))
W.class_path['Construct'] = 'dawgie.pl.dag.Construct'
W.declare_global('dawgie.pl.schedule.ae', Opt(CONSTRUCT))
W.properties[('Construct', 'at')] = ('dawgie.pl.dag.Construct.at', None)
from pyvc.types import Bag


@contract(W, 'dawgie/pl/dag.py', 'Construct.at', props=['C01', 'C02', 'C03', 'C09'])
class construct_at(ContractBase):
    params = {'self': CONSTRUCT}
    inline = True


@contract(W, 'dawgie/pl/dag.py', 'Node.locate', props=['C02', 'C09'])
class node_locate(ContractBase):
    """assumed for callers (recursive list building; decided by the bounded stand-in under C09): the nodes of the
    subtree with that tag"""
    params = {'self': NODE, 'name': ATOM}
    returns = ListSet(NODE)
    modifies = []
    stub = True

    def ensures(c):
        n = c.sk('n', NODE)
        return {'located': c.result[n] == And(reach(c['self'], n), tag(c.old, n) == c['name'])}

# ---------------------------------------------------------------------------- hooks that several models extend
W.binop_hooks = []


def _user_binop(ex, op, a, b, line):
    for h in W.binop_hooks:
        r = h(ex, op, a, b, line)
        if r is not None:
            return r
    return None


W.user_binop = _user_binop


def one_node_per_tag_among_children(c):
    """A4 in the tree: a child carrying its parent's tag is the parent itself (self dependence), not another node"""
    a, b = z3.Consts('t4_a t4_b', NODE.sort())
    return [QHyp([a, b], Implies(And(c.old.arr('Node.kids')[a][b], tag(c.old, a) == tag(c.old, b)), a == b), 'A4.children')]

W.dyn_getattr_hooks = []


def _dyn_getattr(ex, obj, name, e):
    for h in W.dyn_getattr_hooks:
        r = h(ex, obj, name, e)
        if r is not None:
            return r
    raise Unsupported('getattr with a computed name')


W.dyn_getattr = _dyn_getattr

W.declare_global('dawgie.pl.farm.ARCHIVE', BOOL)
W.constants = set()

W.methods[('Timing', '__setitem__')] = lambda ex, recv, args, kwargs, line: None      # the timing dict is carried, never read by the scheduler

W.index_hooks = []


def _user_index(ex, base, key, line):
    for h in W.index_hooks:
        r = h(ex, base, key, line)
        if r is not None:
            return r
    return None


W.user_index = _user_index


# ---------------------------------------------------------------------------- min()/max()/round() over symbolic collections
def _minmax_coll(ex, coll, is_min, e):
    if isinstance(coll, C) and isinstance(coll.ty, SetOf) and coll.ty.elem in (REAL, INT):
        s_ = ex.read(coll)
        ex.maybe_raise('ValueError', s_ == coll.ty.empty(), e.lineno)
        m = ex.fresh('min' if is_min else 'max', coll.ty.elem)
        x = z3.Const(ex.path.fresh_name('qm'), coll.ty.elem.sort())
        ex.assume(s_[m])
        ex.st.qh.append(QHyp([x], Implies(s_[x], m <= x if is_min else m >= x), 'min' if is_min else 'max'))
        return V(m, coll.ty.elem)
    raise Unsupported('min/max of %r' % (coll,))


def _round(ex, v, e):
    if isinstance(v, V) and v.ty == REAL:
        r = ex.fresh('rounded', INT)
        ex.assume(And(z3.ToReal(r) - v.t <= 0.5, v.t - z3.ToReal(r) <= 0.5))
        return V(r, INT)
    raise Unsupported('round(%r)' % (v,))


W.minmax_coll = _minmax_coll
W.round = _round
