"""C01 / C03 / C04: the release step schedule.next_job_batch and the queue lookup schedule.find.

Skolem constants n (node), t (target), m (node) are universally quantified in every clause.
 P(m)[t]   = todo(m)[t] or doing(m)[t]            "pending or executing"
 R(n)[t]   = old todo(n)[t] and not new todo(n)[t]  "released by this call"
"""
from .base import *

QUE = 'dawgie.pl.schedule.que'
node_of = z3.Function('node_of', ListSet(NODE).sort(), ATOM.sort(), NODE.sort())     # choice: a queued node with that tag


def choice_axiom(view):
    """if some queued node has tag g then node_of(que, g) is such a node"""
    n = z3.Const('ca_n', NODE.sort())
    q = que(view)
    return QHyp([n], Implies(q[n], And(q[node_of(q, tag(view, n))], tag(view, node_of(q, tag(view, n))) == tag(view, n))), 'choice')


def J3(view):
    """one node per tag in the queue (A4)"""
    a, b = z3.Consts('j3_a j3_b', NODE.sort())
    q = que(view)
    return QHyp([a, b], Implies(And(q[a], q[b], tag(view, a) == tag(view, b)), a == b), 'J3')


def P(view, m):
    return union(todo(view, m), doing(view, m))


def blocked(view, t, m):
    return Or(t == ALL, P(view, m)[ALL], P(view, m)[t])


W.externs['dawgie.pl.schedule.promote'] = Extern(fn=lambda ex, args, kwargs, e: False)   # A2 (promotion off)


@contract(W, 'dawgie/pl/schedule.py', 'is_paused', props=['C01', 'C03', 'C04', 'C20'])
class is_paused(ContractBase):
    params = {}
    inline = True


SN1 = SetOf(NODE)
w_root1 = z3.Function('w_tree_above', SN1.sort(), NODE.sort(), NODE.sort())           # some tree among S that holds n
tree_node_of = z3.Function('tree_node_of', SN1.sort(), ATOM.sort(), NODE.sort())      # choice: a node of the trees S with that tag


def under1(S, n):
    return And(S[w_root1(S, n)], reach(w_root1(S, n), n))


def in_trees(view, S, g):
    w = tree_node_of(S, g)
    return And(under1(S, w), tag(view, w) == g)


def choice_tree(view):
    S, r, n = z3.Const('ct_S', SN1.sort()), z3.Const('ct_r', NODE.sort()), z3.Const('ct_n', NODE.sort())
    return [QHyp([r, n, S], Implies(And(S[r], reach(r, n)), under1(S, n)), 'choice.tree', triggers=[(reach, (0, 1))]),
            QHyp([S, n], Implies(under1(S, n), in_trees(view, S, tag(view, n))), 'choice.tree-node')]


@contract(W, 'dawgie/pl/schedule.py', 'find', props=['C01', 'C03', 'C05'])
class find(ContractBase):
    params = {'job': ATOM}
    returns = NODE
    modifies = []
    locals = {'avail': Bag(NODE)}
    assumes = [lambda c: [choice_axiom(c.old), J3(c.old)] + choice_tree(c.old)]

    @staticmethod
    def _missing(c):
        q = que(c.old)
        w = node_of(q, c['job'])
        return Not(And(q[w], tag(c.old, w) == c['job']))

    @staticmethod
    def _at(c):
        return c.old.f('Construct._at', Opt(CONSTRUCT).val(c.old.g('dawgie.pl.schedule.ae')))

    @staticmethod
    def _in_tree(c):
        return And(Not(Opt(CONSTRUCT).is_none(c.old.g('dawgie.pl.schedule.ae'))), in_trees(c.old, find._at(c), c['job']))
    # IndexError exactly when neither the queue nor any task tree (at any depth) has a node with that tag
    raises = {'IndexError': lambda c: And(find._missing(c), Not(find._in_tree(c)))}

    def ensures(c):
        q = que(c.old)
        queued = Not(find._missing(c))
        return {'tag': tag(c.old, c.result) == c['job'],
                'queued-node-when-queued': Implies(queued, And(q[c.result], c.result == node_of(q, c['job']))),
                'tree-node-when-the-job-left-the-queue': Implies(Not(queued), under1(find._at(c), c.result))}

    def _inv(c):
        n = c.sk('n', NODE)
        return {'found-so-far': Implies(find._missing(c), c.loc('avail')[n] == And(tag(c.old, n) == c['job'], under1(c.done, n))),
                'still-empty-of-queued': Implies(c.loc('avail')[n], find._missing(c))}
    loops = {'for root in dawgie.pl.schedule.ae.at': Loop(inv=_inv)}


@contract(W, 'dawgie/pl/schedule.py', 'next_job_batch', props=['C01', 'C03', 'C04'])
class next_job_batch(ContractBase):
    params = {}
    returns = ListSet(NODE)
    modifies = ['Node.todo', 'Node.doing', 'Node.do']
    locals = {'todo': ListSet(NODE)}
    assumes = [lambda c: [choice_axiom(c.old), J3(c.old)]]

    @staticmethod
    def _rel(c, view, n, t):
        return And(todo(c.old, n)[t], Not(todo(view, n)[t]))

    @staticmethod
    def _core(c, view, n, t, m):
        """conservation, once-only and safety, over the whole view"""
        R = next_job_batch._rel(c, view, n, t)
        q = que(c.old)
        return {
            'conserve.todo': Implies(todo(view, n)[t], todo(c.old, n)[t]),
            'conserve.doing': doing(view, n)[t] == Or(doing(c.old, n)[t], R),
            'conserve.do': do_(view, n)[t] == Or(do_(c.old, n)[t], R),
            'once': Implies(R, Not(doing(c.old, n)[t])),
            'safety': Implies(And(R, q[m], anc(c.old, n)[tag(c.old, m)]),
                              And(Not(P(c.old, m)[t]), Not(P(c.old, m)[ALL]), t != ALL)),
            'only-queued': Implies(R, q[n]),
        }

    def ensures(c):
        n, t, m = c.sk('n', NODE), c.sk('t', ATOM), c.sk('m', NODE)
        out = dict(next_job_batch._core(c, c.cur, n, t, m))
        paused = c.old.g('dawgie.pl.schedule.pipeline_paused')
        out['paused'] = Implies(paused, And(todo(c.cur, n)[t] == todo(c.old, n)[t], c.result == ListSet(NODE).empty()))
        out['result'] = c.result[n] == (todo(c.cur, n) != todo(c.old, n))
        return out

    # loop 0: for job in filter(lambda j: j.get('todo'), que)
    def _inv0(c):
        n, t, m = c.sk('n', NODE), c.sk('t', ATOM), c.sk('m', NODE)
        out = dict(next_job_batch._core(c, c.cur, n, t, m))
        out['untouched'] = Implies(Not(c.done[n]), And(todo(c.cur, n)[t] == todo(c.old, n)[t], doing(c.cur, n)[t] == doing(c.old, n)[t],
                                                       do_(c.cur, n)[t] == do_(c.old, n)[t]))
        out['result'] = c.loc('todo')[n] == (todo(c.cur, n) != todo(c.old, n))
        out['result.done'] = Implies(c.loc('todo')[n], c.done[n])
        return out

    # loop 1: for target in job.get('doing'): available.discard(target)
    def _inv1(c):
        t = c.sk('t', ATOM)
        job = c.loc('job')
        return {'avail': c.loc('available')[t] == And(todo(c.old, job)[t], Not(c.done[t]))}

    # loop 2: for dep in jobs.keys() & job.get('ancestry')
    def _inv2(c):
        t, m = c.sk('t', ATOM), c.sk('m', NODE)
        job = c.loc('job')
        q = que(c.old)
        av = c.loc('available')
        return {'sub': Implies(av[t], And(todo(c.old, job)[t], Not(doing(c.old, job)[t]))),
                'safe': Implies(And(av[t], q[m], c.done[tag(c.old, m)]),
                                And(Not(P(c.old, m)[t]), Not(P(c.old, m)[ALL]), t != ALL))}

    # loop 3: for target in job.get('todo')   (dep fixed)
    def _inv3(c):
        t, m = c.sk('t', ATOM), c.sk('m', NODE)
        job = c.loc('job')
        q = que(c.old)
        av = c.loc('available')
        d = node_of(q, c.loc('dep'))
        done2 = c.outer_done('for dep in ')
        return {'sub': Implies(av[t], And(todo(c.old, job)[t], Not(doing(c.old, job)[t]))),
                'safe': Implies(And(av[t], q[m], done2[tag(c.old, m)]),
                                And(Not(P(c.old, m)[t]), Not(P(c.old, m)[ALL]), t != ALL)),
                'this-dep': Implies(And(av[t], c.done[t]), And(Not(P(c.old, d)[t]), Not(P(c.old, d)[ALL]), t != ALL))}

    # loop 4: for a in available: job.get('todo').remove(a)
    def _inv4(c):
        n, t = c.sk('n', NODE), c.sk('t', ATOM)
        job = c.loc('job')
        return {'job': todo(c.cur, job)[t] == And(todo(c.entry, job)[t], Not(c.done[t])),
                'others': Implies(n != job, todo(c.cur, n)[t] == todo(c.entry, n)[t]),
                'avail': c.loc('available')[t] == c.loc0('available')[t]}

    loops = {"for job in filter(": Loop(inv=_inv0, modifies=['Node.todo', 'Node.doing', 'Node.do']),
             "for target in job.get('doing')": Loop(inv=_inv1),
             "for dep in ": Loop(inv=_inv2),
             "for target in job.get('todo')": Loop(inv=_inv3),
             "for a in available": Loop(inv=_inv4, modifies=['Node.todo'])}
