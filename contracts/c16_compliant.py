"""C16: tools.compliant._verify — the gate's verdict is the conjunction of every rule over every package: a rule
that answers False *or raises* on any one package makes the whole answer False, and nothing else does."""
from .base import *

RULE = ATOM
PKG = ATOM
RULES = z3.Const('compliant_rules', SetOf(RULE).sort())                 # sorted(dir(compliant)) restricted to rule_*
rule_ok = z3.Function('rule_returns_true', RULE.sort(), PKG.sort(), z3.BoolSort())
rule_raises = z3.Function('rule_raises', RULE.sort(), PKG.sort(), z3.BoolSort())


def passes(r, t):
    return And(Not(rule_raises(r, t)), rule_ok(r, t))


def _get_rules(ex, args, kwargs, e):
    return ex.newbox(RULES, SetOf(RULE, listlike=True))


def _rule_getattr(ex, obj, name, e):
    if isinstance(obj, Dotted) and obj.path == 'dawgie.tools.compliant' and isinstance(name, V):
        def call(ex2, args, kwargs, e2):
            t = ex2.to_z3(args[0], PKG)
            ex2.maybe_raise('Exception', rule_raises(name.t, t), e2.lineno)
            return V(rule_ok(name.t, t), BOOL)
        call._pyvc_builtin = True
        return call
    return None


W.dyn_getattr_hooks.append(_rule_getattr)
W.externs['dawgie.tools.compliant._get_rules'] = Extern(fn=_get_rules)

# choice functions: a failing (package, rule) among the packages in D / a failing rule among R for package t
SP, SR = SetOf(PKG), SetOf(RULE)
w_pkg = z3.Function('w_failing_package', SP.sort(), PKG.sort())
w_rule = z3.Function('w_failing_rule_of', PKG.sort(), RULE.sort())
w_rule_in = z3.Function('w_failing_rule_among', SR.sort(), PKG.sort(), RULE.sort())


def fails_some(t):          # package t fails one of the rules
    return And(RULES[w_rule(t)], Not(passes(w_rule(t), t)))


def some_fails(D):          # some package among D fails some rule
    return And(D[w_pkg(D)], fails_some(w_pkg(D)))


def some_rule_fails(R, t):  # some rule among R fails on t
    return And(R[w_rule_in(R, t)], Not(passes(w_rule_in(R, t), t)))


def _choice(c):
    D, R = z3.Const('ch_D', SP.sort()), z3.Const('ch_R', SR.sort())
    t, r = z3.Const('ch_t', PKG.sort()), z3.Const('ch_r', RULE.sort())
    return [QHyp([t, r], Implies(And(RULES[r], Not(passes(r, t))), fails_some(t)), 'choice.rule'),
            QHyp([D, t], Implies(And(D[t], fails_some(t)), some_fails(D)), 'choice.package'),
            QHyp([R, t, r], Implies(And(R[r], Not(passes(r, t))), some_rule_fails(R, t)), 'choice.rule-among')]


@contract(W, 'dawgie/tools/compliant.py', '_verify', props=['C16'])
class verify_(ContractBase):
    params = {'tasks': Bag(PKG), 'silent': BOOL, 'verbose': BOOL}
    returns = BOOL
    modifies = []
    locals = {'result': Bag(BOOL), 'passed': BOOL, 'status': BOOL}
    assumes = [_choice]

    def requires(c):
        return {}

    def ensures(c):
        # accepted exactly when every rule returned True, without raising, on every package
        return {'accept-iff-every-rule-passes-on-every-package': c.result == Not(some_fails(c['tasks']))}

    def _inv_tasks(c):
        return {'passed': c.loc('passed') == Not(some_fails(c.done))}

    def _inv_rules(c):
        t = c.loc('t')
        outer = c.outer_done('for t in ')
        b = c.sk('b', BOOL)
        return {'passed': c.loc('passed') == Not(some_fails(outer)),
                'result': c.loc('result')[z3.BoolVal(False)] == some_rule_fails(c.done, t),
                'rules-only': Implies(c.done[c.sk('r', RULE)], RULES[c.sk('r', RULE)])}
    loops = {'for t in ': Loop(inv=_inv_tasks), 'for r in ': Loop(inv=_inv_rules)}
