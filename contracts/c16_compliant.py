"""C16: tools.compliant._verify — the gate's verdict is the conjunction of every rule over every package: a rule
that answers False *or raises* on any one package makes the whole answer False, and nothing else does."""
from .base import *

RULE = ATOM
PKG = ATOM
RULES = z3.Const('compliant_rules', SetOf(RULE).sort())                 # sorted(dir(compliant)) restricted to rule_*
rule_ok = z3.Function('rule_returns_true', RULE.sort(), PKG.sort(), z3.BoolSort())
rule_raises = z3.Function('rule_raises', RULE.sort(), PKG.sort(), z3.BoolSort())


def passes(r, t):
    return And(Not(rule_raises(r, t)), rule_ok(r, t))


def _get_rules(ex, args, kwargs, e):
    return ex.newbox(RULES, SetOf(RULE, listlike=True))


def _rule_getattr(ex, obj, name, e):
    if isinstance(obj, Dotted) and obj.path == 'dawgie.tools.compliant' and isinstance(name, V):
        def call(ex2, args, kwargs, e2):
            t = ex2.to_z3(args[0], PKG)
            ex2.maybe_raise('Exception', rule_raises(name.t, t), e2.lineno)
            return V(rule_ok(name.t, t), BOOL)
        call._pyvc_builtin = True
        return call
    return None


W.dyn_getattr_hooks.append(_rule_getattr)
W.externs['dawgie.tools.compliant._get_rules'] = Extern(fn=_get_rules)

# choice functions: a failing (package, rule) among the packages in D / a failing rule among R for package t
SP, SR = SetOf(PKG), SetOf(RULE)
w_pkg = z3.Function('w_failing_package', SP.sort(), PKG.sort())
w_rule = z3.Function('w_failing_rule_of', PKG.sort(), RULE.sort())
w_rule_in = z3.Function('w_failing_rule_among', SR.sort(), PKG.sort(), RULE.sort())


def fails_some(t):          # package t fails one of the rules
    return And(RULES[w_rule(t)], Not(passes(w_rule(t), t)))


def some_fails(D):          # some package among D fails some rule
    return And(D[w_pkg(D)], fails_some(w_pkg(D)))


def some_rule_fails(R, t):  # some rule among R fails on t
    return And(R[w_rule_in(R, t)], Not(passes(w_rule_in(R, t), t)))


def _choice(c):
    D, R = z3.Const('ch_D', SP.sort()), z3.Const('ch_R', SR.sort())
    t, r = z3.Const('ch_t', PKG.sort()), z3.Const('ch_r', RULE.sort())
    return [QHyp([t, r], Implies(And(RULES[r], Not(passes(r, t))), fails_some(t)), 'choice.rule'),
            QHyp([D, t], Implies(And(D[t], fails_some(t)), some_fails(D)), 'choice.package'),
            QHyp([R, t, r], Implies(And(R[r], Not(passes(r, t))), some_rule_fails(R, t)), 'choice.rule-among')]


@contract(W, 'dawgie/tools/compliant.py', '_verify', props=['C16'])
class verify_(ContractBase):
    params = {'tasks': Bag(PKG), 'silent': BOOL, 'verbose': BOOL}
    returns = BOOL
    modifies = []
    locals = {'result': Bag(BOOL), 'passed': BOOL, 'status': BOOL}
    assumes = [_choice]

    def requires(c):
        return {}

    def ensures(c):
        # accepted exactly when every rule returned True, without raising, on every package
        return {'accept-iff-every-rule-passes-on-every-package': c.result == Not(some_fails(c['tasks']))}

    def _inv_tasks(c):
        return {'passed': c.loc('passed') == Not(some_fails(c.done))}

    def _inv_rules(c):
        t = c.loc('t')
        outer = c.outer_done('for t in ')
        b = c.sk('b', BOOL)
        return {'passed': c.loc('passed') == Not(some_fails(outer)),
                'result': c.loc('result')[z3.BoolVal(False)] == some_rule_fails(c.done, t),
                'rules-only': Implies(c.done[c.sk('r', RULE)], RULES[c.sk('r', RULE)])}
    loops = {'for t in ': Loop(inv=_inv_tasks), 'for r in ': Loop(inv=_inv_rules)}


# ------------------------------------------------------------------------------------------------ _walk
import dawgie as _dawgie
OBJ = Ref('AeObj')
SO = SetOf(OBJ)
KINDS = ('analysis', 'events', 'regress', 'task')
CBS = ('ifbot', 'ifalg', 'ifsv', 'ifv', 'ifanl', 'ifanz', 'ifret', 'ifrec', 'ifref', 'ifmom')
for _cb in CBS:
    W.declare_global('ghost.seen.' + _cb, SO)
has_factory = z3.Function('package_offers_factory', ATOM.sort(), z3.BoolSort())
bot_of = z3.Function('object_built_by_factory', ATOM.sort(), OBJ.sort())
routines = z3.Function('routines_of', OBJ.sort(), SO.sort())
fb_refs = z3.Function('feedback_refs_of', OBJ.sort(), SO.sort())
in_refs = z3.Function('input_refs_of', OBJ.sort(), SO.sort())            # traits() / previous() / variables()
svs_of = z3.Function('state_vectors_of', OBJ.sort(), SO.sort())
items_of = z3.Function('items_of', OBJ.sort(), SO.sort())
events_of = z3.Function('events_of', OBJ.sort(), SO.sort())
for _m, _f in (('routines', routines), ('feedback', fb_refs), ('traits', in_refs), ('previous', in_refs), ('variables', in_refs),
               ('state_vectors', svs_of), ('items', items_of)):
    W.methods[('AeObj', _m)] = (lambda f: lambda ex, recv, args, kwargs, line: ex.newbox(f(recv.t), SetOf(OBJ, listlike=True)))(_f)
_is16 = W.iter_source


def _iter_source16(ex, src, line):
    if isinstance(src, V) and src.ty == OBJ:
        return ex.newbox(events_of(src.t), SetOf(OBJ, listlike=True))      # `for m in bot` over an events list
    return _is16(ex, src, line)


W.iter_source = _iter_source16


def _hasattr16(ex, obj, name, e):
    if isinstance(obj, Dotted) and obj.path == 'ae_package' and isinstance(name, str):
        return V(has_factory(atom(name)), BOOL)
    raise Unsupported('hasattr(%r, %r)' % (obj, name))


W.hasattr = _hasattr16
_dg16 = W.dyn_getattr


def _factory_getattr(ex, obj, name, e):
    if isinstance(obj, Dotted) and obj.path == 'ae_package' and isinstance(name, str):
        def call(ex2, args, kwargs, e2):
            return V(bot_of(atom(name)), OBJ)
        call._pyvc_builtin = True
        return call
    return None


W.dyn_getattr_hooks.append(_factory_getattr)


def _cb(name):
    def call(ex, args, kwargs, e):
        g = 'ghost.seen.' + name
        ex._note_write(g, e.lineno)
        ex.st.glob[g] = z3.Store(ex.st.glob[g], ex.to_z3(args[0], OBJ), True)
        return True
    call._pyvc_builtin = True
    return call


# choice functions: some routine among R one of whose (refs / state vectors / items of state vectors) is x
w_ref = z3.Function('w_routine_with_ref', SO.sort(), OBJ.sort(), OBJ.sort())
w_svr = z3.Function('w_routine_with_sv', SO.sort(), OBJ.sort(), OBJ.sort())
w_itr = z3.Function('w_routine_with_item', SO.sort(), OBJ.sort(), OBJ.sort())
w_its = z3.Function('w_sv_with_item', SO.sort(), OBJ.sort(), OBJ.sort())


def refs_of(a):
    return z3.Map(z3.Or(z3.Bool('a'), z3.Bool('b')).decl(), fb_refs(a), in_refs(a))


def some_ref(R, x):
    return And(R[w_ref(R, x)], Or(fb_refs(w_ref(R, x))[x], in_refs(w_ref(R, x))[x]))


def some_sv(R, x):
    return And(R[w_svr(R, x)], svs_of(w_svr(R, x))[x])


def item_in(S, x):
    return And(S[w_its(S, x)], items_of(w_its(S, x))[x])


def some_item(R, x):
    return And(R[w_itr(R, x)], item_in(svs_of(w_itr(R, x)), x))


def _choice_walk(c):
    R, S = z3.Const('ch_R', SO.sort()), z3.Const('ch_S', SO.sort())
    a, sv, x = z3.Consts('ch_a ch_sv ch_x', OBJ.sort())
    # instantiated where the witness terms w(R, x) occur; the routine / state vector ranges over the shallow terms
    return [QHyp([R, x, a], Implies(And(R[a], Or(fb_refs(a)[x], in_refs(a)[x])), some_ref(R, x)), 'choice.ref', triggers=[(w_ref, (0, 1))]),
            QHyp([R, x, a], Implies(And(R[a], svs_of(a)[x]), some_sv(R, x)), 'choice.sv', triggers=[(w_svr, (0, 1))]),
            QHyp([S, x, sv], Implies(And(S[sv], items_of(sv)[x]), item_in(S, x)), 'choice.item', triggers=[(w_its, (0, 1))]),
            QHyp([R, x, a], Implies(And(R[a], item_in(svs_of(a), x)), some_item(R, x)), 'choice.routine-item', triggers=[(w_itr, (0, 1))])]


def _seen(view, cb):
    return view.g('ghost.seen.' + cb)


def _unchanged(c, since, but=()):
    x = c.sk('x', OBJ)
    return {'others-unchanged': And(*[_seen(c.cur, cb)[x] == _seen(since, cb)[x] for cb in CBS if cb not in but])}


def _kind_contrib(kind, x):
    """what walking one factory kind adds to each callback's set"""
    k = atom(kind)
    b = bot_of(k)
    R = routines(b)
    p = has_factory(k)
    if kind == 'events':
        return {'ifmom': And(p, events_of(b)[x])}
    top, each = {'analysis': ('ifanl', 'ifanz'), 'task': ('ifbot', 'ifalg'), 'regress': ('ifret', 'ifrec')}[kind]
    return {top: And(p, x == b), each: And(p, R[x]), 'ifref': And(p, some_ref(R, x)), 'ifsv': And(p, some_sv(R, x)), 'ifv': And(p, some_item(R, x))}


@contract(W, 'dawgie/tools/compliant.py', '_walk', props=['C16'])
class walk(ContractBase):
    """every element of the package is shown to the callback meant for it, and nothing else is"""
    params = dict({'task': ATOM}, **{cb: _cb(cb) for cb in CBS})
    modifies = ['ghost.seen.' + cb for cb in CBS]
    externs = dict({'importlib.import_module': Extern(fn=lambda ex, a, k, e: Dotted('ae_package'))},
                   **{'ae_package.' + k_: Extern(fn=(lambda kk: lambda ex, a, k, e: V(bot_of(atom(kk)), OBJ))(k_)) for k_ in KINDS})
    assumes = [_choice_walk]
    max_inst = 3000
    same_skolem = True

    def ensures(c):
        x = c.sk('x', OBJ)
        out = {}
        for cb in CBS:
            adds = [kc[cb] for kc in (_kind_contrib(k, x) for k in KINDS) if cb in kc]
            out['exactly.' + cb] = _seen(c.cur, cb)[x] == Or(_seen(c.old, cb)[x], *adds)
        return out

    @staticmethod
    def _inv_routines(each):
        def inv(c):
            x = c.sk('x', OBJ)
            out = _unchanged(c, c.entry, but=(each, 'ifref', 'ifsv', 'ifv'))
            out.update({each: _seen(c.cur, each)[x] == Or(_seen(c.entry, each)[x], c.done[x]),
                        'ifref': _seen(c.cur, 'ifref')[x] == Or(_seen(c.entry, 'ifref')[x], some_ref(c.done, x)),
                        'ifsv': _seen(c.cur, 'ifsv')[x] == Or(_seen(c.entry, 'ifsv')[x], some_sv(c.done, x)),
                        'ifv': _seen(c.cur, 'ifv')[x] == Or(_seen(c.entry, 'ifv')[x], some_item(c.done, x))})
            return out
        return inv

    def _inv_refs(c):
        x = c.sk('x', OBJ)
        out = _unchanged(c, c.entry, but=('ifref',))
        out['ifref'] = _seen(c.cur, 'ifref')[x] == Or(_seen(c.entry, 'ifref')[x], c.done[x])
        return out

    def _inv_svs(c):
        x = c.sk('x', OBJ)
        out = _unchanged(c, c.entry, but=('ifsv', 'ifv'))
        out['ifsv'] = _seen(c.cur, 'ifsv')[x] == Or(_seen(c.entry, 'ifsv')[x], c.done[x])
        out['ifv'] = _seen(c.cur, 'ifv')[x] == Or(_seen(c.entry, 'ifv')[x], item_in(c.done, x))
        return out

    def _inv_items(c):
        x = c.sk('x', OBJ)
        out = _unchanged(c, c.entry, but=('ifv',))
        out['ifv'] = _seen(c.cur, 'ifv')[x] == Or(_seen(c.entry, 'ifv')[x], c.done[x])
        return out

    def _inv_moments(c):
        x = c.sk('x', OBJ)
        out = _unchanged(c, c.entry, but=('ifmom',))
        out['ifmom'] = _seen(c.cur, 'ifmom')[x] == Or(_seen(c.entry, 'ifmom')[x], c.done[x])
        return out


_M = ['ghost.seen.' + cb for cb in CBS]
walk.loops = {'for a in bot.routines()': Loop(inv=lambda c: walk._by_kind(c), modifies=_M),
              'for r in bot.routines()': Loop(inv=walk._inv_routines('ifrec'), modifies=_M),
              'for ref in ': Loop(inv=walk._inv_refs, modifies=_M),
              'for sv in ': Loop(inv=walk._inv_svs, modifies=_M),
              'for i in sv.items()': Loop(inv=walk._inv_items, modifies=_M),
              'for m in bot': Loop(inv=walk._inv_moments, modifies=_M)}


def _by_kind(c):
    """`for a in bot.routines()` occurs in the analysis and in the task branch: which one is told by the enum member `e`"""
    e = c.ex.st.env.get('e')
    each = 'ifanz' if e is _dawgie.Factories.analysis else 'ifalg'
    return walk._inv_routines(each)(c)


walk._by_kind = staticmethod(_by_kind)


# ------------------------------------------------------------------------------------------------ replay of _verify
def _verify_replay(model, vc):
    """the packages, the rule names and each rule's verdict (True / False / raises) of the solver's model, played through
    the real _verify with stand-in rule functions installed in the real module"""
    import logging
    import dawgie.tools.compliant as comp
    ev = lambda t: model.eval(t, model_completion=True)
    uni = list(model.get_universe(ATOM.sort()) or [])
    tasks_t = vc.inputs.get('tasks')
    if tasks_t is None or not uni:
        return None
    tasks = [a for a in uni if z3.is_true(ev(tasks_t[a]))]
    rules = [a for a in uni if z3.is_true(ev(RULES[a]))]
    table = {(str(r), str(t)): ('raise' if z3.is_true(ev(rule_raises(r, t))) else bool(z3.is_true(ev(rule_ok(r, t))))) for r in rules for t in tasks}
    names = {str(r): 'rule_replay_%d' % i for i, r in enumerate(rules)}
    saved_get = comp._get_rules
    installed = []
    logging.disable(logging.CRITICAL)
    try:
        for r, fn_name in names.items():
            def mk(r=r):
                def rule(t):
                    v = table[(r, t)]
                    if v == 'raise':
                        raise RuntimeError('stand-in rule raises')
                    return v
                return rule
            setattr(comp, fn_name, mk())
            installed.append(fn_name)
        comp._get_rules = lambda: iter(sorted(names.values()))
        got = comp._verify([str(t) for t in tasks], True, False)
    except Exception as e:
        return {'reproduced': True, 'input': {'verdicts': {'%s(%s)' % k: v for k, v in table.items()}}, 'observed': '%s: %s' % (type(e).__name__, e), 'expected': 'a boolean'}
    finally:
        comp._get_rules = saved_get
        for n in installed:
            delattr(comp, n)
        logging.disable(logging.NOTSET)
    want = all(v is True for v in table.values())
    if bool(got) != want:
        return {'reproduced': True, 'input': {'packages': [str(t) for t in tasks], 'verdicts': {'%s(%s)' % k: v for k, v in table.items()}},
                'observed': got, 'expected': want}
    # the model of a loop-step obligation describes an intermediate state, not necessarily a reachable run: vary it over the
    # smallest inputs (two packages, two rules, each verdict True / False / raises) and report the first that fails for real
    import itertools
    for combo in itertools.product((True, False, 'raise'), repeat=4):
        small = {('r0', 'p0'): combo[0], ('r1', 'p0'): combo[1], ('r0', 'p1'): combo[2], ('r1', 'p1'): combo[3]}
        fns = {}
        for r in ('r0', 'r1'):
            def mk(r=r):
                def rule(t):
                    v = small[(r, t)]
                    if v == 'raise':
                        raise RuntimeError('stand-in rule raises')
                    return v
                return rule
            fns['rule_replay_' + r] = mk()
        logging.disable(logging.CRITICAL)
        try:
            for n, f in fns.items():
                setattr(comp, n, f)
            comp._get_rules = lambda: iter(sorted(fns))
            g2 = comp._verify(['p0', 'p1'], True, False)
        finally:
            comp._get_rules = saved_get
            for n in fns:
                delattr(comp, n)
            logging.disable(logging.NOTSET)
        w2 = all(v is True for v in small.values())
        if bool(g2) != w2:
            return {'reproduced': True, 'found_by': 'varying the counter-model over the smallest inputs', 'input': {'packages': ['p0', 'p1'], 'verdicts': {'%s(%s)' % k: v for k, v in small.items()}},
                    'observed': g2, 'expected': w2}
    return {'reproduced': False, 'input': {'packages': [str(t) for t in tasks][:6]}, 'observed': got, 'expected': want}


verify_.replay = staticmethod(_verify_replay)
