"""Contract registry, loader of the real source, and small helpers for writing specifications."""
import ast
import os
import z3
from .core import Loop, Extern, Unsupported, source_hash
from .types import *      # noqa: F401,F403  (re-exported for contract files)

REPO = os.environ.get('VERIF_REPO', '/repo')
PYROOT = os.path.join(REPO, 'Python')

_module_cache = {}


def module_ast(relfile):
    path = os.path.join(PYROOT, relfile)
    if path not in _module_cache:
        with open(path, 'rt', encoding='utf-8') as f:
            src = f.read()
        _module_cache[path] = (ast.parse(src, filename=path), src)
    return _module_cache[path]


def find_def(tree, qual):
    """locate `Class.method`, `func`, or `outer.<locals>.inner`"""
    parts = [p for p in qual.split('.') if p != '<locals>']
    node = tree
    for p in parts:
        found = None
        want_setter = p.endswith('@setter')
        p = p.replace('@setter', '')
        for ch in ast.walk(node) if isinstance(node, (ast.FunctionDef,)) else ast.iter_child_nodes(node):
            if isinstance(ch, (ast.FunctionDef, ast.ClassDef, ast.AsyncFunctionDef)) and ch.name == p and ch is not node:
                is_setter = any(isinstance(d, ast.Attribute) and d.attr == 'setter' for d in getattr(ch, 'decorator_list', []))
                if is_setter != want_setter:
                    continue
                found = ch
                break
        if found is None:
            raise Unsupported('cannot find %s (missing %s)' % (qual, p))
        node = found
    return node


class ContractBase:
    inline = False


class SpecError(Exception):
    pass


def contract(world, file, qual, props=(), module=None):
    """class decorator: register a sidecar contract for the function `qual` of `file` (relative to Python/)"""

    def deco(cls):
        cls.file, cls.qual, cls.props = file, qual, list(props)
        mod = module or file[:-3].replace('/', '.')
        if mod.endswith('.__init__'):
            mod = mod[:-9]
            cls.is_package = True
        cls.module = mod
        cls.path = mod + '.' + qual.replace('.<locals>', '')
        cls.param_names = list(getattr(cls, 'params', {}).keys())
        # plain functions stored in the class body act as static spec functions
        for nm in ('requires', 'ensures', 'ensures_on_raise'):
            f = cls.__dict__.get(nm)
            if f is not None and not isinstance(f, staticmethod):
                setattr(cls, nm, staticmethod(f))

        def load_ast(cls=cls):
            tree, src = module_ast(cls.file)
            return find_def(tree, cls.qual)

        def get_module_ast(cls=cls):
            return module_ast(cls.file)[0]
        cls.load_ast = staticmethod(load_ast)
        cls.module_ast = property(lambda self: get_module_ast())
        type.__setattr__(cls, 'module_ast', _LazyModuleAst(get_module_ast))
        # a stub is an assumed frame some caller's proof needs; it never hides a real contract of the same function
        # from verification: the real one stays in world.contracts (and is what other callers see), the stub is used
        # only by the contracts of the module that declares it
        if getattr(cls, 'stub', False):
            if not hasattr(world, 'stubs'):
                world.stubs = {}
            world.stubs.setdefault(cls.path, []).append(cls)
            if cls.path not in world.contracts:
                world.contracts[cls.path] = cls
        else:
            prev = world.contracts.get(cls.path)
            if prev is not None and not getattr(prev, 'stub', False) and prev.__module__ != cls.__module__ and prev is not cls:
                raise SpecError('two contracts for %s (%s and %s)' % (cls.path, prev.__module__, cls.__module__))
            world.contracts[cls.path] = cls
        return cls
    return deco


class _LazyModuleAst:
    """descriptor so that `cls.module_ast` reads the file on first use"""

    def __init__(self, f):
        self.f = f

    def __get__(self, obj, objtype=None):
        return self.f()


def source_info(k):
    tree, src = module_ast(k.file)
    fn = find_def(tree, k.qual)
    seg = ast.get_source_segment(src, fn) or ''
    return {'path': os.path.join('Python', k.file), 'qualname': k.qual, 'lines': [fn.lineno, fn.end_lineno],
            'sha256': source_hash(seg)}


# ---------------------------------------------------------------- spec helpers (z3 level)
def Implies(a, b):
    return z3.Implies(a, b)


def And(*a):
    return z3.And(*a) if a else z3.BoolVal(True)


def Or(*a):
    return z3.Or(*a) if a else z3.BoolVal(False)


def Not(a):
    return z3.Not(a)


def If(c, a, b):
    return z3.If(c, a, b)


def B(x):
    return z3.BoolVal(bool(x))


def I(x):
    return z3.IntVal(x)


def mem(x, s):
    return s[x]


def empty(ty):
    return ty.empty()


def union(a, b):
    from .core import _or_decl
    return z3.Map(_or_decl(), a, b)


def inter(a, b):
    from .core import _and_decl
    return z3.Map(_and_decl(), a, b)


def diff(a, b):
    from .core import _and_decl, _not_decl
    return z3.Map(_and_decl(), a, z3.Map(_not_decl(), b))


def subset(a, b):
    from .core import _and_decl
    return z3.Map(_and_decl(), a, b) == a
