"""World: the semantic models of Python's own types and builtins, plus the registries (schema of heap fields and
globals, contracts, assumed externals) that contracts/*.py fill in.  The executor calls back into this object
for everything that is not pure control flow."""
import ast
import importlib
import z3
from .core import (V, C, Lam, Dotted, Bound, Iter, Unsupported, SpecError, SpecCtx, QHyp, _Raise, FieldLoc, GlobLoc,
                   BoxLoc, UNBOUND, Extern, _and_decl, _or_decl, _not_decl)
from .types import (Ty, INT, BOOL, STR, ATOM, BYTES, REAL, Ref, Enum, SetOf, SeqOf, Opt, MapOf, Rec, ListOf, atom)


def builtin(f):
    f._pyvc_builtin = True
    return f


class World:
    def __init__(self):
        self.fields = {}        # 'Class.attr' -> Ty
        self.globals = {}       # 'pkg.mod.name' -> Ty
        self.contracts = {}     # 'pkg.mod.func' / 'pkg.mod.Class.meth' -> contract class
        self.externs = {}       # dotted path -> Extern
        self.class_path = {}    # Ref class name -> 'pkg.mod.Class'
        self.enums = {}         # python enum class -> Enum Ty
        self.methods = {}       # ('Class', 'meth') -> python model fn(ex, recv, args, kwargs, line)
        self.rec_methods = {}   # ('RecName', 'meth') -> model
        self.py_objects = {}    # dotted path -> concrete python object override
        self.properties = {}    # ('Class', 'attr') -> (getter contract path, setter contract path)
        self.imports_cache = {}
        self.trusted = []

    # ------------------------------------------------------------------ registration
    def declare_fields(self, cls, **fields):
        for k, t in fields.items():
            self.fields['%s.%s' % (cls, k)] = t

    def declare_global(self, path, ty):
        self.globals[path] = ty

    def enum(self, pyenum):
        if pyenum not in self.enums:
            self.enums[pyenum] = Enum(pyenum.__name__, [m.name for m in pyenum])
        return self.enums[pyenum]

    # ------------------------------------------------------------------ state
    def init_state(self, ex, st):
        for fk, ty in self.fields.items():
            cls = fk.split('.')[0]
            st.heap[fk] = z3.Const('H_' + fk, z3.ArraySort(Ref(cls).sort(), ty.sort()))
        for gk, ty in self.globals.items():
            st.glob[gk] = z3.Const('G_' + gk, ty.sort())

    def invariants(self, ex, c):
        return []

    def field_type(self, fk):
        return self.fields.get(fk)

    def global_type(self, gk):
        return self.globals[gk]

    # ------------------------------------------------------------------ names
    def module_of(self, ex):
        return getattr(ex.k, 'module', None)

    def module_imports(self, ex):
        mod = self.module_of(ex)
        if mod in self.imports_cache:
            return self.imports_cache[mod]
        names = {}
        tree = ex.module_ast
        for n in tree.body:
            if isinstance(n, ast.Import):
                for a in n.names:
                    if a.asname:
                        names[a.asname] = a.name
                    else:
                        names[a.name.split('.')[0]] = a.name.split('.')[0]
            elif isinstance(n, ast.ImportFrom):
                base = n.module or ''
                if n.level:
                    parts = mod.split('.')
                    # a module file pkg/mod.py: level 1 -> pkg ; package __init__: level 1 -> pkg itself
                    is_pkg = getattr(ex.k, 'is_package', False)
                    up = parts if is_pkg else parts[:-1]
                    up = up[:len(up) - (n.level - 1)] if n.level > 1 else up
                    base = '.'.join(up + ([n.module] if n.module else []))
                for a in n.names:
                    names[a.asname or a.name] = base + '.' + a.name
        self.imports_cache[mod] = names
        return names

    def global_key(self, ex, name):
        mod = self.module_of(ex)
        if mod and (mod + '.' + name) in self.globals:
            return mod + '.' + name
        imp = self.module_imports(ex).get(name)
        if imp and imp in self.globals:
            return imp
        return None

    def resolve_global(self, ex, path):
        return path if path in self.globals else None

    def resolve_name(self, ex, name):
        imp = self.module_imports(ex).get(name)
        if imp is not None:
            r = self.resolve_path(ex, imp)
            return r if r is not None else Dotted(imp)
        mod = self.module_of(ex)
        if mod:
            full = mod + '.' + name
            if full in self.contracts or full in self.externs or full in self.py_objects:
                return Dotted(full)
            if self._module_defines(ex, name):
                r = self.resolve_path(ex, full)
                return r if r is not None else Dotted(full)
        if name in BUILTINS:
            return BUILTINS[name]
        if name in ('True', 'False', 'None'):
            return {'True': True, 'False': False, 'None': None}[name]
        if name in EXC_NAMES:
            return Dotted('builtins.' + name)
        return None

    def _module_defines(self, ex, name):
        for n in ex.module_ast.body:
            if isinstance(n, (ast.FunctionDef, ast.ClassDef)) and n.name == name:
                return True
            if isinstance(n, ast.Assign):
                for t in n.targets:
                    if isinstance(t, ast.Name) and t.id == name:
                        return True
        return False

    def resolve_path(self, ex, path):
        """constants, enum members and classes are taken from the real imported modules"""
        if path in self.py_objects:
            return self.py_objects[path]
        if path in self.contracts or path in self.externs or path in self.globals:
            return None
        obj = self._import_path(path)
        if obj is _MISSING:
            return None
        import enum
        import types
        if isinstance(obj, enum.Enum):
            return obj
        if isinstance(obj, type) and issubclass(obj, enum.Enum):
            return PyClass(obj, path)
        if isinstance(obj, (int, str, bytes, float, bool)) or obj is None:
            # a module attribute is a constant only when the contract says so (an upper-case name such as
            # farm.ARCHIVE may well be reassigned at run time); otherwise it must be a declared global
            if path in getattr(ex.k, 'constants', ()) or path in getattr(self, 'constants', ()):
                return obj
            raise Unsupported('module attribute %s is neither a declared global nor a declared constant' % path)
        if isinstance(obj, type):
            return PyClass(obj, path)
        if isinstance(obj, types.ModuleType):
            return None
        return None

    def _import_path(self, path):
        parts = path.split('.')
        for i in range(len(parts), 0, -1):
            try:
                obj = importlib.import_module('.'.join(parts[:i]))
            except Exception:
                continue
            try:
                for p in parts[i:]:
                    obj = getattr(obj, p)
                return obj
            except AttributeError:
                return _MISSING
        return _MISSING

    def enum_of(self, v):
        import enum
        if isinstance(v, enum.Enum):
            return self.enum(type(v))
        return None

    def atom_truth(self, ex, t):
        return t != atom('')

    def local_type(self, ex, name, v):
        return (getattr(ex.k, 'locals', {}) or {}).get(name)

    # ------------------------------------------------------------------ attribute hooks
    def ref_attr(self, ex, base, attr, line):
        return None

    def rec_attr(self, ex, base, attr, line):
        return None

    def py_attr(self, ex, base, attr):
        if isinstance(base, PyClass):
            try:
                obj = getattr(base.cls, attr)
            except AttributeError:
                return None
            import enum
            if isinstance(obj, enum.Enum):
                return obj
            return Dotted(base.path + '.' + attr)
        import enum
        if isinstance(base, enum.Enum):
            if attr == 'name':
                return base.name
            if attr == 'value':
                return base.value
        if isinstance(base, dict) and attr in ('items', 'keys', 'values', 'get'):
            return Bound(base, attr)
        return None

    def user_compare(self, ex, op, a, b, line):
        return None

    def user_contains(self, ex, coll, x, line):
        return None

    def user_binop(self, ex, op, a, b, line):
        return None

    def user_index(self, ex, base, key, line):
        return None

    def order(self, ex, op, ty, ta, tb):
        return None

    def to_str(self, ex, v, line, spec=None):
        if isinstance(v, V) and isinstance(v.ty, Opt):
            v = ex.unwrap(v, line)
        if isinstance(v, str):
            return v
        if isinstance(v, int) and spec is None:
            return str(v)
        if isinstance(v, V) and v.ty == STR:
            return v
        if isinstance(v, V) and v.ty == INT:
            return V(int_to_str(v.t), STR)
        raise Unsupported('str() of %r' % (v,))

    def isinstance(self, ex, v, cls, e):
        classes = cls if isinstance(cls, tuple) else (cls,)
        res = False
        for c in classes:
            if c is BUILTINS['str']:
                res = res or isinstance(v, str) or (isinstance(v, V) and v.ty in (ATOM, STR))
            elif c is BUILTINS['int']:
                if isinstance(v, V) and isinstance(v.ty, Opt) and v.ty.inner == INT:
                    return V(z3.Not(v.ty.is_none(v.t)), BOOL)       # an optional int is an int exactly when it is not None
                res = res or (isinstance(v, int) and not isinstance(v, bool)) or (isinstance(v, V) and v.ty == INT)
            elif c is BUILTINS['list']:
                res = res or isinstance(v, list) or (isinstance(v, C) and (isinstance(v.ty, SeqOf) or getattr(v.ty, 'listlike', False)))
            elif c is BUILTINS['bytes']:
                res = res or isinstance(v, bytes) or (isinstance(v, V) and v.ty == BYTES)
            else:
                r = self.isinstance_user(ex, v, c, e)
                if r is None:
                    raise Unsupported('isinstance(%r, %r)' % (v, c))
                if not isinstance(r, bool):
                    return r
                res = res or r
        return res

    def isinstance_user(self, ex, v, c, e):
        return None

    def with_enter(self, ex, item, line):
        raise Unsupported('with statement')

    # ------------------------------------------------------------------ collections
    def iter_source(self, ex, src, line):
        if isinstance(src, C):
            if isinstance(src.ty, (SetOf, SeqOf, ListOf)):
                return src
            if isinstance(src.ty, MapOf):
                return self.map_keys(ex, src)
        return None

    def map_keys(self, ex, m):
        t = ex.read(m)
        ks = ex.fresh('keys', SetOf(m.ty.k))
        k = z3.Const('qk_%s' % ks, m.ty.k.sort())
        ex.st.qh.append(QHyp([k], ks[k] == z3.Not(m.ty.opt.is_none(t[k])), 'keys'))
        return ex.newbox(ks, SetOf(m.ty.k))

    def materialize(self, ex, it, ty=None):
        base = it.base
        if isinstance(base, Iter):
            base = self.materialize(ex, base)
        if isinstance(base, (list, tuple, set, frozenset)):
            out = []
            for x in base:
                if it.filt is not None:
                    t = ex.truth(ex.apply_lam(it.filt, [x]))
                    if not ex.decide(t):
                        continue
                out.append(ex.apply_lam(it.fmap, [x]) if it.fmap is not None else x)
            return out
        src = self.iter_source(ex, base, 0)
        if src is None:
            raise Unsupported('materialize over %r' % (base,))
        ety = src.ty.elem
        st = ex.read(src)
        if isinstance(src.ty, SeqOf):
            raise Unsupported('filter/map over a sequence (use a contract with a set view)')
        x = z3.Const(ex.path.fresh_name('qx'), ety.sort())
        xv = ex.wrap(x, ety)
        cond = st[x]
        ex.no_fork = getattr(ex, 'no_fork', 0) + 1
        try:
            if it.filt is not None:
                t = ex.truth(ex.apply_lam(it.filt, [xv]))
                cond = z3.And(cond, t if not isinstance(t, bool) else z3.BoolVal(t))
            if it.fmap is None:
                rty = SetOf(ety, listlike=getattr(src.ty, 'listlike', False))
                r = ex.fresh('filt', rty)
                ex.st.qh.append(QHyp([x], r[x] == cond, 'filter'))
                return ex.newbox(r, rty)
            y = ex.apply_lam(it.fmap, [xv])
        finally:
            ex.no_fork -= 1
        yty = ex.ty_of(y) if ty is None or not isinstance(ty, SetOf) else ty.elem
        yt = ex.to_z3(y, yty)
        rty = SetOf(yty)
        r = ex.fresh('image', rty)
        w = z3.Function(ex.path.fresh_name('wit'), yty.sort(), ety.sort())
        ex.st.qh.append(QHyp([x], z3.Implies(cond, r[yt]), 'image>'))
        yy = z3.Const(ex.path.fresh_name('qy'), yty.sort())
        back = z3.substitute(z3.And(cond, yt == yy), (x, w(yy)))
        ex.st.qh.append(QHyp([yy], z3.Implies(r[yy], back), 'image<'))
        return ex.newbox(r, rty)

    def make_dict(self, ex, args, kwargs, e):
        """dict(<set of (k, v) pairs that is functional in k>)"""
        src = args[0]
        if isinstance(src, Iter):
            src = self.materialize(ex, src)
        if isinstance(src, C) and isinstance(src.ty, SetOf) and isinstance(src.ty.elem, Rec) and list(src.ty.elem.fields) == ['_0', '_1']:
            pty = src.ty.elem
            kty, vty = pty.fields['_0'], pty.fields['_1']
            mty = MapOf(kty, vty)
            S = ex.read(src)
            m = ex.fresh('dict', mty)
            kk = z3.Const(ex.path.fresh_name('qk'), kty.sort())
            vv = z3.Const(ex.path.fresh_name('qv'), vty.sort())
            ex.st.qh.append(QHyp([kk, vv], z3.Implies(S[pty.mk(kk, vv)], m[kk] == mty.opt.some(vv)), 'dict.of>'))
            ex.st.qh.append(QHyp([kk], z3.Implies(z3.Not(mty.opt.is_none(m[kk])), S[pty.mk(kk, mty.opt.val(m[kk]))]), 'dict.of<'))
            return ex.newbox(m, mty)
        if isinstance(src, C) and isinstance(src.ty, MapOf):
            return ex.newbox(ex.read(src), src.ty)
        raise Unsupported('dict(%r)' % (src,))

    def dict_comp(self, ex, it, fmap, line):
        """{k(x): v(x) for x in S}: a map whose domain is the image of S under k; with several x per key
        the entry is one of them (CPython keeps the last in iteration order, which for a set is arbitrary)"""
        src = self.iter_source(ex, it.base, line)
        if src is None or isinstance(src.ty, SeqOf):
            raise Unsupported('dict comprehension source')
        ety = src.ty.elem
        st = ex.read(src)
        x = z3.Const(ex.path.fresh_name('qx'), ety.sort())
        xv = ex.wrap(x, ety)
        cond = st[x]
        ex.no_fork = getattr(ex, 'no_fork', 0) + 1
        try:
            if it.filt is not None:
                t = ex.truth(ex.apply_lam(it.filt, [xv]))
                cond = z3.And(cond, t)
            kx = ex.apply_lam(fmap[0], [xv])
            vx = ex.apply_lam(fmap[1], [xv])
        finally:
            ex.no_fork -= 1
        kty, vty = ex.ty_of(kx), ex.ty_of(vx)
        mty = MapOf(kty, vty)
        m = ex.fresh('dict', mty)
        kt, vt = ex.to_z3(kx, kty), ex.to_z3(vx, vty)
        # every source element's key is present, and what is stored under it is a source element with that key
        kk = z3.Const(ex.path.fresh_name('qk'), kty.sort())
        stored = mty.opt.val(m[kk])
        present = z3.Not(mty.opt.is_none(m[kk]))
        ex.st.qh.append(QHyp([x], z3.Implies(cond, z3.Not(mty.opt.is_none(m[kt]))), 'dict>'))
        if vty == ety and _is_identity(vt, x):
            back = z3.And(z3.substitute(cond, (x, stored)), z3.substitute(kt, (x, stored)) == kk)
            ex.st.qh.append(QHyp([kk], z3.Implies(present, back), 'dict<'))
        else:
            w = z3.Function(ex.path.fresh_name('wit'), kty.sort(), ety.sort())
            back = z3.And(z3.substitute(cond, (x, w(kk))), z3.substitute(kt, (x, w(kk))) == kk,
                          z3.substitute(vt, (x, w(kk))) == stored)
            ex.st.qh.append(QHyp([kk], z3.Implies(present, back), 'dict<'))
        return ex.newbox(m, mty)

    # ------------------------------------------------------------------ calls
    def call_value(self, ex, f, args, kwargs, e):
        if isinstance(f, PyClass):
            return self.construct(ex, f, args, kwargs, e)
        return NotImplemented

    def make_record(self, ex, rec, args, kwargs, e):
        names = list(rec.fields)
        vals = {}
        for nm, v in zip(names, args):
            vals[nm] = v
        vals.update(kwargs)
        ts = []
        for nm in names:
            if nm not in vals:
                raise Unsupported('record %s: field %s not given' % (rec.name, nm))
            ts.append(ex.to_z3(vals[nm], rec.fields[nm]))
        return V(rec.mk(*ts), rec)

    def construct(self, ex, pc, args, kwargs, e):
        import enum
        if pc.path in getattr(self, 'rec_classes', {}):
            return self.make_record(ex, self.rec_classes[pc.path], args, kwargs, e)
        if issubclass(pc.cls, enum.Enum) and len(args) == 1 and not ex.is_sym(args[0]):
            try:
                return pc.cls(args[0])
            except ValueError:
                raise _Raise('ValueError', e.lineno)
        if issubclass(pc.cls, enum.Enum) and len(args) == 1 and isinstance(args[0], V):
            for m in pc.cls:
                if ex.decide(ex.equal(args[0], m.value, e.lineno), e.lineno):
                    return m
            raise _Raise('ValueError', e.lineno)
        if pc.path in self.externs or pc.path in self.contracts or pc.path in (getattr(ex.k, 'externs', None) or {}):
            return self.call_function(ex, pc.path, args, kwargs, e)
        raise Unsupported('construction of %s' % pc.path)

    def call_function(self, ex, path, args, kwargs, e):
        line = e.lineno
        ov = getattr(ex.k, 'externs', None)
        if ov and path in ov:
            return self.call_extern(ex, ov[path], path, args, kwargs, e)
        if path in getattr(self, 'rec_classes', {}):
            return self.make_record(ex, self.rec_classes[path], args, kwargs, e)
        if path in self.contracts:
            kc = self.contracts[path]
            # a stub declared by the module of the function under proof is that proof's (assumed) view of the callee
            root = getattr(ex, 'root_k', None) or ex.k
            for st in getattr(self, 'stubs', {}).get(path, []):
                if st.__module__ == root.__module__:
                    kc = st
                    break
            return self.call_contract(ex, kc, path, args, kwargs, e)
        if path in self.externs:
            return self.call_extern(ex, self.externs[path], path, args, kwargs, e)
        if path.startswith('builtins.') and path.split('.')[-1] in BUILTINS:
            return BUILTINS[path.split('.')[-1]](ex, args, kwargs, e)
        # a bare name of the module not otherwise known
        mod = self.module_of(ex)
        if mod and '.' not in path:
            full = mod + '.' + path
            if full in self.contracts or full in self.externs:
                return self.call_function(ex, full, args, kwargs, e)
        raise Unsupported('call of %s (no contract, not declared external) at line %d' % (path, line))

    def call_contract(self, ex, kc, path, args, kwargs, e):
        names = kc.param_names
        vals = list(args)
        if callable(getattr(kc, 'model', None)):
            return kc.model(ex, vals, kwargs, e)
        for nm in names[len(vals):]:
            if nm in kwargs:
                vals.append(kwargs[nm])
            elif nm in getattr(kc, 'defaults', {}):
                vals.append(kc.defaults[nm])
            else:
                raise Unsupported('missing argument %s in call of %s' % (nm, path))
        if getattr(kc, 'inline', False) or path in (getattr(ex.k, 'inline_callees', None) or ()):
            return ex.inline(kc, path, vals, e.lineno)
        return ex.apply_contract(kc, kc.qual, vals, e.lineno)

    def call_extern(self, ex, x, path, args, kwargs, e):
        if x.drop:
            return None
        if x.fn is not None:
            return x.fn(ex, args, kwargs, e)
        if x.ret is None:
            return None
        t = z3.Const(ex.path.fresh_name('ext_' + path.split('.')[-1]), x.ret.sort())
        return ex.wrap(t, x.ret)

    def call_method(self, ex, recv, name, args, kwargs, line):
        if isinstance(recv, Iter):
            recv = ex.materialize(recv)
        if isinstance(recv, C):
            ty = recv.ty
            if isinstance(ty, SetOf):
                return self.set_method(ex, recv, name, args, kwargs, line)
            if isinstance(ty, SeqOf):
                return self.seq_method(ex, recv, name, args, kwargs, line)
            if isinstance(ty, ListOf):
                return self.list_method(ex, recv, name, args, kwargs, line)
            if isinstance(ty, MapOf):
                return self.map_method(ex, recv, name, args, kwargs, line)
        if isinstance(recv, V):
            if isinstance(recv.ty, Opt):
                recv = ex.unwrap(recv, line)
            if isinstance(recv.ty, Ref):
                cls = recv.ty.cls
                own = getattr(ex.k, 'methods', None)
                if own and (cls, name) in own:
                    return own[(cls, name)](ex, recv, args, kwargs, line)     # a lighter assumed model chosen by this contract
                if (cls, name) in self.methods:
                    return self.methods[(cls, name)](ex, recv, args, kwargs, line)
                cp = self.class_path.get(cls)
                if cp and (cp + '.' + ex.mangle_for(cls, name)) in self.contracts:
                    path = cp + '.' + ex.mangle_for(cls, name)
                    return self.call_contract(ex, self.contracts[path], path, [recv] + list(args), kwargs, _L(line))
                if cp and (cp + '.' + name) in self.externs:
                    return self.call_extern(ex, self.externs[cp + '.' + name], cp + '.' + name, [recv] + list(args), kwargs, _L(line))
                for base in getattr(self, 'bases', {}).get(cls, ()):       # inherited method under contract
                    bp = self.class_path.get(base)
                    if bp and (bp + '.' + ex.mangle_for(base, name)) in self.contracts:
                        path = bp + '.' + ex.mangle_for(base, name)
                        return self.call_contract(ex, self.contracts[path], path, [recv] + list(args), kwargs, _L(line))
                raise Unsupported('method %s.%s has no contract (line %d)' % (cls, name, line))
            if isinstance(recv.ty, Rec):
                key = (recv.ty.name, name)
                if key in self.rec_methods:
                    return self.rec_methods[key](ex, recv, args, kwargs, line)
                raise Unsupported('method %s of record %s' % (name, recv.ty.name))
            if recv.ty in (STR, BYTES):
                return self.str_method(ex, recv, name, args, kwargs, line)
            if recv.ty == ATOM:
                return self.atom_method(ex, recv, name, args, kwargs, line)
        if isinstance(recv, (str, bytes)):
            if all(not ex.is_sym(a) for a in args):
                if name == 'join' and args and any(ex.is_sym(x) for x in args[0]):
                    pass
                else:
                    return getattr(recv, name)(*args, **kwargs)
            return self.str_method(ex, V(ex.to_z3(recv, STR if isinstance(recv, str) else BYTES), STR if isinstance(recv, str) else BYTES), name, args, kwargs, line)
        if isinstance(recv, list):
            return self.pylist_method(ex, recv, name, args, kwargs, line)
        if isinstance(recv, dict):
            if name == 'items':
                return list(recv.items())
            if name == 'keys':
                return list(recv.keys())
            if name == 'values':
                return list(recv.values())
            if name == 'get' and not ex.is_sym(args[0]):
                return recv.get(args[0], args[1] if len(args) > 1 else None)
            if name == '__setitem__' and not ex.is_sym(args[0]):
                recv[args[0]] = args[1]
                return None
            if name == 'copy':
                return dict(recv)
        if isinstance(recv, Dotted):
            return self.call_function(ex, recv.path + '.' + name, args, kwargs, _L(line))
        if isinstance(recv, Lam) and name == 'callback':
            return ex.apply_lam(recv, args[:len(recv.args)], kwargs, line)
        raise Unsupported('method %s on %r (line %d)' % (name, recv, line))

    def pylist_method(self, ex, recv, name, args, kwargs, line):
        if name == 'append':
            recv.append(args[0])
            return None
        if name == 'extend':
            a = args[0]
            if isinstance(a, (list, tuple)):
                recv.extend(a)
                return None
        if name == 'copy':
            return list(recv)
        if name == 'clear':
            recv.clear()
            return None
        raise Unsupported('list method %s on a concrete list with symbolic content' % name)

    # sets (and lists modelled as sets)
    def set_method(self, ex, recv, name, args, kwargs, line):
        ty = recv.ty
        t = ex.read(recv)
        E = ty.elem
        if name in ('add', 'append'):
            x = ex.to_z3(args[0], E)
            if name == 'append':
                if not ty.listlike:
                    raise Unsupported('append on a set')
                if not getattr(ty, 'dups_ok', False):
                    ex.vc('nodup.append@%d' % line, z3.Not(t[x]), line, note='list modelled as set: element appended twice')
            ex.write(recv, z3.Store(t, x, True), line)
            return None
        if name in ('discard',):
            ex.write(recv, z3.Store(t, ex.to_z3(args[0], E), False), line)
            return None
        if name == 'remove':
            x = ex.to_z3(args[0], E)
            ex.maybe_raise('ValueError' if ty.listlike else 'KeyError', z3.Not(t[x]), line)
            if getattr(ty, 'dups_ok', False):
                # a list with possible duplicates: one occurrence goes, whether another remains is not known
                ex.write(recv, z3.Store(t, x, ex.fresh('still_there', BOOL)), line)
                return None
            ex.write(recv, z3.Store(t, x, False), line)
            return None
        if name in ('update', 'extend', '__ior__'):
            for a in args:
                o = self.as_set_term(ex, a, E)
                if name == 'extend' and ty.listlike and not getattr(ty, 'dups_ok', False):
                    ex.vc('nodup.extend@%d' % line, z3.Map(_and_decl(), t, o) == ty.empty(), line)
                t = z3.Map(_or_decl(), t, o)
            ex.write(recv, t, line)
            return None
        if name in ('difference_update', '__isub__'):
            o = self.as_set_term(ex, args[0], E)
            ex.write(recv, z3.Map(_and_decl(), t, z3.Map(_not_decl(), o)), line)
            return None
        if name == 'difference':
            o = self.as_set_term(ex, args[0], E)
            return ex.newbox(z3.Map(_and_decl(), t, z3.Map(_not_decl(), o)), SetOf(E))
        if name == 'issubset':
            o = self.as_set_term(ex, args[0], E)
            return V(z3.Map(_and_decl(), t, o) == t, BOOL)
        if name == 'clear':
            ex.write(recv, ty.empty(), line)
            return None
        if name == 'copy':
            return ex.newbox(t, ty)
        if name == 'count' and ty.listlike and not getattr(ty, 'dups_ok', False):
            return V(z3.If(t[ex.to_z3(args[0], E)], z3.IntVal(1), z3.IntVal(0)), INT)
        if name == 'count' and ty.listlike:
            n = ex.fresh('count', INT)
            ex.assume(z3.And(n >= 0, (n > 0) == t[ex.to_z3(args[0], E)]))
            return V(n, INT)
        if name == 'sort' and ty.listlike:
            # order is abstracted, but the sort key is remembered: [0] / [-1] of a list sorted by key f are a
            # minimal / maximal element with respect to f
            key = kwargs.get('key')
            if isinstance(key, Lam) and isinstance(recv.loc, BoxLoc):
                ex.st.ghost['sortkey:%s' % recv.loc.bid] = (key, bool(kwargs.get('reverse', False)))
            return None
        if name == '__getitem__' and ty.listlike:
            # order abstracted: any member
            ex.maybe_raise('IndexError', t == ty.empty(), line)
            x = ex.fresh('elem', E)
            ex.assume(t[x])
            sk = ex.st.ghost.get('sortkey:%s' % recv.loc.bid) if isinstance(recv.loc, BoxLoc) else None
            if sk is not None and not ex.is_sym(args[0]) and args[0] in (0, -1):
                lam, rev = sk
                want_max = (args[0] == -1) != rev
                y = z3.Const(ex.path.fresh_name('qy'), E.sort())
                ex.no_fork = getattr(ex, 'no_fork', 0) + 1
                try:
                    fx = ex._num(ex.apply_lam(lam, [ex.wrap(x, E)]))
                    fy = ex._num(ex.apply_lam(lam, [ex.wrap(y, E)]))
                finally:
                    ex.no_fork -= 1
                ex.st.qh.append(QHyp([y], z3.Implies(t[y], fy <= fx if want_max else fx <= fy), 'sorted.extreme'))
            return ex.wrap(x, E)
        if name == 'pop' and ty.listlike:
            if not getattr(ty, 'dups_ok', False):
                card(ex, t, ty)         # makes the cardinality facts of the current list available
            ex.maybe_raise('IndexError', t == ty.empty(), line)
            x = ex.fresh('pop', E)
            ex.assume(t[x])
            t2 = z3.Store(t, x, False)
            if not getattr(ty, 'dups_ok', False):
                ex.assume(card(ex, t2, ty) == card(ex, t, ty) - 1)      # a duplicate-free list loses exactly one member
            ex.write(recv, t2, line)
            return ex.wrap(x, E)
        raise Unsupported('set method %s (line %d)' % (name, line))

    def as_set_term(self, ex, a, E):
        if isinstance(a, Iter):
            a = ex.materialize(a, SetOf(E))
        if isinstance(a, C):
            if isinstance(a.ty, SetOf):
                return ex.read(a)
            if isinstance(a.ty, SeqOf):
                s = ex.read(a)
                r = ex.fresh('asset', SetOf(E))
                x = z3.Const(ex.path.fresh_name('qx'), E.sort())
                ex.st.qh.append(QHyp([x], r[x] == z3.Contains(s, z3.Unit(x)), 'seq2set'))
                return r
            if isinstance(a.ty, MapOf):
                return ex.read(self.map_keys(ex, a))
        if isinstance(a, (list, tuple, set, frozenset)):
            t = SetOf(E).empty()
            for x in a:
                t = z3.Store(t, ex.to_z3(x, E), True)
            return t
        if a is None:
            return SetOf(E).empty()
        raise Unsupported('cannot view %r as a set' % (a,))

    def seq_method(self, ex, recv, name, args, kwargs, line):
        ty = recv.ty
        t = ex.read(recv)
        E = ty.elem
        if name == 'append':
            ex.write(recv, z3.Concat(t, z3.Unit(ex.to_z3(args[0], E))), line)
            return None
        if name == 'extend':
            a = args[0]
            if isinstance(a, C) and isinstance(a.ty, SeqOf):
                ex.write(recv, z3.Concat(t, ex.read(a)), line)
                return None
            if isinstance(a, (list, tuple)):
                for x in a:
                    t = z3.Concat(t, z3.Unit(ex.to_z3(x, E)))
                ex.write(recv, t, line)
                return None
            raise Unsupported('extend with %r' % (a,))
        if name == 'pop':
            n = z3.Length(t)
            ex.maybe_raise('IndexError', n == 0, line)
            if args and not ex.is_sym(args[0]) and args[0] == 0:
                ex.write(recv, z3.SubSeq(t, 1, n - 1), line)
                return ex.wrap(t[0], E)
            if not args:
                ex.write(recv, z3.SubSeq(t, 0, n - 1), line)
                return ex.wrap(t[n - 1], E)
            raise Unsupported('pop(i)')
        if name == 'clear':
            ex.write(recv, ty.empty(), line)
            return None
        if name == 'copy':
            return ex.newbox(t, ty)
        if name == '__getitem__':
            k = ex._num(args[0])
            n = z3.Length(t)
            k = z3.If(k < 0, k + n, k)
            ex.maybe_raise('IndexError', z3.Not(z3.And(k >= 0, k < n)), line)
            return ex.wrap(t[k], E)
        if name == 'count':
            x = ex.to_z3(args[0], E)
            c = ex.fresh('count', INT)
            ex.assume(c >= 0)
            ex.assume((c > 0) == z3.Contains(t, z3.Unit(x)))
            return V(c, INT)
        if name == 'remove':
            x = ex.to_z3(args[0], E)
            ex.maybe_raise('ValueError', z3.Not(z3.Contains(t, z3.Unit(x))), line)
            r = ex.fresh('removed', ty)
            y = z3.Const(ex.path.fresh_name('qy'), E.sort())
            ex.assume(z3.Length(r) == z3.Length(t) - 1)
            ex.st.qh.append(QHyp([y], z3.Implies(y != x, z3.Contains(r, z3.Unit(y)) == z3.Contains(t, z3.Unit(y))), 'seq.remove'))
            ex.write(recv, r, line)
            return None
        if name == 'sort':
            # result is a permutation; order abstracted: same length and membership
            r = ex.fresh('sorted', ty)
            x = z3.Const(ex.path.fresh_name('qx'), E.sort())
            ex.assume(z3.Length(r) == z3.Length(t))
            ex.st.qh.append(QHyp([x], z3.Contains(r, z3.Unit(x)) == z3.Contains(t, z3.Unit(x)), 'sort'))
            ex.write(recv, r, line)
            return None
        raise Unsupported('sequence method %s (line %d)' % (name, line))

    def list_method(self, ex, recv, name, args, kwargs, line):
        ty = recv.ty
        t = ex.read(recv)
        E = ty.elem
        n, arr = ty.len(t), ty.arr(t)
        if name == 'append':
            ex.write(recv, ty.mk(n + 1, z3.Store(arr, n, ex.to_z3(args[0], E))), line)
            return None
        if name == 'extend':
            a = args[0]
            if isinstance(a, (list, tuple)):
                for x in a:
                    arr = z3.Store(arr, n, ex.to_z3(x, E))
                    n = n + 1
                ex.write(recv, ty.mk(n, arr), line)
                return None
            if isinstance(a, C) and isinstance(a.ty, ListOf):
                o = ex.read(a)
                j = z3.Int(ex.path.fresh_name('ex_j'))
                ex.write(recv, ty.mk(n + ty.len(o), z3.Lambda([j], z3.If(j < n, arr[j], ty.arr(o)[j - n]))), line)
                return None
            raise Unsupported('list.extend with %r' % (a,))
        if name == '__getitem__':
            k = ex._num(args[0])
            k = z3.If(k < 0, k + n, k)
            ex.maybe_raise('IndexError', z3.Not(z3.And(k >= 0, k < n)), line)
            return ex.wrap(arr[k], E)
        if name == '__setitem__':
            k = ex._num(args[0])
            k = z3.If(k < 0, k + n, k)
            ex.maybe_raise('IndexError', z3.Not(z3.And(k >= 0, k < n)), line)
            ex.write(recv, ty.mk(n, z3.Store(arr, k, ex.to_z3(args[1], E))), line)
            return None
        if name == 'pop':
            ex.maybe_raise('IndexError', n <= 0, line)
            if args and not ex.is_sym(args[0]) and args[0] == 0:
                j = z3.Int(ex.path.fresh_name('pop_j'))
                ex.write(recv, ty.mk(n - 1, z3.Lambda([j], arr[j + 1])), line)
                return ex.wrap(arr[0], E)
            if not args:
                ex.write(recv, ty.mk(n - 1, arr), line)
                return ex.wrap(arr[n - 1], E)
            raise Unsupported('list.pop(i)')
        if name == 'clear':
            ex.write(recv, ty.mk(z3.IntVal(0), arr), line)
            return None
        if name == 'copy':
            return ex.newbox(t, ty)
        raise Unsupported('list method %s (line %d)' % (name, line))

    def map_method(self, ex, recv, name, args, kwargs, line):
        ty = recv.ty
        t = ex.read(recv)
        if name == '__getitem__':
            k = ex.to_z3(args[0], ty.k)
            ex.maybe_raise('KeyError', ty.opt.is_none(t[k]), line)
            return ex.wrap(ty.opt.val(t[k]), ty.v)
        if name == '__setitem__':
            k = ex.to_z3(args[0], ty.k)
            ex.write(recv, z3.Store(t, k, ty.opt.some(ex.to_z3(args[1], ty.v))), line)
            return None
        if name == '__delitem__':
            k = ex.to_z3(args[0], ty.k)
            ex.maybe_raise('KeyError', ty.opt.is_none(t[k]), line)
            ex.write(recv, z3.Store(t, k, ty.opt.none()), line)
            return None
        if name == 'get':
            k = ex.to_z3(args[0], ty.k)
            if len(args) > 1 and args[1] is not None:
                d = ex.to_z3(args[1], ty.v)
                return ex.wrap(z3.If(ty.opt.is_none(t[k]), d, ty.opt.val(t[k])), ty.v)
            return V(t[k], ty.opt)
        if name == 'keys':
            return self.map_keys(ex, recv)
        if name == 'items':
            # the set of (key, value) pairs of the map
            from .types import Tup
            pty = Tup(ty.k, ty.v)
            S = ex.fresh('items', SetOf(pty))
            kk = z3.Const(ex.path.fresh_name('qk'), ty.k.sort())
            vv = z3.Const(ex.path.fresh_name('qv'), ty.v.sort())
            ex.st.qh.append(QHyp([kk, vv], S[pty.mk(kk, vv)] == (t[kk] == ty.opt.some(vv)), 'items'))
            pp = z3.Const(ex.path.fresh_name('qp'), pty.sort())
            ex.st.qh.append(QHyp([pp], S[pp] == (t[pty.get(pp, '_0')] == ty.opt.some(pty.get(pp, '_1'))), 'items.pair'))
            return ex.newbox(S, SetOf(pty))
        if name == 'update':
            o = args[0]
            if isinstance(o, C) and isinstance(o.ty, MapOf) and o.ty.name == ty.name:
                ot = ex.read(o)
                r = ex.fresh('updated', ty)
                kk = z3.Const(ex.path.fresh_name('qk'), ty.k.sort())
                ex.st.qh.append(QHyp([kk], r[kk] == z3.If(ty.opt.is_none(ot[kk]), t[kk], ot[kk]), 'dict.update'))
                ex.write(recv, r, line)
                return None
            if isinstance(o, dict) and not o:
                return None
            raise Unsupported('dict.update with %r' % (o,))
        if name == 'values':
            r = ex.fresh('values', SetOf(ty.v))
            vv = z3.Const(ex.path.fresh_name('qv'), ty.v.sort())
            kk = z3.Const(ex.path.fresh_name('qk'), ty.k.sort())
            w = z3.Function(ex.path.fresh_name('keyof'), ty.v.sort(), ty.k.sort())
            ex.st.qh.append(QHyp([kk], z3.Implies(z3.Not(ty.opt.is_none(t[kk])), r[ty.opt.val(t[kk])]), 'values>'))
            ex.st.qh.append(QHyp([vv], z3.Implies(r[vv], t[w(vv)] == ty.opt.some(vv)), 'values<'))
            return ex.newbox(r, SetOf(ty.v, listlike=True))
        if name == 'clear':
            ex.write(recv, ty.empty(), line)
            return None
        if name == 'copy':
            return ex.newbox(t, ty)
        raise Unsupported('map method %s (line %d)' % (name, line))

    def str_method(self, ex, recv, name, args, kwargs, line):
        t, ty = recv.t, recv.ty
        if ty == STR and ex.opaque_strings and name in ('find', 'startswith', 'endswith'):
            a = [ex.to_z3(args[0], STR)] + [ex._num(x) for x in args[1:2]]
            f = z3.Function('str_%s%d' % (name, len(a)), *([STR.sort()] + [x.sort() for x in a] + [z3.IntSort() if name == 'find' else z3.BoolSort()]))
            return V(f(t, *a), INT if name == 'find' else BOOL)
        if name == 'startswith':
            return V(z3.PrefixOf(ex.to_z3(args[0], ty), t), BOOL)
        if name == 'endswith':
            return V(z3.SuffixOf(ex.to_z3(args[0], ty), t), BOOL)
        if name == 'find':
            if len(args) > 1:
                return V(z3.IndexOf(t, ex.to_z3(args[0], ty), ex._num(args[1])), INT)
            return V(z3.IndexOf(t, ex.to_z3(args[0], ty), 0), INT)
        if name == 'encode':
            raise Unsupported('str.encode')
        raise Unsupported('string method %s (line %d)' % (name, line))

    def atom_method(self, ex, recv, name, args, kwargs, line):
        raise Unsupported('method %s on an opaque name (line %d)' % (name, line))


class PyClass:
    def __init__(self, cls, path):
        self.cls, self.path = cls, path

    def __repr__(self):
        return 'PyClass(%s)' % self.path


class _L:
    def __init__(self, line):
        self.lineno = line


_MISSING = object()
EXC_NAMES = {'ValueError', 'TypeError', 'KeyError', 'IndexError', 'RuntimeError', 'Exception', 'NotImplementedError',
             'ArithmeticError', 'AttributeError', 'NameError', 'OSError', 'FileNotFoundError'}


def _is_identity(vt, x):
    return vt.get_id() == x.get_id()


_i2s = {}


def istr(t):
    """str(n) as an uninterpreted function of n; what proofs need of it (injective, decimal digits and '-' only) is
    stated where it is used.  z3's own int.to.str made its sequence solver return unsound `sat` answers."""
    return z3.Function('str_of_int', z3.IntSort(), STR.sort())(t)


def int_to_str(t):
    return istr(t)


# ---------------------------------------------------------------------- builtins
@builtin
def b_len(ex, args, kwargs, e):
    v = args[0]
    if isinstance(v, Iter):
        v = ex.materialize(v)
    if isinstance(v, C):
        t = ex.read(v)
        if isinstance(v.ty, SeqOf):
            return V(z3.Length(t), INT)
        if isinstance(v.ty, ListOf):
            return V(v.ty.len(t), INT)
        if isinstance(v.ty, SetOf):
            n = card(ex, t, v.ty)
            return V(n, INT)
        if isinstance(v.ty, MapOf):
            n = ex.fresh('len', INT)
            ex.assume(n >= 0)
            ex.assume((n == 0) == (t == v.ty.empty()))
            return V(n, INT)
    if isinstance(v, V) and v.ty in (STR, BYTES):
        return V(z3.Length(v.t), INT)
    if not ex.is_sym(v):
        return len(v)
    raise Unsupported('len of %r' % (v,))


_card = {}


def card_fn(ty):
    key = ty.name
    if key not in _card:
        _card[key] = z3.Function('card_' + ty.elem.name, ty.sort(), z3.IntSort())
    return _card[key]


def _sym_range(self, ex, n, e):
    """range(n) for a symbolic n: the list 0..n-1 as (length, identity array)"""
    nt = ex._num(n)
    ty = ListOf(INT)
    j = z3.Int(ex.path.fresh_name('rg_j'))
    return ex.newbox(ty.mk(z3.If(nt < 0, z3.IntVal(0), nt), z3.Lambda([j], j)), ty)


World.sym_range = _sym_range


def card(ex, t, ty):
    """cardinality of a finite set as an uninterpreted function with the facts the proofs here need"""
    key = ty.name
    if key not in _card:
        _card[key] = z3.Function('card_' + ty.elem.name, ty.sort(), z3.IntSort())
    f = _card[key]
    n = f(t)
    ex.assume(n >= 0)
    ex.assume((n == 0) == (t == ty.empty()))
    return n


PURE_METHODS = {'get', 'startswith', 'endswith', 'count', 'keys', 'values', 'items', 'find', 'lower', 'strip', 'split', 'index'}
PURE_FUNCS = {'len', 'isinstance', 'getattr', 'hasattr', 'str', 'int', 'bool', 'all', 'any', 'abs', 'min', 'max', 'sorted', 'list', 'set'}


def _effectful(lam):
    if not isinstance(lam, Lam) or not lam.is_expr:
        return False
    for n in ast.walk(lam.body):
        if isinstance(n, ast.Call):
            f = n.func
            if isinstance(f, ast.Attribute) and f.attr in PURE_METHODS:
                continue
            if isinstance(f, ast.Name) and f.id in PURE_FUNCS:
                continue
            return True
    return False


def synth_filter_loop(ex, it, e):
    """list(filter(f, S)) with a side-effecting predicate is executed as the loop it is:
         tmp = []; for x in S: (if f(x): tmp.append(x))        cut by an invariant keyed 'for <x> in <S source>'"""
    lam = it.filt
    src = ex.world.iter_source(ex, it.base, e.lineno)
    if src is None:
        raise Unsupported('effectful filter over %r' % (it.base,))
    ety = src.ty.elem
    tmpname = '__filtered_%d' % e.lineno
    xname = lam.args[0] if isinstance(lam.args[0], str) else ast.unparse(lam.args[0])
    rty = SetOf(ety, listlike=True)
    ex.st.env[tmpname] = ex.newbox(rty.empty(), rty)
    body = ast.If(test=lam.body, body=[ast.Expr(ast.Call(func=ast.Attribute(value=ast.Name(id=tmpname, ctx=ast.Load()), attr='append', ctx=ast.Load()),
                                                            args=[ast.Name(id=xname, ctx=ast.Load())], keywords=[]))], orelse=[])
    srcexpr = e.args[0].args[1] if (isinstance(e, ast.Call) and e.args and isinstance(e.args[0], ast.Call) and len(e.args[0].args) == 2) else ast.Name(id='<filter>', ctx=ast.Load())
    loop = ast.For(target=ast.Name(id=xname, ctx=ast.Store()), iter=srcexpr, body=[body], orelse=[])
    ast.copy_location(loop, e)
    ast.fix_missing_locations(loop)
    ex.register_synth_loop(loop)
    # closure variables of the lambda must be visible to the loop body
    saved = ex.st.env
    env = dict(lam.env)
    env.update(saved)
    ex.st.env = env
    try:
        ex.loop_cut(loop, src, None, None)
    finally:
        cur = ex.st.env
        res = cur[tmpname]
        for k2 in list(cur):
            if k2 in saved or k2 == tmpname:
                saved[k2] = cur[k2]
        ex.st.env = saved
    return res


@builtin
def b_list(ex, args, kwargs, e):
    if not args:
        return []
    v = args[0]
    if isinstance(v, Iter) and v.fmap is None and _effectful(v.filt) and not isinstance(v.base, (list, tuple, set)):
        return synth_filter_loop(ex, v, e)
    if isinstance(v, Iter):
        return ex.materialize(v)
    if isinstance(v, C):
        if isinstance(v.ty, SetOf):
            return ex.newbox(ex.read(v), SetOf(v.ty.elem, listlike=True))
        if isinstance(v.ty, SeqOf):
            return ex.newbox(ex.read(v), v.ty)
        if isinstance(v.ty, MapOf):
            k = ex.world.map_keys(ex, v)
            return ex.newbox(ex.read(k), SetOf(v.ty.k, listlike=True))
    if isinstance(v, (list, tuple, set, frozenset, dict)):
        return list(v)
    raise Unsupported('list(%r)' % (v,))


@builtin
def b_set(ex, args, kwargs, e):
    if not args:
        return ex.new_empty_set(e)
    v = args[0]
    if isinstance(v, Iter):
        m = ex.materialize(v)
        if isinstance(m, list):
            return m
        return ex.newbox(ex.read(m), SetOf(m.ty.elem))
    if isinstance(v, C) and isinstance(v.ty, SetOf):
        return ex.newbox(ex.read(v), SetOf(v.ty.elem))
    if isinstance(v, C) and isinstance(v.ty, SeqOf):
        return ex.newbox(ex.world.as_set_term(ex, v, v.ty.elem), SetOf(v.ty.elem))
    if isinstance(v, (list, tuple, set)):
        if any(ex.is_sym(x) for x in v):
            return list(v)
        return set(v)
    raise Unsupported('set(%r)' % (v,))


@builtin
def b_sorted(ex, args, kwargs, e):
    v = args[0]
    if isinstance(v, Iter):
        v = ex.materialize(v)
    if isinstance(v, C) and isinstance(v.ty, SetOf):
        return ex.newbox(ex.read(v), SetOf(v.ty.elem, listlike=True))     # order abstracted
    if isinstance(v, C) and isinstance(v.ty, MapOf):
        k = ex.world.map_keys(ex, v)
        return ex.newbox(ex.read(k), SetOf(v.ty.k, listlike=True))
    if isinstance(v, (list, tuple, set, dict)) and not any(ex.is_sym(x) for x in v) and not kwargs:
        return sorted(v)
    if isinstance(v, (list, tuple)):
        return list(v)      # concrete list of symbolic values: order abstracted is not expressible; keep as is
    raise Unsupported('sorted(%r)' % (v,))


@builtin
def b_filter(ex, args, kwargs, e):
    f, src = args
    if not isinstance(f, Lam):
        raise Unsupported('filter with a non-lambda')
    return Iter(src, filt=f)


@builtin
def b_map(ex, args, kwargs, e):
    f, src = args
    return Iter(src, fmap=f)


@builtin
def b_isinstance(ex, args, kwargs, e):
    return ex.world.isinstance(ex, args[0], args[1], e)


@builtin
def b_any(ex, args, kwargs, e):
    return _anyall(ex, args[0], True, e)


@builtin
def b_all(ex, args, kwargs, e):
    return _anyall(ex, args[0], False, e)


def _anyall(ex, v, is_any, e):
    if isinstance(v, C) and isinstance(v.ty, SetOf):
        v = Iter(v)         # any(xs) / all(xs) over a collection itself
    if isinstance(v, Iter) and not isinstance(v.base, (list, tuple, set, frozenset)):
        src = ex.world.iter_source(ex, v.base if not isinstance(v.base, Iter) else ex.materialize(v.base), e.lineno)
        if src is None or isinstance(src.ty, SeqOf):
            raise Unsupported('any/all over %r' % (v.base,))
        ety = src.ty.elem
        st = ex.read(src)
        x = z3.Const(ex.path.fresh_name('qx'), ety.sort())
        xv = ex.wrap(x, ety)
        ex.no_fork = getattr(ex, 'no_fork', 0) + 1
        try:
            cond = st[x]
            if v.filt is not None:
                cond = z3.And(cond, ex.truth(ex.apply_lam(v.filt, [xv])))
            body = ex.truth(ex.apply_lam(v.fmap, [xv])) if v.fmap is not None else ex.truth(xv)
        finally:
            ex.no_fork -= 1
        body = body if not isinstance(body, bool) else z3.BoolVal(body)
        r = ex.fresh('any' if is_any else 'all', BOOL)
        w = ex.fresh('witness', ety)
        if is_any:
            ex.st.qh.append(QHyp([x], z3.Implies(z3.And(cond, body), r), 'any>'))
            ex.assume(z3.Implies(r, z3.substitute(z3.And(cond, body), (x, w))))
        else:
            ex.st.qh.append(QHyp([x], z3.Implies(z3.And(r, cond), body), 'all>'))
            ex.assume(z3.Implies(z3.Not(r), z3.substitute(z3.And(cond, z3.Not(body)), (x, w))))
        return V(r, BOOL)
    if isinstance(v, Iter):
        v = ex.materialize(v)
    if isinstance(v, (list, tuple)):
        ts = [ex.truth(x) for x in v]
        if all(isinstance(t, bool) for t in ts):
            return any(ts) if is_any else all(ts)
        ts = [t if not isinstance(t, bool) else z3.BoolVal(t) for t in ts]
        return V(z3.Or(*ts) if is_any else z3.And(*ts), BOOL)
    raise Unsupported('any/all of %r' % (v,))


@builtin
def b_sum(ex, args, kwargs, e):
    v = args[0]
    if isinstance(v, Iter):
        v = ex.materialize(v)
    if isinstance(v, (list, tuple)):
        tot = 0
        for x in v:
            tot = ex.binop(ast.Add(), tot, x, e.lineno)
        return tot
    raise Unsupported('sum over a symbolic collection')


@builtin
def b_min(ex, args, kwargs, e):
    return _minmax(ex, args, True, e)


@builtin
def b_max(ex, args, kwargs, e):
    return _minmax(ex, args, False, e)


def _minmax(ex, args, is_min, e):
    vals = list(args[0]) if len(args) == 1 and isinstance(args[0], (list, tuple)) else list(args)
    if len(args) == 1 and not isinstance(args[0], (list, tuple)):
        return ex.world.minmax_coll(ex, args[0], is_min, e)
    if not vals:
        raise _Raise('ValueError', e.lineno)
    if not any(ex.is_sym(v) for v in vals):
        return min(vals) if is_min else max(vals)
    acc = ex._num(vals[0])
    for v in vals[1:]:
        t = ex._num(v)
        acc = z3.If(t < acc, t, acc) if is_min else z3.If(t > acc, t, acc)
    return V(acc, INT)


@builtin
def b_int(ex, args, kwargs, e):
    v = args[0]
    if isinstance(v, V) and v.ty == INT:
        return v
    if isinstance(v, V) and v.ty == BOOL:
        return V(z3.If(v.t, z3.IntVal(1), z3.IntVal(0)), INT)
    if isinstance(v, V) and v.ty == STR:
        return ex.world.str_to_int(ex, v, e)
    if not ex.is_sym(v):
        return int(v)
    raise Unsupported('int(%r)' % (v,))


@builtin
def b_bool(ex, args, kwargs, e):
    t = ex.truth(args[0], e.lineno)
    return t if isinstance(t, bool) else V(t, BOOL)


@builtin
def b_str(ex, args, kwargs, e):
    return ex.world.to_str(ex, args[0], e.lineno)


@builtin
def b_round(ex, args, kwargs, e):
    v = args[0]
    if isinstance(v, V) and v.ty == INT:
        return v
    if not ex.is_sym(v):
        return round(v)
    return ex.world.round(ex, v, e)


@builtin
def b_range(ex, args, kwargs, e):
    if all(not ex.is_sym(a) for a in args):
        return range(*args)
    if len(args) == 1:
        return ex.world.sym_range(ex, args[0], e)
    raise Unsupported('symbolic range with start')


@builtin
def b_zip(ex, args, kwargs, e):
    if all(isinstance(a, (list, tuple)) for a in args):
        return list(zip(*args))
    raise Unsupported('zip over symbolic collections')


@builtin
def b_enumerate(ex, args, kwargs, e):
    if isinstance(args[0], (list, tuple)):
        return list(enumerate(args[0]))
    raise Unsupported('enumerate over a symbolic collection')


@builtin
def b_tuple(ex, args, kwargs, e):
    if not args:
        return ()
    if isinstance(args[0], (list, tuple)):
        return tuple(args[0])
    raise Unsupported('tuple(%r)' % (args[0],))


@builtin
def b_dict(ex, args, kwargs, e):
    if not args and not kwargs:
        return {}
    return ex.world.make_dict(ex, args, kwargs, e)


@builtin
def b_getattr(ex, args, kwargs, e):
    if isinstance(args[1], str):
        return ex.getattr(args[0], args[1], e.lineno)
    return ex.world.dyn_getattr(ex, args[0], args[1], e)


@builtin
def b_hasattr(ex, args, kwargs, e):
    return ex.world.hasattr(ex, args[0], args[1], e)


@builtin
def b_bytes(ex, args, kwargs, e):
    return ex.world.to_bytes(ex, args[0], e)


@builtin
def b_abs(ex, args, kwargs, e):
    v = args[0]
    if isinstance(v, V):
        return V(z3.If(v.t < 0, -v.t, v.t), v.ty)
    return abs(v)


BUILTINS = {'len': b_len, 'list': b_list, 'set': b_set, 'sorted': b_sorted, 'filter': b_filter, 'map': b_map,
            'isinstance': b_isinstance, 'any': b_any, 'all': b_all, 'sum': b_sum, 'min': b_min, 'max': b_max,
            'int': b_int, 'bool': b_bool, 'str': b_str, 'round': b_round, 'range': b_range, 'zip': b_zip,
            'enumerate': b_enumerate, 'tuple': b_tuple, 'dict': b_dict, 'getattr': b_getattr, 'hasattr': b_hasattr,
            'bytes': b_bytes, 'abs': b_abs}
