"""Verify one contract: regenerate obligations from the current source and discharge them."""
import time
import traceback
from .core import Exec, Unsupported, SpecError
from .solve import discharge
from .spec import source_info


class FnReport:
    def __init__(self, k):
        self.k = k
        self.results = []
        self.error = None          # contract drift / unsupported construct
        self.info = None
        self.stats = {}
        self.time_s = 0.0


def verify_contract(world, k, use_cvc5=True):
    rep = FnReport(k)
    t0 = time.time()
    try:
        rep.info = source_info(k)
        fn = k.load_ast()
        ex = Exec(fn, k, world, k.qual)
        vcs = ex.run()
        rep.stats = {'paths': ex.paths, 'interpreted': ex.interpreted, 'dropped_logging': ex.dropped,
                     'abstracted': ex.abstracted}
        if not vcs:
            rep.error = 'zero obligations generated'
        elif not getattr(ex, 'endpoints', 0):
            rep.error = 'engine error: no feasible path reaches a normal return of %s (vacuous contract?)' % k.qual
        rep.stats['returns_reached'] = getattr(ex, 'endpoints', 0)
        for vc in vcs:
            rep.results.append(discharge(vc, use_cvc5))
    except (Unsupported, SpecError) as e:
        rep.error = '%s: %s' % (type(e).__name__, e)
    except Exception as e:     # engine bug: never a verdict
        import os
        if os.environ.get('PYVC_RAISE'):
            raise
        rep.error = "engine error: %s | %s" % (e, " <- ".join(traceback.format_exc().strip().splitlines()[-6:]))
    rep.time_s = time.time() - t0
    return rep
