"""Verify one contract: regenerate obligations from the current source and discharge them."""
import json
import os
import tempfile
import time
import traceback
from .core import Exec, Unsupported, SpecError
from .solve import discharge, Result
from .spec import source_info

PAR_MIN = 24        # obligations of one function are discharged by forked helpers above this count
PAR_N = int(os.environ.get('PYVC_PAR', '4'))


class FnReport:
    def __init__(self, k):
        self.k = k
        self.results = []
        self.error = None          # contract drift / unsupported construct
        self.info = None
        self.stats = {}
        self.time_s = 0.0


class LiteResult:
    """what a forked helper sends back about one obligation (z3 objects do not cross processes)"""

    def __init__(self, vc, d):
        self.vc, self.status, self.backend, self.time_s, self.detail = vc, d['status'], d['backend'], d['time_s'], d['detail']
        self.model, self.model_summary, self.replay = None, d.get('model_summary'), d.get('replay')

    @property
    def ok(self):
        return self.status == ('sat' if self.vc.expect == 'sat' else 'unsat')


def _summarise(k, r):
    out = {'status': r.status, 'backend': r.backend, 'time_s': r.time_s, 'detail': r.detail}
    if not r.ok and r.model is not None:
        ms = {}
        for nm, t in (r.vc.inputs or {}).items():
            try:
                ms[nm] = str(r.model.eval(t, model_completion=True))
            except Exception:
                pass
        out['model_summary'] = ms
        f = getattr(k, 'replay', None)
        if f is not None:
            try:
                out['replay'] = f(r.model, r.vc)
            except Exception as e:
                out['replay'] = {'reproduced': False, 'error': 'replay failed: %s' % e}
    return out


def discharge_all(k, vcs, use_cvc5=True):
    """sequentially for small functions; otherwise PAR_N forked helpers take every PAR_N-th obligation each"""
    if len(vcs) < PAR_MIN or PAR_N <= 1:
        out = []
        for vc in vcs:
            r = discharge(vc, use_cvc5)
            out.append(LiteResult(vc, _summarise(k, r)))
        return out
    tmp = tempfile.mkdtemp(prefix='pyvc_')
    pids = []
    for w in range(PAR_N):
        pid = os.fork()
        if pid == 0:
            code = 0
            try:
                res = {}
                for i in range(w, len(vcs), PAR_N):
                    try:
                        res[i] = _summarise(k, discharge(vcs[i], use_cvc5))
                    except Exception as e:      # a solver-side failure is an undecided obligation, never a verdict
                        res[i] = {'status': 'unknown', 'backend': '-', 'time_s': 0.0, 'detail': 'solver error: %s' % e}
                with open(os.path.join(tmp, '%d.json' % w), 'w') as f:
                    json.dump(res, f, default=str)
            except BaseException:
                code = 1
            os._exit(code)
        pids.append(pid)
    for pid in pids:
        os.waitpid(pid, 0)
    merged = {}
    for w in range(PAR_N):
        p = os.path.join(tmp, '%d.json' % w)
        if os.path.exists(p):
            with open(p) as f:
                merged.update({int(i): d for i, d in json.load(f).items()})
            os.unlink(p)
    os.rmdir(tmp)
    out = []
    for i, vc in enumerate(vcs):
        d = merged.get(i) or {'status': 'unknown', 'backend': '-', 'time_s': 0.0, 'detail': 'helper process died'}
        out.append(LiteResult(vc, d))
    return out


def verify_contract(world, k, use_cvc5=True):
    rep = FnReport(k)
    t0 = time.time()
    try:
        rep.info = source_info(k)
        fn = k.load_ast()
        # a decorator changes what the name denotes (a cache, a wrapper ...): only the transparent ones are understood
        for d in getattr(fn, 'decorator_list', []):
            import ast as _ast
            txt = _ast.unparse(d)
            if txt not in ('staticmethod', 'classmethod', 'property', 'typing.final', 'abc.abstractmethod') and not txt.endswith('.setter') \
                    and txt not in (getattr(k, 'decorators', None) or ()):
                raise Unsupported('function %s is decorated with @%s, which its contract does not account for' % (k.qual, txt))
        ex = Exec(fn, k, world, k.qual)
        vcs = ex.run()
        rep.stats = {'paths': ex.paths, 'interpreted': ex.interpreted, 'dropped_logging': ex.dropped,
                     'abstracted': ex.abstracted}
        if not vcs:
            rep.error = 'zero obligations generated'
        elif not getattr(ex, 'endpoints', 0):
            rep.error = 'engine error: no feasible path reaches a normal return of %s (vacuous contract?)' % k.qual
        rep.stats['returns_reached'] = getattr(ex, 'endpoints', 0)
        # one reachable path per canary point is what the vacuity guard needs: canaries of the same point on further paths
        # are only consulted while none has been found satisfiable yet
        first, later, seen = [], [], set()
        for vc in vcs:
            if vc.expect == 'sat' and vc.name in seen:
                later.append(vc)
            else:
                if vc.expect == 'sat':
                    seen.add(vc.name)
                first.append(vc)
        results = discharge_all(k, first, use_cvc5)
        live = {r.vc.name for r in results if r.vc.expect == 'sat' and r.ok}
        skipped = 0
        for vc in later:
            if vc.name in live:
                skipped += 1
                continue
            r = LiteResult(vc, _summarise(k, discharge(vc, use_cvc5)))
            results.append(r)
            if r.ok:
                live.add(vc.name)
        rep.stats['canaries_not_needed'] = skipped
        rep.results = results
    except (Unsupported, SpecError) as e:
        rep.error = '%s: %s' % (type(e).__name__, e)
    except Exception as e:     # engine bug: never a verdict
        if os.environ.get('PYVC_RAISE'):
            raise
        rep.error = "engine error: %s | %s" % (e, " <- ".join(traceback.format_exc().strip().splitlines()[-6:]))
    rep.time_s = time.time() - t0
    return rep
