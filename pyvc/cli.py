"""./check <ID> [--tier quick|thorough] [--replay file]   — decide one property on the current tree.

exit 0: every obligation discharged and every bounded stand-in clean (KNOWN-FINDING lines allowed)
exit 1: at least one `VIOLATION property=<id> replay=<path>` line
exit 2: undecided (an obligation neither solver decides and the bounded layer found nothing)
exit 3: the machinery itself failed (never a verdict)
"""
import argparse
import fnmatch
import importlib
import json
import multiprocessing
import os
import re
import shutil
import subprocess
import sys
import tempfile
import time
import traceback

HERE = os.path.dirname(os.path.dirname(os.path.abspath(__file__)))
REPO = os.environ.get('VERIF_REPO', '/repo')


def _assert_repo():
    import dawgie
    if not dawgie.__file__.startswith(REPO + '/Python/'):
        print('check: dawgie imported from %s, not from %s/Python' % (dawgie.__file__, REPO), file=sys.stderr)
        sys.exit(3)


# ------------------------------------------------------------------------------------------ proof layer
def _verify_one(args):
    """runs in a worker process: regenerate + discharge the obligations of one contract"""
    modname, path, pid, tier = args
    out = {'path': path, 'results': [], 'error': None, 'info': None, 'stats': {}, 'time_s': 0.0}
    try:
        from contracts.base import W
        importlib.import_module(modname)
        from pyvc.run import verify_contract
        k = W.contracts[path]
        rep = verify_contract(W, k)
        if rep.error and rep.error.startswith('engine error'):
            # an error of the machinery is never a verdict; one seen once under full load (a z3 sort mismatch that no
            # later run reproduced) must not decide the exit code either: the function is regenerated and decided again
            first_error = rep.error
            rep = verify_contract(W, k)
            out['engine_error_on_first_attempt'] = first_error[:300]
        if not rep.error and any(r.status == 'unknown' for r in rep.results):
            # a solver timeout is not a verdict: decide the function once more with four times the budget, one obligation
            # at a time (verdicts must not flip because all cores happened to be busy)
            from pyvc import solve, run as _run
            saved = (solve.Z3_TIMEOUT_MS, solve.QUANT_TIMEOUT_MS, solve.CVC5_TIMEOUT_S, _run.PAR_N)
            solve.Z3_TIMEOUT_MS, solve.QUANT_TIMEOUT_MS, solve.CVC5_TIMEOUT_S, _run.PAR_N = saved[0] * 4, saved[1] * 3, saved[2] * 3, 1
            try:
                rep2 = verify_contract(W, k)
            finally:
                solve.Z3_TIMEOUT_MS, solve.QUANT_TIMEOUT_MS, solve.CVC5_TIMEOUT_S, _run.PAR_N = saved
            if not rep2.error and sum(1 for r in rep2.results if r.status == 'unknown') < sum(1 for r in rep.results if r.status == 'unknown'):
                rep2.time_s += rep.time_s
                rep = rep2
                out['retried_with_larger_budget'] = True
        out['error'], out['info'], out['stats'], out['time_s'] = rep.error, rep.info, rep.stats, rep.time_s
        for r in rep.results:
            d = {'name': r.vc.name, 'status': r.status, 'backend': r.backend, 'time_s': round(r.time_s, 4),
                 'ok': r.ok, 'expect': r.vc.expect, 'note': r.vc.note, 'line': r.vc.line, 'detail': r.detail[:300]}
            if not r.ok:
                d['model'] = r.model_summary
                d['replay'] = r.replay
                d['smt2'] = _smt2(r.vc)[:6000]
            out['results'].append(d)
        out['sample'] = _smt2(rep.results[0].vc)[:1500] if rep.results else ''
    except Exception as e:
        out['error'] = 'engine error: %s | %s' % (e, ' <- '.join(traceback.format_exc().strip().splitlines()[-5:]))
    return out


def _smt2(vc):
    import z3
    s = z3.Solver()
    s.add(*vc.hyps)
    s.add(z3.Not(vc.goal))
    return s.to_smt2()


def _model_summary(r):
    if r.model is None:
        return None
    out = {}
    for nm, t in (r.vc.inputs or {}).items():
        try:
            out[nm] = str(r.model.eval(t, model_completion=True))
        except Exception:
            pass
    return out


def _contract_replay(k, r):
    f = getattr(k, 'replay', None)
    if f is None or r.model is None:
        return None
    try:
        return f(r.model, r.vc)
    except Exception as e:
        return {'reproduced': False, 'error': 'replay failed: %s' % e}


def _lemmas_one(args):
    modname, pid = args
    out = []
    try:
        from contracts.base import W
        importlib.import_module(modname)
        from pyvc.solve import discharge
        from pyvc.core import VC
        import z3
        for (p, name, fn) in getattr(W, 'lemmas', []):
            if p != pid or getattr(fn, '_mod', None) != modname:
                continue
            t0 = time.time()
            res = fn()
            items = res if isinstance(res, list) else [res]
            for i, g in enumerate(items):
                expect = 'unsat'
                nm = 'lemma.%s%s' % (name, ('.%d' % i) if len(items) > 1 else '')
                if isinstance(g, tuple):
                    nm, g = 'lemma.%s.%s' % (name, g[0]), g[1]
                vc = VC('%s.%s' % (pid, nm), [], [], g, 0, expect)
                if 'String' in str(g.sort()) or 'str.' in g.sexpr()[:20000]:
                    vc.z3_ms = 2500       # string lemmas: z3's sequence solver either answers at once or not at all; cvc5 takes over
                r = discharge(vc)
                out.append({'name': vc.name, 'status': r.status, 'backend': r.backend, 'time_s': round(r.time_s, 4),
                            'ok': r.ok, 'expect': expect, 'note': 'lemma', 'line': 0, 'detail': r.detail[:300],
                            'model': str(r.model)[:1500] if (r.model is not None and not r.ok) else None, 'replay': None,
                            'smt2': _smt2(vc)[:4000] if not r.ok else ''})
    except Exception as e:
        out.append({'name': '%s.lemma.<%s>' % (pid, modname), 'status': 'error', 'backend': '-', 'time_s': 0, 'ok': False,
                    'expect': 'unsat', 'note': 'engine error: %s | %s' % (e, ' <- '.join(traceback.format_exc().strip().splitlines()[-4:])),
                    'line': 0, 'detail': '', 'model': None, 'replay': None, 'engine_error': True})
    return out


def proof_layer(pid, spec, tier):
    from contracts.base import W
    jobs = []
    for m in spec.get('contracts', []):
        importlib.import_module('contracts.' + m)
    for path, k in W.contracts.items():
        if getattr(k, 'inline', False) and not getattr(k, 'also_verify', False):
            continue
        if getattr(k, 'stub', False):
            continue        # assumed frame of a function specified elsewhere / not yet under proof: listed as trusted
        if pid in k.props:
            jobs.append((k.__module__, path, pid, tier))
    ljobs = [('contracts.' + m, pid) for m in spec.get('contracts', [])]
    inlined = [p for p, k in W.contracts.items() if getattr(k, 'inline', False) and pid in k.props]
    if not jobs and not ljobs:
        return [], [], inlined
    ctx = multiprocessing.get_context('fork')
    with ctx.Pool(min(14, max(1, len(jobs) + len(ljobs)))) as pool:
        a = pool.map_async(_verify_one, jobs, chunksize=1)
        b = pool.map_async(_lemmas_one, ljobs, chunksize=1)
        fn_reports = a.get()
        lem = [x for sub in b.get() for x in sub]
    return fn_reports, lem, inlined


# ------------------------------------------------------------------------------------------ bounded layer
def bounded_layer(pid, spec, tier, seed, timeout):
    mod = spec.get('harness')
    if not mod:
        return None
    if not os.path.exists(os.path.join(HERE, mod.replace('.', '/') + '.py')):
        return {'missing': True, 'module': mod}
    fd, outp = tempfile.mkstemp(suffix='.json')
    os.close(fd)
    code = ("import json,sys,importlib\n"
            "h=importlib.import_module(%r)\n"
            "r=h.run(%r,%d)\n"
            "json.dump(r,open(%r,'w'),default=str)\n" % (mod, tier, seed, outp))
    t0 = time.time()
    scratch = tempfile.mkdtemp(prefix='verif_h_')      # everything the harness leaves behind goes with this directory
    try:
        p = subprocess.run([sys.executable, '-c', code], cwd=HERE, capture_output=True, text=True, timeout=timeout,
                           env=dict(os.environ, TMPDIR=scratch))
        if p.returncode != 0:
            return {'error': 'harness %s exited %d: %s' % (mod, p.returncode, (p.stderr or '')[-1500:])}
        with open(outp) as f:
            r = json.load(f)
        r['wall_s'] = round(time.time() - t0, 2)
        r['module'] = mod
        return r
    except subprocess.TimeoutExpired:
        return {'error': 'harness %s timed out after %ds' % (mod, timeout)}
    except Exception as e:
        return {'error': 'harness %s: %s' % (mod, e)}
    finally:
        if os.path.exists(outp):
            os.unlink(outp)
        subprocess.run(['pkill', '-f', 'gpg-agent --homedir %s' % scratch], capture_output=True)
        shutil.rmtree(scratch, ignore_errors=True)


# ------------------------------------------------------------------------------------------ known findings
def load_known(pid):
    out = []
    p = os.path.join(HERE, 'KNOWN_FINDINGS.txt')
    if not os.path.exists(p):
        return out
    for line in open(p):
        line = line.strip()
        if not line.startswith('finding:'):
            continue
        m = re.match(r'finding:\s+property=(\S+)\s+key=(\S+)\s+::\s*(.*)', line)
        if m and m.group(1) == pid:
            out.append({'key': m.group(2), 'what': m.group(3)})
    return out


# ------------------------------------------------------------------------------------------ main
def main():
    ap = argparse.ArgumentParser()
    ap.add_argument('pid')
    ap.add_argument('--tier', default=os.environ.get('VERIF_TIER', 'quick'), choices=['quick', 'thorough'])
    ap.add_argument('--replay', default=None)
    ap.add_argument('--no-bounded', action='store_true')
    ap.add_argument('--no-proof', action='store_true')
    ap.add_argument('-v', action='store_true')
    a = ap.parse_args()
    seed = int(os.environ.get('VERIF_SEED', '0'))
    _assert_repo()
    from props import PROPS
    if a.pid not in PROPS:
        print('check: unknown property %s' % a.pid, file=sys.stderr)
        sys.exit(3)
    spec = PROPS[a.pid]
    if a.replay:
        sys.exit(do_replay(a.pid, spec, a.replay))
    t0 = time.time()
    fn_reports, lemmas, inlined = ([], [], []) if a.no_proof else proof_layer(a.pid, spec, a.tier)
    bounded = None if a.no_bounded else bounded_layer(a.pid, spec, a.tier, seed, 2400 if a.tier == 'thorough' else 900)
    known = load_known(a.pid)
    os.makedirs(os.path.join(HERE, 'replays', a.pid), exist_ok=True)
    violations, undecided, drift, machinery = [], [], [], []
    known_hit = []
    nobl = ndis = 0
    obligations = []
    canaries = 0
    dead_paths = []
    for rep in fn_reports:
        if rep['error']:
            if rep['error'].startswith('engine error'):
                machinery.append('%s: %s' % (rep['path'], rep['error']))
            else:
                drift.append({'function': rep['path'], 'reason': rep['error']})
            continue
        live = {r['name'] for r in rep['results'] if r['expect'] == 'sat' and r['ok']}
        for r in rep['results']:
            if r['expect'] == 'sat' and not r['ok'] and r['status'] == 'unsat' and r['name'] in live:
                # this path through the loop/function is unreachable under the contract (dead branch) while another path to the
                # same point is reachable: the assumptions are not contradictory; recorded, not counted as an obligation
                dead_paths.append('%s %s@%s' % (rep['path'], r['name'], r.get('line')))
                continue
            nobl += 1
            obligations.append({'name': r['name'], 'function': rep['path'], 'sha': (rep['info'] or {}).get('sha256', '')[:16],
                                'backend': r['backend'], 'status': r['status'], 'time_s': r['time_s']})
            if r['ok']:
                ndis += 1
                if r['expect'] == 'sat':
                    canaries += 1
                continue
            if r['expect'] == 'sat':
                # a canary that is NOT refuted: contradictory assumptions -> machinery problem, not a verdict
                machinery.append('vacuity: canary %s is %s' % (r['name'], r['status']))
                continue
            (violations if r['status'] == 'sat' else undecided).append(('proof', rep['path'], r))
    for r in lemmas:
        if r.get('engine_error'):
            machinery.append(r['note'])
            continue
        nobl += 1
        obligations.append({'name': r['name'], 'function': '(lemma)', 'sha': '', 'backend': r['backend'], 'status': r['status'], 'time_s': r['time_s']})
        if r['ok']:
            ndis += 1
        else:
            (violations if r['status'] == 'sat' else undecided).append(('lemma', '(lemma)', r))
    bviol = []
    if bounded:
        if bounded.get('error'):
            machinery.append(bounded['error'])
        elif not bounded.get('missing'):
            bviol = bounded.get('violations', [])
    lines = []
    exit_code = 0
    nviol = 0
    # bounded violations: concrete failing inputs on the real code
    seen_sig = set()
    for v in bviol:
        key = 'bounded:%s:%s' % (v.get('clause', '?'), v.get('signature', '?'))
        if key in seen_sig:
            continue
        seen_sig.add(key)
        hit = [k for k in known if fnmatch.fnmatchcase(key, k['key'])]
        if hit:
            if hit[0]['key'] not in known_hit:
                known_hit.append(hit[0]['key'])
                lines.append('KNOWN-FINDING: property=%s %s' % (a.pid, hit[0]['what']))
            continue
        nviol += 1
        path = _write_replay(a.pid, key, {'kind': 'bounded', 'harness': bounded.get('module'), 'violation': v})
        lines.append('VIOLATION property=%s replay=%s' % (a.pid, path))
    # failed proof obligations
    groups = {}
    for kind, fn, r in violations:
        groups.setdefault(_stable(r['name']), []).append((kind, fn, r))
    for name, items in groups.items():
        key = 'obligation:%s' % name
        hit = [k for k in known if fnmatch.fnmatchcase(key, k['key'])]
        if hit:
            known_hit.append(key)
            lines.append('KNOWN-FINDING: property=%s %s' % (a.pid, hit[0]['what']))
            continue
        kind, fn, r = items[0]
        rp = r.get('replay')
        reproduced = bool(rp and rp.get('reproduced'))
        witness = None
        if not reproduced and bviol:
            witness = bviol[0]
            reproduced = True
        payload = {'kind': 'obligation', 'obligation': r['name'], 'function': fn, 'solver': r['backend'], 'status': r['status'],
                   'counter_model': r.get('model'), 'replay_on_real_code': rp, 'bounded_witness': witness, 'note': r.get('note'),
                   'line': r.get('line'), 'smt2': r.get('smt2', '')}
        path = _write_replay(a.pid, key, payload)
        nviol += 1
        lines.append('VIOLATION property=%s replay=%s%s' % (a.pid, path, '' if reproduced else ' no-failing-input-found'))
    und_lines = []
    for kind, fn, r in undecided:
        und_lines.append('UNDECIDED property=%s obligation=%s (%s: %s)' % (a.pid, r['name'], r['status'], r.get('detail', '')[:80]))
    if nviol:
        exit_code = 1
    elif machinery:
        exit_code = 3
    elif undecided:
        exit_code = 2
    elif drift and (not bounded or bounded.get('missing')):
        exit_code = 2
    elif nobl == 0 and not (bounded and bounded.get('cases')):
        machinery.append('zero obligations and no bounded cases')
        exit_code = 3
    wall = time.time() - t0
    write_evidence(a, spec, seed, fn_reports, lemmas, inlined, obligations, nobl, ndis, canaries, bounded, drift, undecided,
                   machinery, known_hit, nviol, wall, dead_paths)
    for l in lines:
        print(l)
    for l in und_lines:
        print(l)
    for d in drift:
        print('NOTE proof not regenerated for %s (%s); decided by the bounded stand-in only' % (d['function'], d['reason'][:200]))
    for m in machinery:
        print('MACHINERY %s' % m[:600], file=sys.stderr)
    print('%s %s: obligations %d/%d discharged, bounded cases %s, violations %d, known findings %d, %.1fs -> exit %d' % (
        a.pid, a.tier, ndis, nobl, (bounded or {}).get('cases', '-'), nviol, len(known_hit), wall, exit_code))
    sys.exit(exit_code)


def _stable(name):
    """obligation name without line numbers (stable under harmless edits)"""
    return re.sub(r'@\d+', '', name)


def _write_replay(pid, key, payload):
    fn = re.sub(r'[^A-Za-z0-9_.-]+', '_', key)[:150] + '.json'
    path = os.path.join(HERE, 'replays', pid, fn)
    payload['property'] = pid
    payload['key'] = key
    payload['repo'] = REPO
    with open(path, 'w') as f:
        json.dump(payload, f, indent=1, default=str)
    return path


def do_replay(pid, spec, path):
    with open(path) as f:
        rp = json.load(f)
    if rp.get('kind') == 'bounded' or rp.get('bounded_witness'):
        v = rp.get('violation') or rp.get('bounded_witness')
        mod = rp.get('harness') or spec.get('harness')
        h = importlib.import_module(mod)
        r = h.replay(v)
        print(json.dumps(r, default=str)[:3000])
        if r.get('reproduced'):
            print('VIOLATION property=%s replay=%s' % (pid, path))
            return 1
        return 0
    # obligation replays: re-run the proof of that function
    print(json.dumps({k: rp.get(k) for k in ('obligation', 'function', 'counter_model', 'replay_on_real_code')}, default=str)[:3000])
    os.execv(sys.executable, [sys.executable, '-m', 'pyvc.cli', pid, '--no-bounded'])


def write_evidence(a, spec, seed, fn_reports, lemmas, inlined, obligations, nobl, ndis, canaries, bounded, drift, undecided,
                   machinery, known_hit, nviol, wall, dead_paths=()):
    functions = []
    for rep in fn_reports:
        info = rep['info'] or {}
        functions.append({'function': rep['path'], 'source': info.get('path'), 'lines': info.get('lines'), 'sha256': info.get('sha256'),
                          'obligations': len(rep['results']), 'discharged': sum(1 for r in rep['results'] if r['ok']),
                          'paths': rep['stats'].get('paths'), 'statements_interpreted': rep['stats'].get('interpreted'),
                          'logging_calls_dropped': rep['stats'].get('dropped_logging'),
                          # expressions the contract replaces by a declared abstraction (uninterpreted value of the stated sort)
                          'abstracted_expressions': sorted(set(rep['stats'].get('abstracted') or []))[:40],
                          'canaries_not_needed': rep['stats'].get('canaries_not_needed'),
                          'solver_time_s': round(sum(r['time_s'] for r in rep['results']), 3),
                          'proof': ('not regenerated (%s)' % rep['error']) if rep['error'] else 'regenerated from current source'})
    backends = {}
    for o in obligations:
        backends[o['backend']] = backends.get(o['backend'], 0) + 1
    samples = []
    for rep in fn_reports[:3]:
        if rep.get('sample'):
            samples.append({'obligation': rep['results'][0]['name'] if rep['results'] else None, 'verdict': rep['results'][0]['status'] if rep['results'] else None,
                            'smtlib': rep['sample']})
    for o in obligations[:12]:
        samples.append({'obligation': o['name'], 'verdict': o['status'], 'backend': o['backend'], 'time_s': o['time_s']})
    level = spec.get('level', 'other')
    proved_all = nobl > 0 and ndis == nobl and not drift
    if level == 'proof' and not proved_all:
        level = 'other'
    cov = {
        'obligations': nobl, 'discharged': ndis,
        'checker_cmd': './check %s --tier %s   (pyvc VC generator over the real AST; z3 %s in process, /usr/bin/cvc5 --strings-exp for unknowns)' % (a.pid, a.tier, _z3v()),
        'trusted_base': spec.get('trusted_base', []),
        'explanation': spec.get('explanation', ''),
        'functions_under_contract': functions,
        'functions_inlined_at_call_sites': inlined,
        'obligations_by_backend': backends,
        'solver_time_s': round(sum(o['time_s'] for o in obligations), 3),
        'canaries_refuted': canaries,
        'per_obligation': obligations if len(obligations) <= 400 else obligations[:400],
        'undecided': [r['name'] for _, _, r in undecided],
        'contract_drift': drift,
        'known_findings_matched': known_hit,
        'samples': samples or [{'note': 'no obligations generated'}],
        'machinery_errors': machinery,
        'paths_unreachable_under_the_contract': list(dead_paths),
    }
    if bounded and not bounded.get('missing') and not bounded.get('error'):
        cov['bounded'] = {'label': 'bounded stand-in, never counted as proved', 'module': bounded.get('module'), 'cases': bounded.get('cases'),
                          'distinct': bounded.get('distinct'), 'rule': bounded.get('rule'), 'exhaustive': bounded.get('exhaustive'),
                          'bound': bounded.get('bound') or bounded.get('BOUND'), 'clauses': bounded.get('clauses'), 'samples': (bounded.get('samples') or [])[:5],
                          'violations': len(bounded.get('violations', [])), 'wall_s': bounded.get('wall_s')}
        cov['evaluations'] = int(bounded.get('cases') or 0) + nobl
        cov['distinct_nontrivial'] = int(bounded.get('distinct') or 0) + nobl
        cov['rule'] = 'proof obligations (each distinct by name and path) plus bounded cases: ' + str(bounded.get('rule'))
    else:
        cov['evaluations'] = nobl
        cov['distinct_nontrivial'] = len({o['name'] for o in obligations}) + 0
        cov['rule'] = 'one evaluation per generated proof obligation; distinct = distinct obligation names'
    ev = {'property_id': a.pid, 'tier': a.tier, 'seed': seed, 'level': level, 'coverage': cov,
          'assumptions': spec.get('assumptions', []), 'wall_s': round(wall, 2), 'violations': nviol}
    # evidence/ describes /repo itself; runs against a scratch tree (VERIF_REPO) keep theirs apart
    evdir = os.path.join(HERE, 'evidence') if REPO == '/repo' else os.path.join(HERE, '.scratch', 'evidence')
    os.makedirs(evdir, exist_ok=True)
    with open(os.path.join(evdir, a.pid + '.json'), 'w') as f:
        json.dump(ev, f, indent=1, default=str)


def _z3v():
    import z3
    return z3.get_version_string()


if __name__ == '__main__':
    main()
