"""Discharge obligations: ground instantiation of quantified hypotheses, z3 in process, cvc5 for z3's unknowns."""
import itertools
import os
import subprocess
import tempfile
import time
import z3
from .types import atom_facts

Z3_TIMEOUT_MS = int(os.environ.get('PYVC_Z3_MS', '20000'))
CVC5_TIMEOUT_S = int(os.environ.get('PYVC_CVC5_S', '20'))
MAX_INST = int(os.environ.get('PYVC_MAX_INST', '20000'))
QUANT_TIMEOUT_MS = int(os.environ.get('PYVC_QUANT_MS', '30000'))
QUANT_RLIMIT = int(os.environ.get('PYVC_QUANT_RLIMIT', '0'))


_sort_key_cache = {}


def _sort_key(t):
    srt = t.sort()
    i = srt.get_id()
    k = _sort_key_cache.get(i)
    if k is None:
        k = _sort_key_cache[i] = (srt.sexpr(), srt)     # the sort is kept alive so that its id is never reused
    return k[0]


def ground_terms(fs, bound_ids=(), want_sets=False, apps=None):
    """uninterpreted constants and applications of uninterpreted functions to such, grouped by sort;
    `apps` (decl id -> applications free of bound variables) is filled on the way when given"""
    by_sort = {}
    seen = set()
    stack = list(fs)
    while stack:
        t = stack.pop()
        i = t.get_id()
        if i in seen:
            continue
        seen.add(i)
        if z3.is_quantifier(t):
            continue
        ch = t.children()
        stack.extend(ch)
        if apps is not None and z3.is_app(t) and z3.is_bool(t) and t.decl().kind() == z3.Z3_OP_UNINTERPRETED and t.num_args() > 0 \
                and not _mentions(t, bound_ids):
            apps.setdefault(t.decl().get_id(), []).append(t)        # applications of uninterpreted predicates (trigger patterns)
        if z3.is_app(t) and not z3.is_bool(t):
            k = t.decl().kind()
            ok = False
            if k == z3.Z3_OP_UNINTERPRETED:
                ok = True
            elif k in (z3.Z3_OP_DT_ACCESSOR, z3.Z3_OP_SELECT, z3.Z3_OP_SEQ_NTH):
                ok = True
            elif k == z3.Z3_OP_DT_CONSTRUCTOR and t.num_args() > 0 and t.sort().name().startswith('Rec_Tup'):
                ok = True       # pairs built by the problem itself (items of a map)
            elif k in (z3.Z3_OP_ARRAY_MAP, z3.Z3_OP_STORE) and want_sets:
                ok = True       # set-valued terms, for clauses that quantify over sets (choice axioms)
            if ok and not _mentions(t, bound_ids):
                by_sort.setdefault(_sort_key(t), {})[i] = t
                if apps is not None and k == z3.Z3_OP_UNINTERPRETED and t.num_args() > 0:
                    apps.setdefault(t.decl().get_id(), []).append(t)
                srt = t.sort()
                if srt.name().startswith('Opt_') and k != z3.Z3_OP_DT_ACCESSOR:
                    try:
                        w = srt.accessor(1, 0)(t)      # the payload of an optional entry is a natural instantiation candidate
                        by_sort.setdefault(_sort_key(w), {})[w.get_id()] = w
                    except Exception:
                        pass
    return by_sort


def _apps_of(fs, decl, bound_ids=()):
    out = {}
    seen = set()
    stack = list(fs)
    did = decl.get_id() if hasattr(decl, 'get_id') else None
    while stack:
        t = stack.pop()
        i = t.get_id()
        if i in seen:
            continue
        seen.add(i)
        if z3.is_quantifier(t):
            continue
        stack.extend(t.children())
        if z3.is_app(t) and t.decl().eq(decl) and not _mentions(t, bound_ids):
            out[i] = t
    return list(out.values())


def _mentions(t, ids):
    if not ids:
        return False
    stack = [t]
    seen = set()
    while stack:
        x = stack.pop()
        i = x.get_id()
        if i in ids:
            return True
        if i in seen:
            continue
        seen.add(i)
        stack.extend(x.children())
    return False


_depth_cache = {}
ACC_FLAT = not os.environ.get('PYVC_ACC_DEEP')


def _depth(t):
    i = t.get_id()
    d = _depth_cache.get(i)
    if d is not None:
        return d[0]
    ch = t.children()
    if not ch:
        d = 0
    elif not z3.is_app(t):
        d = 1 + max(_depth(c) for c in ch)      # lambda / quantifier
    elif t.decl().kind() == z3.Z3_OP_DT_ACCESSOR and ACC_FLAT:
        d = _depth(ch[0])        # a component of a tuple/record is as shallow as the tuple
    else:
        d = 1 + max(_depth(c) for c in ch)
    if len(_depth_cache) < 2000000:
        _depth_cache[i] = (d, t)      # (the term is kept alive: z3 reuses the ids of collected terms)
    return d


def instantiate(hyps, qhyps, goal, rounds=2, max_depth=2, max_inst=None):
    max_inst = max_inst or MAX_INST
    out = []
    done = set()
    cur = list(hyps) + [goal]
    bound = set()
    for q in qhyps:
        for v in q.vars:
            bound.add(v.get_id())
    _trace = bool(os.environ.get('PYVC_INST_TRACE'))
    _cnt, _last = {}, [0]
    for _ in range(rounds):
        _last[0] = 0
        apps = {}
        gt = ground_terms(cur + [q.body for q in qhyps], bound, any(z3.is_array(v) for q in qhyps for v in q.vars), apps)
        new = []
        for qi, q in enumerate(qhyps):
            pools = []
            if _trace:
                if qi:
                    _cnt[getattr(qhyps[qi - 1], 'label', '?')] = _cnt.get(getattr(qhyps[qi - 1], 'label', '?'), 0) + len(new) - _last[0]
                _last[0] = len(new)
            if getattr(q, 'triggers', None):
                for (decl, idx) in q.triggers:
                    if isinstance(decl, str):
                        v = q.vars[0]
                        for t in gt.get(_sort_key(v), {}).values():
                            if _depth(t) <= 1:
                                key = (qi, t.get_id())
                                if key not in done:
                                    done.add(key)
                                    new.append(z3.substitute(q.body, (v, t)))
                        continue
                    idxs = idx if isinstance(idx, (tuple, list)) else (idx,)
                    rest = q.vars[len(idxs):]
                    # a pattern that binds only the first variables: the others range over the shallow terms of their sort
                    rest_pools = [[t for t in gt.get(_sort_key(v), {}).values() if _depth(t) <= max_depth] for v in rest]
                    if rest_pools:
                        n = 1
                        for rp in rest_pools:
                            n *= max(len(rp), 1)
                        if n > 40:
                            rest_pools = [[t for t in rp if _depth(t) <= 1] for rp in rest_pools]
                    for t in (apps.get(decl.get_id(), []) if decl.kind() == z3.Z3_OP_UNINTERPRETED else _apps_of(cur + [qq.body for qq in qhyps], decl, bound)):
                        head = tuple((t if i < 0 else t.arg(i)) for i in idxs)      # -1: the application itself
                        for tail in itertools.product(*rest_pools):
                            combo = head + tuple(tail)
                            key = (qi,) + tuple(a.get_id() for a in combo)
                            if key in done:
                                continue
                            done.add(key)
                            new.append(z3.substitute(q.body, *zip(q.vars, combo)))
                continue
            for v in q.vars:
                pool = [t for t in gt.get(_sort_key(v), {}).values()
                        if _depth(t) <= (max_depth + 1 if t.decl().kind() == z3.Z3_OP_DT_CONSTRUCTOR else max_depth)]
                pools.append(pool)
            def _size(ps):
                n = 1
                for p in ps:
                    n *= max(len(p), 1)
                return n
            # the more variables a clause has, the shallower the terms it is instantiated with
            budget = getattr(q, 'budget', None) or (max_inst if len(q.vars) <= 2 else min(6000, max_inst))
            if _size(pools) > budget:
                pools = [[t for t in p if _depth(t) <= 1] for p in pools]
            if _size(pools) > budget and (len(q.vars) >= 3 or max_inst != MAX_INST):
                pools = [[t for t in p if _depth(t) == 0] for p in pools]
            cnt = 0
            for combo in itertools.product(*pools):
                key = (qi,) + tuple(t.get_id() for t in combo)
                if key in done:
                    continue
                done.add(key)
                ck = (q.body.get_id(),) + key[1:]
                inst = _inst_cache.get(ck)
                inst = inst[0] if inst is not None else None
                if inst is None:
                    inst = z3.substitute(q.body, *zip(q.vars, combo))
                    if len(_inst_cache) < 400000:
                        _inst_cache[ck] = (inst, q.body, combo)      # keys are ids: keep their owners alive
                new.append(inst)
                cnt += 1
                if cnt > max_inst:
                    break
        if not new:
            break
        if os.environ.get('PYVC_INST_TRACE'):
            print('INST round', _, 'new', len(new), 'by label', sorted(_cnt.items(), key=lambda kv: -kv[1])[:8], 'pools', {k[:40]: len(v) for k, v in gt.items()}, flush=True)
        out.extend(new)
        cur = cur + new
    return out


_inst_cache = {}


class Result:
    def __init__(self, vc, status, backend, time_s, model=None, detail=''):
        self.vc, self.status, self.backend, self.time_s, self.model, self.detail = vc, status, backend, time_s, model, detail

    @property
    def ok(self):
        if self.vc.expect == 'sat':
            return self.status in ('sat',)
        return self.status == 'unsat'


_hq_cache = {}


def _has_quant(f):
    fid = f.get_id()
    if fid in _hq_cache:
        return _hq_cache[fid][0]
    stack = [f]
    seen = set()
    res = False
    while stack:
        t = stack.pop()
        i = t.get_id()
        if i in seen:
            continue
        seen.add(i)
        if i in _hq_cache and _hq_cache[i][0] is False:
            continue
        if z3.is_quantifier(t):
            if not t.is_lambda():
                res = True
                break
            stack.append(t.body())
            continue
        stack.extend(t.children())
    if len(_hq_cache) < 500000:
        _hq_cache[fid] = (res, f)
        if not res:
            pass
    return res


_qcount = [0]


def universal_clauses(f):
    """f is in skolemised NNF.  Returns [(vars, quantifier-free body)] whose conjunction (each universally
    closed) is implied by f — exact when universals only occur under And/Or (prenexing over Or is sound
    because bound variables are renamed apart)."""
    if z3.is_quantifier(f):
        if not f.is_forall():
            return [([], f)]
        vs = []
        for i in range(f.num_vars()):
            _qcount[0] += 1
            vs.append(z3.Const('uq!%d_%s' % (_qcount[0], f.var_name(i)), f.var_sort(i)))
        body = z3.substitute_vars(f.body(), *reversed(vs))
        out = []
        for (v2, b2) in universal_clauses(body):
            out.append((vs + v2, b2))
        return out
    if z3.is_and(f):
        out = []
        for ch in f.children():
            out.extend(universal_clauses(ch))
        return out
    if z3.is_or(f) and _has_quant(f):
        # (∀x.A) ∨ B  ==>  ∀x.(A ∨ B): combine one clause choice per disjunct (cartesian, kept small)
        parts = [universal_clauses(ch) for ch in f.children()]
        total = 1
        for p in parts:
            total *= len(p)
        if total > 64:
            return [([], f)]
        out = []
        for combo in itertools.product(*parts):
            vs = [v for (v2, _) in combo for v in v2]
            out.append((vs, z3.Or(*[b for (_, b) in combo])))
        return out
    return [([], f)]


def _auto_triggers(vs, body):
    """an integer-indexed universal (forall j. ... a[j] ...) is instantiated at every index the problem
    selects from an array of that sort, in addition to nothing else (single-variable case only)"""
    if len(vs) != 1 or not z3.is_int(vs[0]):
        return None
    vid = vs[0].get_id()
    trig = {}
    stack = [body]
    seen = set()
    while stack:
        t = stack.pop()
        if t.get_id() in seen:
            continue
        seen.add(t.get_id())
        stack.extend(t.children())
        if z3.is_app(t) and t.decl().kind() == z3.Z3_OP_SELECT and t.arg(1).get_id() == vid:
            trig[t.decl().get_id()] = (t.decl(), 1)
    return list(trig.values()) + [('consts', 0)] if trig else None


def prepare(formulas):
    """skolemise, split into ground formulas and universally quantified clauses"""
    ground, quants = [], []
    from .core import QHyp
    for f in formulas:
        if not _has_quant(f):
            ground.append(f)
            continue
        g = z3.Goal()
        g.add(f)
        res = z3.Tactic('snf')(g)
        for sub in res:
            for h in sub:
                for (vs, body) in universal_clauses(h):
                    if vs and not _has_quant(body):
                        quants.append(QHyp(vs, body, 'spec', _auto_triggers(vs, body)))
                    else:
                        ground.append(h if not vs else z3.ForAll(vs, body))
    return ground, quants


def _invalid_model(model, fs):
    # only z3's sequence/string solver has been seen to return assignments that falsify an assertion; models of
    # problems without sequence sorts are taken as they are (evaluating array lambdas can mislead the check)
    seq = False
    for d in model.decls():
        srts = [d.range()] + [d.domain(i) for i in range(d.arity())]
        if any(s.kind() == z3.Z3_SEQ_SORT for s in srts):
            seq = True
            break
    if not seq:
        return None
    for f in fs:
        try:
            v = model.eval(f, model_completion=True)
        except Exception:
            continue
        if z3.is_false(v):
            return f
    return None


def discharge(vc, use_cvc5=True):
    """1. skolemise; universally quantified parts become instantiation schemes
       2. decide the quantifier-free part plus the ground instances (z3, then cvc5 for an `unknown`)
       3. unsat -> discharged.  sat -> before reporting, ask z3 once about the quantified problem itself."""
    t0 = time.time()
    base = list(vc.hyps) + [z3.Not(vc.goal)]
    plain = []
    for q in vc.qhyps:
        if _has_quant(q.body):
            base.append(z3.ForAll(q.vars, q.body))      # nested quantifiers: skolemise/prenex like any other formula
        else:
            plain.append(q)
    ground, quants = prepare(base)
    qh = plain + quants
    inst = instantiate(ground, qh, z3.BoolVal(True), rounds=getattr(vc, 'rounds', None) or int(os.environ.get('PYVC_ROUNDS', '2')),
                       max_inst=getattr(vc, 'max_inst', None))
    qbodies = any(_has_quant(q.body) for q in qh)
    qf = [f for f in ground if not _has_quant(f)] + ([f for f in inst if not _has_quant(f)] if qbodies else inst) + atom_facts()
    leftover = [f for f in ground if _has_quant(f)]
    s = z3.Solver()
    s.set('timeout', getattr(vc, 'z3_ms', None) or Z3_TIMEOUT_MS)
    s.add(*qf)
    r = s.check()
    backend = 'z3'
    detail = ''
    model = None
    if r == z3.unknown:
        detail = s.reason_unknown()
        if use_cvc5:
            st, d2 = run_cvc5(s.to_smt2())
            detail += ' | cvc5: ' + d2
            if st == 'unsat':
                return Result(vc, 'unsat', 'cvc5', time.time() - t0, None, d2)
            if st == 'sat':
                r, backend = z3.sat, 'cvc5'
    elif r == z3.sat:
        model = s.model()
        bad = _invalid_model(model, qf)
        if bad is not None:
            # z3's string/sequence solver occasionally answers sat with an assignment that falsifies an assertion:
            # such an answer is not a counter-model; hand the query to cvc5
            detail = 'z3 model rejected by validation (%s)' % str(bad)[:80]
            r, model = z3.unknown, None
            if use_cvc5:
                st, d2 = run_cvc5(s.to_smt2())
                detail += ' | cvc5: ' + d2
                if st == 'unsat':
                    return Result(vc, 'unsat', 'cvc5', time.time() - t0, None, detail)
                if st == 'sat':
                    r, backend = z3.sat, 'cvc5'
    if r == z3.unsat:
        return Result(vc, 'unsat', 'z3', time.time() - t0)
    if vc.expect == 'sat':
        if r == z3.sat:
            return Result(vc, 'sat', backend, time.time() - t0, model, 'quantifier-free part with instances has a model')
        # a canary only has to show that the assumptions are not contradictory; when the solver cannot finish a model of
        # all instances, a model of the first instantiation round (a weaker, still meaningful consistency check) is accepted
        inst1 = instantiate(ground, qh, z3.BoolVal(True), rounds=1, max_inst=getattr(vc, 'max_inst', None))
        s1 = z3.Solver()
        s1.set('timeout', Z3_TIMEOUT_MS)
        s1.add(*([f for f in ground if not _has_quant(f)] + [f for f in inst1 if not _has_quant(f)] + atom_facts()))
        if s1.check() == z3.sat:
            return Result(vc, 'sat', 'z3', time.time() - t0, None, 'quantifier-free part with the first round of instances has a model')
        return Result(vc, 'unknown', 'z3+cvc5', time.time() - t0, None, detail)
    if r == z3.sat and (qh or leftover):
        # the ground instances have a model; ask z3 about the quantified problem itself before reporting
        s3 = z3.Solver()
        # generous wall-clock budget: on the unchanged tree these queries take < 3 s, and the verdict must not flip under load
        s3.set('timeout', QUANT_TIMEOUT_MS)
        if QUANT_RLIMIT:
            s3.set('rlimit', QUANT_RLIMIT)
        s3.add(*(base + atom_facts() + inst))
        for q in vc.qhyps:
            s3.add(z3.ForAll(q.vars, q.body))
        r3 = s3.check()
        if os.environ.get('PYVC_RLIMIT_TRACE'):
            st = s3.statistics()
            print('RLIMIT', vc.name, r3, [st.get_key_value(k) for k in st.keys() if k == 'rlimit count'], round(time.time() - t0, 2), flush=True)
        if r3 == z3.unsat:
            return Result(vc, 'unsat', 'z3(quantified)', time.time() - t0)
    if r == z3.sat:
        return Result(vc, 'sat', backend, time.time() - t0, model, detail)
    return Result(vc, 'unknown', 'z3+cvc5', time.time() - t0, None, detail)


_dumpn = [0]


def fix_smt2_for_cvc5(smt2):
    """z3's printer -> SMT-LIB as cvc5 1.0 reads it"""
    import re
    out = smt2
    out = re.sub(r'\(declare-fun ([^ ]+) \(\) ', r'(declare-const \1 ', out)
    out = out.replace('(_ is none )', '(_ is none)').replace('(_ is some )', '(_ is some)')
    return out


def run_cvc5(smt2, timeout=None):
    timeout = timeout or CVC5_TIMEOUT_S
    fd, path = tempfile.mkstemp(suffix='.smt2')
    try:
        smt2 = fix_smt2_for_cvc5(smt2)
        with os.fdopen(fd, 'wt') as f:
            f.write('(set-logic ALL)\n' + smt2)
        if os.environ.get('PYVC_DUMP'):
            _dumpn[0] += 1
            with open(os.environ['PYVC_DUMP'] + '.%d' % _dumpn[0], 'wt') as f:
                f.write('(set-logic ALL)\n' + smt2)
        try:
            p = subprocess.run(['/usr/bin/cvc5', '--strings-exp', '--tlimit=%d' % (timeout * 1000), path],
                               capture_output=True, text=True, timeout=timeout + 5)
        except subprocess.TimeoutExpired:
            return 'unknown', 'timeout'
        out = (p.stdout or '').strip().splitlines()
        st = out[0].strip() if out else 'unknown'
        return (st if st in ('sat', 'unsat') else 'unknown'), (p.stderr or '').strip()[:200] or st
    finally:
        os.unlink(path)
