"""pyvc core: path-sensitive symbolic execution of the real AST of a function against a sidecar contract.

Direct-style interpreter: every symbolic branch asks the current Path to `decide`; paths are enumerated by
re-running the function with a recorded decision prefix (DFS).  Fresh names are numbered per path position so
that two paths sharing a prefix build identical terms and their obligations are de-duplicated.
Loops are cut by contract invariants (init / step / use); calls are replaced by callee contracts unless the
callee is declared `inline`.  Nothing here knows DAWGIE: that knowledge lives in /verif/contracts.
"""
import ast
import hashlib
import itertools
import os
import z3
from .types import (Ty, INT, BOOL, STR, ATOM, BYTES, REAL, Ref, Enum, SetOf, SeqOf, Opt, MapOf, Rec, ListOf, atom, strlit)
from . import types as _types


class Unsupported(Exception):
    """construct outside the modelled subset, or contract anchors no longer match (contract drift)"""


class SpecError(Exception):
    pass


# ----------------------------------------------------------------------------- values
class V:
    __slots__ = ('t', 'ty')

    def __init__(self, t, ty):
        self.t, self.ty = t, ty

    def __repr__(self):
        return 'V(%s:%s)' % (self.t, self.ty)


class C:
    """reference to a mutable container living at `loc`"""
    __slots__ = ('loc', 'ty')

    def __init__(self, loc, ty):
        self.loc, self.ty = loc, ty

    def __repr__(self):
        return 'C(%s:%s)' % (self.loc, self.ty)


class Lam:
    def __init__(self, args, body, env, defaults=None, is_expr=True, name='<lambda>'):
        self.args, self.body, self.env, self.defaults, self.is_expr, self.name = args, body, env, defaults or {}, is_expr, name


class Dotted:
    def __init__(self, path):
        self.path = path

    def __repr__(self):
        return 'Dotted(%s)' % self.path


class Bound:
    def __init__(self, recv, name):
        self.recv, self.name = recv, name


class Iter:
    """a lazily evaluated iterable: filter/map/generator over a base collection"""

    def __init__(self, base, filt=None, fmap=None):
        self.base, self.filt, self.fmap = base, filt, fmap


class Unbound:
    pass


UNBOUND = Unbound()


# control flow
class _Return(Exception):
    def __init__(self, v):
        self.v = v


class _Break(Exception):
    pass


class _Continue(Exception):
    pass


class _Raise(Exception):
    def __init__(self, exc, line=0):
        self.exc, self.line = exc, line


class _PathEnd(Exception):
    """this path stops here (cut at a loop boundary or found infeasible)"""


# ----------------------------------------------------------------------------- obligations
class VC:
    def __init__(self, name, hyps, qhyps, goal, line=0, expect='unsat', note=''):
        self.name, self.hyps, self.qhyps, self.goal, self.line, self.expect, self.note = name, hyps, qhyps, goal, line, expect, note
        self.inputs = {}

    def key(self):
        return (self.name, tuple(h.get_id() for h in self.hyps), len(self.qhyps), self.goal.get_id(), self.expect)


class QHyp:
    """universally quantified hypothesis: instantiated at ground terms when discharged"""

    def __init__(self, vars_, body, label='', triggers=None):
        # triggers: [(func_decl, arg_index)] -> the single variable is instantiated with that argument of every
        # application of func_decl occurring in the problem (single-pattern E-matching done by the generator)
        self.vars, self.body, self.label, self.triggers = list(vars_), body, label, triggers


# ----------------------------------------------------------------------------- state
class State:
    def __init__(self):
        self.env = {}
        self.heap = {}      # 'Class.field' -> z3 array Ref -> sort
        self.glob = {}      # name -> z3 term
        self.box = {}       # id -> z3 term
        self.pc = []
        self.qh = []
        self.ghost = {}

    def snap(self):
        return View(dict(self.heap), dict(self.glob), dict(self.box), dict(self.env), self)

    def copy(self):
        o = State()
        o.env = {k: _copy_val(v) for k, v in self.env.items()}
        o.heap, o.glob, o.box = dict(self.heap), dict(self.glob), dict(self.box)
        o.pc, o.qh, o.ghost = list(self.pc), list(self.qh), dict(self.ghost)
        return o


def _copy_val(v):
    if isinstance(v, list):
        return [_copy_val(x) for x in v]
    if isinstance(v, dict):
        return {k: _copy_val(x) for k, x in v.items()}
    if isinstance(v, set):
        return set(v)
    return v


class View:
    """immutable snapshot used by specifications"""

    def __init__(self, heap, glob, box, env, st):
        self.heap, self.glob, self.box, self.env, self._st = heap, glob, box, env, st

    def f(self, field, ref):
        return self.heap[field][ref]

    def g(self, name):
        return self.glob[name]

    def arr(self, field):
        return self.heap[field]


class FieldLoc:
    def __init__(self, field, ref):
        self.field, self.ref = field, ref

    def __repr__(self):
        return '%s[%s]' % (self.field, self.ref)


class GlobLoc:
    def __init__(self, name):
        self.name = name

    def __repr__(self):
        return 'glob:' + self.name


class BoxLoc:
    def __init__(self, bid):
        self.bid = bid

    def __repr__(self):
        return 'box:%s' % self.bid


class LoopFrame:
    def __init__(self, mods, pre_boxes, havoced):
        self.mods, self.pre_boxes, self.havoced = set(mods), set(pre_boxes), set(havoced)


class Path:
    def __init__(self, prefix):
        self.prefix, self.taken, self.alts = list(prefix), [], []
        self.n = 0

    def fresh_name(self, base):
        self.n += 1
        return '%s!%d' % (base, self.n)


# ----------------------------------------------------------------------------- contract objects
class Loop:
    def __init__(self, inv=None, modifies=(), variant=None, elem=None):
        self.inv, self.modifies, self.variant, self.elem = inv, list(modifies), variant, elem


class Extern:
    """assumed contract of a function outside the verified set (listed in the trusted base)"""

    def __init__(self, ret=None, pure=True, post=None, modifies=(), raises=None, drop=False, fn=None, pre=None):
        self.ret, self.pure, self.post, self.modifies, self.raises, self.drop, self.fn, self.pre = ret, pure, post, list(modifies), raises or {}, drop, fn, pre


class SpecCtx:
    """what a specification clause sees"""

    def __init__(self, ex, args, old, cur, result=None, mode='prove', entry=None, done=None, it=None, x=None):
        self.ex, self.args, self.old, self.cur, self.result, self.mode = ex, args, old, cur, result, mode
        self.entry, self.done, self.it, self.x = entry, done, it, x
        self.sks = {}

    def __getitem__(self, k):
        return self.args[k]

    def sk(self, name, ty):
        if name not in self.sks:
            self.sks[name] = z3.Const(('sk_' if self.mode == 'prove' else 'qv_%d_' % id(self)) + name, ty.sort())
        return self.sks[name]

    def loc(self, name, view=None):
        view = view or self.cur
        if name == '__filtered':
            name = [k for k in view.env if k.startswith('__filtered')][-1]
        v = view.env[name]
        if isinstance(v, C):
            return _read_loc_view(view, v.loc)
        if isinstance(v, V):
            return v.t
        return v

    def loc0(self, name):
        return self.loc(name, self.entry)

    def outer_done(self, idx):
        """the `done` ghost of an enclosing loop (by loop ordinal)"""
        return self.ex.loop_done[idx]


def _read_loc_view(view, loc):
    if isinstance(loc, FieldLoc):
        return view.heap[loc.field][loc.ref]
    if isinstance(loc, GlobLoc):
        return view.glob[loc.name]
    return view.box[loc.bid]


LOGGING = ('log.', 'LOG.', 'logging.', 'print')


# ----------------------------------------------------------------------------- the executor
class Exec:
    def __init__(self, fn_ast, contract, world, qual, src_path=''):
        self.fn, self.k, self.world, self.qual, self.src_path = fn_ast, contract, world, qual, src_path
        self.root_k = contract          # the contract under proof (self.k changes while a callee is interpreted in place)
        self.vcs, self._seen = [], set()
        self.abstracted, self.dropped, self.interpreted = [], 0, 0
        self.paths = 0
        self.module_ast = contract.module_ast
        self.cls = qual.split('.')[0] if '.' in qual else None
        self.loops = {}
        self._number_loops(fn_ast)

    def _number_loops(self, fn):
        order = []

        for n in ast.walk(fn):
            if isinstance(n, (ast.For, ast.While)):
                order.append(n)
        order.sort(key=lambda n: (n.lineno, n.col_offset))
        self.loops = {id(n): i for i, n in enumerate(order)}
        declared = getattr(self.k, 'loops', {}) or {}
        self.loop_keys = {}
        for n in order:
            head = _loop_head(n)
            for key in declared:
                if isinstance(key, str) and head.startswith(key):
                    self.loop_keys[id(n)] = key
        # an edited loop header: when exactly one declared key and exactly one loop are left over, pair them
        # (the invariant then judges the edited loop); anything more ambiguous is contract drift
        skeys = [k2 for k2 in declared if isinstance(k2, str)]
        if skeys:
            free_keys = [k2 for k2 in skeys if k2 not in self.loop_keys.values()]
            free_loops = [n for n in order if id(n) not in self.loop_keys and not any(isinstance(d, int) for d in declared)]
            if len(free_keys) == 1 and len(free_loops) == 1:
                self.loop_keys[id(free_loops[0])] = free_keys[0]
            elif free_keys and free_loops:
                raise Unsupported('loops of %s no longer match the contract: unmatched specs %s, unmatched loops %s'
                                  % (self.qual, free_keys, [_loop_head(n)[:40] for n in free_loops]))
        for i in declared:
            if isinstance(i, int) and i >= len(order):
                raise Unsupported('contract names loop %d but %s has %d loops' % (i, self.qual, len(order)))

    # ---- naming / fresh
    def fresh(self, base, ty):
        return z3.Const(self.path.fresh_name(base), ty.sort())

    def vc(self, name, goal, line=0, expect='unsat', extra_hyps=(), note=''):
        full = '%s.%s' % (self.qual, name)
        if isinstance(goal, bool):          # a clause that evaluated to a Python truth value (e.g. a comparison with None)
            goal = z3.BoolVal(goal)
        hyps = list(self.st.pc) + list(getattr(self, 'guards', None) or []) + list(extra_hyps)
        v = VC(full, hyps, list(self.st.qh), goal, line, expect, note)
        k = v.key()
        if k in self._seen:
            return
        self._seen.add(k)
        v.inputs = dict(self.inputs)
        v.rounds = getattr(self.k, 'inst_rounds', None)
        v.max_inst = getattr(self.k, 'max_inst', None)
        self.vcs.append(v)

    def assume(self, f):
        g = getattr(self, 'guards', None)
        if g:
            f = z3.Implies(z3.And(*g) if len(g) > 1 else g[0], f)
        self.st.pc.append(f)

    def decide(self, cond, line=0):
        """fork on a symbolic condition"""
        if isinstance(cond, bool):
            return cond
        cond = z3.simplify(cond)
        if z3.is_true(cond):
            return True
        if z3.is_false(cond):
            return False
        if getattr(self, 'no_fork', 0):
            raise Unsupported('branch on a symbolic condition inside a quantified body')
        p = self.path
        i = len(p.taken)
        if i < len(p.prefix):
            choice = p.prefix[i]
        else:
            choice = True
            p.alts.append(list(p.taken) + [False])
        p.taken.append(choice)
        self.assume(cond if choice else z3.Not(cond))
        if not self._feasible():
            raise _PathEnd()
        return choice

    def choose(self, n):
        """meta-choice among n alternatives (loop cut points)"""
        p = self.path
        i = len(p.taken)
        if i < len(p.prefix):
            c = p.prefix[i]
        else:
            c = 0
            for alt in range(1, n):
                p.alts.append(list(p.taken) + [alt])
        p.taken.append(c)
        return c

    def _feasible(self):
        s = z3.Solver()
        s.set('timeout', 300)
        s.add(*self.st.pc)
        s.add(*(getattr(self, 'guards', None) or []))
        return s.check() != z3.unsat

    # ---- driver
    def run(self):
        try:
            _types.OPAQUE[0] = bool(getattr(self.k, 'opaque_strings', False))
            return self._run()
        finally:
            _types.OPAQUE[0] = False

    def _run(self):
        stack = [[]]
        while stack:
            prefix = stack.pop()
            self.path = Path(prefix)
            self.paths += 1
            if self.paths > 4000:
                raise Unsupported('path explosion in ' + self.qual)
            try:
                self._run_path()
            except _PathEnd:
                pass
            stack.extend(self.path.alts)
        return self.vcs

    def _run_path(self):
        self.st = State()
        st = self.st
        k = self.k
        self.opaque_strings = bool(getattr(k, 'opaque_strings', False))     # inherited by inlined callees
        _types.OPAQUE[0] = self.opaque_strings
        self.inputs = {}
        self.world.init_state(self, st)
        args = {}
        a = self.fn.args
        names = [x.arg for x in a.posonlyargs + a.args + a.kwonlyargs]
        params = dict(getattr(k, 'params', {}))
        for nm in names:
            if nm not in params:
                raise Unsupported('parameter %s of %s has no declared type' % (nm, self.qual))
            ty = params[nm]
            if isinstance(ty, Ty):
                t = z3.Const('arg_' + nm, ty.sort())
                val = self.wrap(t, ty)
                self.inputs[nm] = t
            else:
                val = ty     # concrete python value / Lam given by the contract
            st.env[nm] = val
            args[nm] = val.t if isinstance(val, V) else (self.read(val) if isinstance(val, C) else val)
        va = getattr(k, 'vararg', None)
        if a.vararg is not None:
            if va is None:
                raise Unsupported('*%s of %s needs a declared arity (vararg=)' % (a.vararg.arg, self.qual))
            vals = []
            for i, ty in enumerate(va):
                t = z3.Const('arg_%s_%d' % (a.vararg.arg, i), ty.sort())
                vals.append(self.wrap(t, ty))
                self.inputs['%s_%d' % (a.vararg.arg, i)] = t
                args['%s_%d' % (a.vararg.arg, i)] = t
            st.env[a.vararg.arg] = tuple(vals)
        if a.kwarg is not None:
            st.env[a.kwarg.arg] = {}
        for nm, ty in (getattr(k, 'free', {}) or {}).items():
            if isinstance(ty, Ty):
                t = z3.Const('free_' + nm, ty.sort())
                st.env[nm] = self.wrap(t, ty)
                self.inputs[nm] = t
                args[nm] = t
            else:
                st.env[nm] = ty
        self.args = args
        self.old = st.snap()
        c = SpecCtx(self, args, self.old, self.old)
        self.prove_ctx = c
        creq = SpecCtx(self, args, self.old, self.old, mode='assume')
        for f in self._clauses(getattr(k, 'requires', None), creq).values():
            self._assume_clause(f, creq, 'requires')        # pointwise preconditions hold for every point
        for q in self.world.invariants(self, c):
            if isinstance(q, QHyp):
                st.qh.append(q)
            else:
                self.assume(q)
        if getattr(k, 'ghost_body', None) is not None:
            k.ghost_body(self, self.args, self.fn.lineno)       # ghost statement at the entry of the function under proof
        self.try_stack = []
        self.loop_frames = []
        self.loop_done = {}
        self.guards = []
        try:
            self.exec_block(self.fn.body)
            self._at_return(None)
        except _Return as r:
            self._at_return(r.v)
        except _Raise as r:
            self._at_raise(r)

    def _clauses(self, fn, c):
        if fn is None:
            return {}
        try:
            r = fn(c)
        except KeyError as e:
            raise Unsupported('specification of %s refers to %s which the edited function no longer has' % (self.qual, e))
        if r is None:
            return {}
        if isinstance(r, dict):
            return r
        if isinstance(r, (list, tuple)):
            return {str(i): f for i, f in enumerate(r)}
        return {'0': r}

    def _at_return(self, val):
        self.endpoints = getattr(self, 'endpoints', 0) + 1
        k = self.k
        st = self.st
        res = None
        if val is not None or getattr(k, 'returns', None) is not None:
            rty = getattr(k, 'returns', None)
            if rty is not None:
                if isinstance(rty, Ty):
                    try:
                        res = self.to_z3(val, rty)
                    except (z3.Z3Exception, Unsupported) as e:
                        # the function returns something that is not of the declared result type at all: that is a failed
                        # postcondition, not an engine problem
                        self.vc('post.result-has-the-declared-type', z3.BoolVal(False), self.fn.lineno, note='returned %r, declared %s (%s)' % (val, rty.name, e))
                        res = rty.fresh(self.path.fresh_name('illtyped_result')) if hasattr(rty, 'fresh') else z3.Const(self.path.fresh_name('illtyped_result'), rty.sort())
                else:
                    res = val
            elif isinstance(val, V):
                res = val.t
            else:
                res = val
        c = SpecCtx(self, self.args, self.old, st.snap(), result=res)
        c.sks = self.prove_ctx.sks
        c.raised = None
        for nm, f in self._clauses(getattr(k, 'ensures', None), c).items():
            self.vc('post.' + nm, f, self.fn.lineno)
        self._frame(c)
        self.vc('canary', z3.BoolVal(False), self.fn.lineno, expect='sat')

    def _at_raise(self, r):
        k = self.k
        allowed = getattr(k, 'raises', {}) or {}
        nm = r.exc
        c = SpecCtx(self, self.args, self.old, self.st.snap())
        c.sks = self.prove_ctx.sks
        c.raised = nm
        if nm in allowed:
            cond = allowed[nm](c) if callable(allowed[nm]) else z3.BoolVal(True)
            self.vc('raises.%s' % nm, cond, r.line)
            for cn, f in self._clauses(getattr(k, 'ensures_on_raise', None), c).items():
                self.vc('post.raise.' + cn, f, r.line)
        else:
            self.vc('safe.no-%s@%d' % (nm, 0), z3.BoolVal(False), r.line, note='exception %s escapes at line %d' % (nm, r.line))

    def _frame(self, c):
        mod = set(getattr(self.k, 'modifies', ()) or ())
        for f, arr in self.st.heap.items():
            if f in mod:
                continue
            if arr.get_id() != self.old.heap[f].get_id():
                self.vc('frame.' + f, arr == self.old.heap[f], self.fn.lineno)
        for g, t in self.st.glob.items():
            if g in mod:
                continue
            if t.get_id() != self.old.glob[g].get_id():
                self.vc('frame.' + g, t == self.old.glob[g], self.fn.lineno)

    # ---- locations
    def read(self, c):
        loc = c.loc
        if isinstance(loc, FieldLoc):
            return self.st.heap[loc.field][loc.ref]
        if isinstance(loc, GlobLoc):
            return self.st.glob[loc.name]
        return self.st.box[loc.bid]

    def write(self, c, t, line=0):
        loc = c.loc
        if isinstance(loc, FieldLoc):
            self._note_write(loc.field, line)
            self.st.heap[loc.field] = z3.Store(self.st.heap[loc.field], loc.ref, t)
        elif isinstance(loc, GlobLoc):
            self._note_write(loc.name, line)
            self.st.glob[loc.name] = t
        else:
            for fr in getattr(self, 'loop_frames', []):
                if loc.bid in fr.pre_boxes and loc.bid not in fr.havoced:
                    raise Unsupported('local container %s mutated in a loop through an alias the frame analysis missed' % loc.bid)
            self.st.ghost.pop('sortkey:%s' % loc.bid, None)       # a written list is no longer known to be sorted
            self.st.box[loc.bid] = t

    def _note_write(self, what, line):
        for lm in getattr(self, 'loop_frames', []):
            if getattr(lm, 'live', None) is not None and what in lm.live:
                self.vc('safe.mutation-during-iteration@%d' % line, z3.BoolVal(False), line,
                        note='%s is written while a generator/filter is still iterating it' % what)
            if what not in lm.mods:
                self.vc('frame.loop.%s@%d' % (what, line), z3.BoolVal(False), line,
                        note='write to %s inside a loop whose contract does not list it' % what)

    def newbox(self, t, ty):
        bid = self.path.fresh_name('box')
        self.st.box[bid] = t
        return C(BoxLoc(bid), ty)

    def wrap(self, t, ty):
        """turn a z3 term of type ty into a value (containers get a box)"""
        if isinstance(ty, (SetOf, SeqOf, MapOf, ListOf)):
            return self.newbox(t, ty)
        return V(t, ty)

    # ---- conversions
    def to_z3(self, v, ty=None):
        if isinstance(v, V):
            if ty is not None and isinstance(ty, Opt) and not isinstance(v.ty, Opt):
                return ty.some(self.to_z3(v, ty.inner))
            if ty is not None and isinstance(v.ty, Opt) and not isinstance(ty, Opt):
                return self.unwrap(v).t
            return v.t
        if isinstance(v, C):
            return self.read(v)
        if isinstance(v, Iter):
            return self.read(self.materialize(v, ty))
        if ty is None:
            ty = self.ty_of(v)
        if isinstance(ty, Opt):
            if v is None:
                return ty.none()
            return ty.some(self.to_z3(v, ty.inner))
        if ty == BOOL:
            return z3.BoolVal(bool(v))
        if ty == INT:
            return z3.IntVal(int(v))
        if ty == REAL:
            return z3.RealVal(v)
        if ty == ATOM:
            return atom(v)
        if ty == STR:
            return strlit(v)
        if ty == BYTES:
            if len(v) == 0:
                return z3.Empty(BYTES.sort())
            us = [z3.Unit(z3.BitVecVal(b, 8)) for b in v]
            return us[0] if len(us) == 1 else z3.Concat(*us)
        if isinstance(ty, Enum):
            return ty.const(v.name if hasattr(v, 'name') else v)
        if isinstance(ty, SetOf):
            t = ty.empty()
            for e in v:
                t = z3.Store(t, self.to_z3(e, ty.elem), True)
            return t
        if isinstance(ty, MapOf) and isinstance(v, dict):
            t = ty.empty()
            for k2, v2 in v.items():
                t = z3.Store(t, self.to_z3(k2, ty.k), ty.opt.some(self.to_z3(v2, ty.v)))
            return t
        if isinstance(ty, ListOf):
            arr = ty.arr(ty.empty())
            for i, e in enumerate(v):
                arr = z3.Store(arr, i, self.to_z3(e, ty.elem))
            return ty.mk(z3.IntVal(len(v)), arr)
        if isinstance(ty, SeqOf):
            us = [z3.Unit(self.to_z3(e, ty.elem)) for e in v]
            return ty.empty() if not us else (us[0] if len(us) == 1 else z3.Concat(*us))
        if isinstance(ty, Rec) and isinstance(v, tuple):
            return ty.mk(*[self.to_z3(e, t) for e, t in zip(v, ty.fields.values())])
        raise Unsupported('cannot convert %r to %s' % (v, ty))

    def ty_of(self, v):
        if isinstance(v, (V, C)):
            return v.ty
        et = self.world.enum_of(v)
        if et is not None:
            return et
        if isinstance(v, bool):
            return BOOL
        if isinstance(v, int):
            return INT
        if isinstance(v, float):
            return REAL
        if isinstance(v, str):
            return ATOM
        if isinstance(v, bytes):
            return BYTES
        et = self.world.enum_of(v)
        if et is not None:
            return et
        raise Unsupported('no type for %r' % (v,))

    def unwrap(self, v, line=0):
        """use an Optional value as its inner value: obligation that it is not None"""
        if isinstance(v, V) and isinstance(v.ty, Opt):
            self.vc('safe.none@%d' % line, z3.Not(v.ty.is_none(v.t)), line)
            self.assume(z3.Not(v.ty.is_none(v.t)))
            return V(v.ty.val(v.t), v.ty.inner)
        return v

    def truth(self, v, line=0):
        """Python truthiness as a z3 Bool or a Python bool"""
        if isinstance(v, V):
            ty = v.ty
            if ty == BOOL:
                return v.t
            if ty == INT:
                return v.t != 0
            if ty == STR and self.opaque_strings:
                return v.t != strlit('')
            if ty == STR:
                return z3.Length(v.t) > 0
            if ty == BYTES:
                return z3.Length(v.t) > 0
            if isinstance(ty, Opt):
                inner = V(ty.val(v.t), ty.inner)
                if isinstance(ty.inner, (Ref, Rec, Enum)) or ty.inner == ATOM:
                    return z3.Not(ty.is_none(v.t))
                return z3.And(z3.Not(ty.is_none(v.t)), self.truth(inner))
            if isinstance(ty, (Ref, Rec, Enum)):
                return True
            if ty == ATOM:
                return self.world.atom_truth(self, v.t)
            raise Unsupported('truthiness of %s' % ty)
        if isinstance(v, C):
            t = self.read(v)
            if isinstance(v.ty, SetOf):
                return t != v.ty.empty()
            if isinstance(v.ty, SeqOf):
                return z3.Length(t) > 0
            if isinstance(v.ty, ListOf):
                return v.ty.len(t) > 0
            if isinstance(v.ty, MapOf):
                return t != v.ty.empty()
        if isinstance(v, Iter):
            return self.truth(self.materialize(v))
        if isinstance(v, (Lam, Dotted, Bound)):
            return True
        return bool(v)

    def is_sym(self, v):
        return isinstance(v, (V, C, Iter))

    # ---- statements
    def exec_block(self, stmts):
        for s in stmts:
            self.exec_stmt(s)

    def exec_stmt(self, s):
        m = getattr(self, 'st_' + type(s).__name__, None)
        if m is None:
            raise Unsupported('statement %s at line %d' % (type(s).__name__, s.lineno))
        self.interpreted += 1
        r = m(s)
        bi = getattr(self.k, 'boundary_invariant', None)
        if bi is not None and self.depth == 0 and not isinstance(s, (ast.If, ast.For, ast.While, ast.Try, ast.With, ast.FunctionDef)):
            # crash points: the invariant must hold between any two statements of the function (DESIGN §2.1, C07)
            c = SpecCtx(self, self.args, self.old, self.st.snap())
            c.sks = self.prove_ctx.sks
            for nm, f in self._clauses(bi, c).items():
                self.vc('boundary.%s@%d' % (nm, s.lineno), f, s.lineno, note='after the statement at line %d' % s.lineno)
        return r

    def st_Pass(self, s):
        pass

    def st_Global(self, s):
        pass

    def st_Import(self, s):
        pass

    st_ImportFrom = st_Import

    def st_Expr(self, s):
        if isinstance(s.value, ast.Constant):
            return
        if isinstance(s.value, ast.Call) and self._is_logging(s.value):
            self.dropped += 1
            return
        self.eval(s.value)

    def _is_logging(self, call):
        try:
            src = ast.unparse(call.func)
        except Exception:
            return False
        if src == 'print':
            return True
        parts = src.split('.')
        return len(parts) >= 2 and parts[0] in ('log', 'LOG', 'logging', 'logger') and parts[-1] in (
            'debug', 'info', 'warning', 'warn', 'error', 'critical', 'exception', 'log', 'excpetion')

    def st_Return(self, s):
        raise _Return(self.eval(s.value) if s.value is not None else None)

    def st_Break(self, s):
        raise _Break()

    def st_Continue(self, s):
        raise _Continue()

    def st_Raise(self, s):
        name = 'Exception'
        if s.exc is not None:
            e = s.exc.func if isinstance(s.exc, ast.Call) else s.exc
            name = ast.unparse(e).split('.')[-1]
        raise _Raise(name, s.lineno)

    def st_Assert(self, s):
        c = self.truth(self.eval(s.test), s.lineno)
        self.vc('safe.assert@%d' % s.lineno, c if not isinstance(c, bool) else z3.BoolVal(c), s.lineno)
        if not isinstance(c, bool):
            self.assume(c)

    def st_FunctionDef(self, s):
        a = s.args
        defaults = {}
        pos = a.posonlyargs + a.args
        for arg, d in zip(pos[len(pos) - len(a.defaults):], a.defaults):
            defaults[arg.arg] = self.eval(d)
        self.st.env[s.name] = Lam([x.arg for x in pos], s.body, self.st.env, defaults, is_expr=False, name=s.name)
        self.st.env[s.name].vararg = a.vararg.arg if a.vararg else None
        self.st.env[s.name].kwarg = a.kwarg.arg if a.kwarg else None

    def st_If(self, s):
        c = self.truth(self.eval(s.test), s.lineno)
        if not isinstance(c, bool):
            c = z3.simplify(c)
            if z3.is_true(c):
                c = True
            elif z3.is_false(c):
                c = False
        if isinstance(c, bool):
            self.exec_block(s.body if c else s.orelse)
            return
        if not getattr(self, 'no_fork', 0) and not _has_jump(s) and self._try_merge(s, c):
            return
        if self.decide(c, s.lineno):
            self.exec_block(s.body)
        else:
            self.exec_block(s.orelse)

    def _try_merge(self, s, c):
        """run both branches inside this path and join the states with ite (abandoned, and replaced by a
        fork, when a branch leaves abnormally or the states do not line up)"""
        base = self.st
        mark = (len(self.vcs), set(self._seen), self.path.n, len(self.path.taken), len(self.path.alts),
                self.interpreted, self.dropped)
        g = list(self.guards)
        outs = []
        try:
            for cond, blk in ((c, s.body), (z3.Not(c), s.orelse)):
                self.st = base.copy()
                self.guards = list(g)
                self.st.pc.append(cond)
                if not self._feasible():
                    outs.append(None)
                    continue
                self.exec_block(blk)
                outs.append(self.st)
        except (_Return, _Raise, _Break, _Continue, _PathEnd):
            self.st, self.guards = base, g
            del self.vcs[mark[0]:]
            self._seen = mark[1]
            self.path.n = mark[2]
            del self.path.taken[mark[3]:]
            del self.path.alts[mark[4]:]
            self.interpreted, self.dropped = mark[5], mark[6]
            return False
        self.guards = g
        a, b = outs
        if a is None and b is None:
            self.st = base
            raise _PathEnd()
        if a is None or b is None:
            self.st = a or b
            return True
        m = _merge_states(self, base, a, b, c)
        if m is None:
            self.st = base
            del self.vcs[mark[0]:]
            self._seen = mark[1]
            self.path.n = mark[2]
            del self.path.taken[mark[3]:]
            del self.path.alts[mark[4]:]
            self.interpreted, self.dropped = mark[5], mark[6]
            return False
        self.st = m
        return True

    def st_Assign(self, s):
        v = self.eval(s.value)
        for tgt in s.targets:
            self.assign(tgt, v, s.lineno)

    def st_AnnAssign(self, s):
        if s.value is not None:
            self.assign(s.target, self.eval(s.value), s.lineno)

    def st_AugAssign(self, s):
        cur = self.eval(_load(s.target))
        rhs = self.eval(s.value)
        if isinstance(cur, C) and isinstance(s.op, (ast.Add, ast.BitOr, ast.Sub)):
            # in-place container update
            if isinstance(cur.ty, SetOf) and isinstance(s.op, (ast.BitOr, ast.Add)):
                self.call_method(cur, 'update' if not cur.ty.listlike else 'extend', [rhs], {}, s.lineno)
                return
            if isinstance(cur.ty, SetOf) and isinstance(s.op, ast.Sub):
                self.call_method(cur, 'difference_update', [rhs], {}, s.lineno)
                return
            if isinstance(cur.ty, SeqOf) and isinstance(s.op, ast.Add):
                self.call_method(cur, 'extend', [rhs], {}, s.lineno)
                return
        self.assign(s.target, self.binop(s.op, cur, rhs, s.lineno), s.lineno)

    def st_Delete(self, s):
        for t in s.targets:
            if isinstance(t, ast.Subscript):
                base = self.eval(t.value)
                key = self.eval(t.slice)
                self.call_method(base, '__delitem__', [key], {}, s.lineno)
            else:
                raise Unsupported('del of %s' % ast.unparse(t))

    def assign(self, tgt, v, line):
        if isinstance(tgt, ast.Name):
            gk = self.world.global_key(self, tgt.id)
            if gk is not None and tgt.id not in self.st.env and self._declared_global(tgt.id):
                self.set_global(gk, v, line)
            else:
                lt = self.world.local_type(self, tgt.id, v)
                if lt is not None and not isinstance(v, (V, C)) and self.depth == 0:
                    v = self.wrap(self.to_z3(v, lt), lt)
                elif lt is not None and isinstance(v, V) and isinstance(v.ty, Opt) and not isinstance(lt, Opt) and self.depth == 0:
                    v = self.unwrap(v, line)
                elif lt is not None and isinstance(v, C) and isinstance(lt, SetOf) and isinstance(v.ty, SetOf) and getattr(lt, 'dups_ok', False) and self.depth == 0:
                    v = C(v.loc, lt)
                self.st.env[tgt.id] = v
        elif isinstance(tgt, (ast.Tuple, ast.List)):
            parts = self.unpack(v, len(tgt.elts), line)
            for e, p in zip(tgt.elts, parts):
                self.assign(e, p, line)
        elif isinstance(tgt, ast.Attribute):
            base = self.eval(tgt.value)
            if isinstance(base, Dotted):
                gk = self.world.resolve_global(self, base.path + '.' + tgt.attr)
                if gk is None:
                    raise Unsupported('assignment to %s.%s' % (base.path, tgt.attr))
                self.set_global(gk, v, line)
                return
            base = self.unwrap(base, line)
            if isinstance(base, V) and isinstance(base.ty, Ref) and (base.ty.cls, tgt.attr) in self.world.properties:
                self.world.call_function(self, self.world.properties[(base.ty.cls, tgt.attr)][1], [base, v], {}, tgt)
            elif isinstance(base, V) and isinstance(base.ty, Ref):
                self.set_field(base, self.mangle(tgt.attr), v, line)
            else:
                raise Unsupported('attribute assignment on %r' % (base,))
        elif isinstance(tgt, ast.Subscript):
            base = self.eval(tgt.value)
            key = self.eval(tgt.slice)
            if isinstance(base, V) and isinstance(base.ty, Ref) and isinstance(key, str) and self.world.field_type('%s.%s' % (base.ty.cls, key)) is not None:
                self.set_field(base, key, v, line)
            else:
                self.call_method(base, '__setitem__', [key, v], {}, line)
        else:
            raise Unsupported('assignment target %s' % type(tgt).__name__)

    def _declared_global(self, name):
        for n in ast.walk(self.fn):
            if isinstance(n, ast.Global) and name in n.names:
                return True
        return False

    def unpack(self, v, n, line):
        if isinstance(v, (tuple, list)):
            if len(v) != n:
                raise _Raise('ValueError', line)
            return list(v)
        if isinstance(v, V) and isinstance(v.ty, Rec):
            fs = list(v.ty.fields.items())
            if len(fs) != n:
                raise _Raise('ValueError', line)
            return [self.wrap(v.ty.get(v.t, f), t) for f, t in fs]
        raise Unsupported('unpacking %r' % (v,))

    def mangle(self, attr):
        if attr.startswith('__') and not attr.endswith('__') and self.cls:
            return '_%s%s' % (self.cls.lstrip('_'), attr)
        return attr

    # ---- heap
    def field_key(self, ref, attr):
        return '%s.%s' % (ref.ty.cls, attr)

    def get_field(self, ref, attr, line=0):
        fk = self.field_key(ref, attr)
        fty = self.world.field_type(fk)
        if fty is None:
            raise Unsupported('no declared field %s' % fk)
        if fk not in self.st.heap:
            raise Unsupported('field %s not initialised' % fk)
        if isinstance(fty, (SetOf, SeqOf, MapOf, ListOf)):
            return C(FieldLoc(fk, ref.t), fty)
        return V(self.st.heap[fk][ref.t], fty)

    def set_field(self, ref, attr, v, line=0):
        fk = self.field_key(ref, attr)
        fty = self.world.field_type(fk)
        if fty is None:
            raise Unsupported('no declared field %s' % fk)
        self._note_write(fk, line)
        self.st.heap[fk] = z3.Store(self.st.heap[fk], ref.t, self.to_z3(v, fty))

    def get_global(self, gk):
        gty = self.world.global_type(gk)
        if isinstance(gty, (SetOf, SeqOf, MapOf, ListOf)):
            return C(GlobLoc(gk), gty)
        return V(self.st.glob[gk], gty)

    def set_global(self, gk, v, line=0):
        gty = self.world.global_type(gk)
        self._note_write(gk, line)
        self.st.glob[gk] = self.to_z3(v, gty)

    # ---- expressions
    def eval(self, e):
        ab = getattr(self.k, 'abstract', None)
        if ab and isinstance(e, (ast.Call, ast.DictComp, ast.ListComp, ast.Dict, ast.Subscript, ast.BinOp, ast.JoinedStr, ast.Attribute, ast.IfExp, ast.Compare)):
            # declared abstraction (DESIGN §2.2): the expression is replaced by a fresh unconstrained value of its declared
            # sort; allowed only for expressions that cannot write modelled state, and listed in the evidence
            src = ast.unparse(e)
            for key, ty in ab.items():
                if src == key or (key.endswith('*') and src.startswith(key[:-1])):
                    self.abstracted.append('%s @%d -> %s' % (src[:60], getattr(e, 'lineno', 0),
                                                             ('model ' + getattr(ty, '__name__', 'function')) if callable(ty) and not isinstance(ty, Ty) else ty))
                    if ty is None:
                        return None
                    if callable(ty) and not isinstance(ty, Ty):
                        return ty(self, e)
                    return self.wrap(self.fresh('abstract', ty), ty) if isinstance(ty, Ty) else ty
        m = getattr(self, 'ev_' + type(e).__name__, None)
        if m is None:
            raise Unsupported('expression %s at line %d' % (type(e).__name__, getattr(e, 'lineno', 0)))
        return m(e)

    def ev_Constant(self, e):
        return e.value

    def ev_Name(self, e):
        nm = e.id
        if nm in self.st.env:
            v = self.st.env[nm]
            if v is UNBOUND:
                self.vc('safe.unbound.%s@%d' % (nm, e.lineno), z3.BoolVal(False), e.lineno,
                        note='local %s may be read before it is bound' % nm)
                raise _PathEnd()
            return v
        if self._is_local(nm):
            self.vc('safe.unbound.%s@%d' % (nm, e.lineno), z3.BoolVal(False), e.lineno,
                    note='local %s may be read before it is bound' % nm)
            raise _PathEnd()
        gk = self.world.global_key(self, nm)
        if gk is not None:
            return self.get_global(gk)
        r = self.world.resolve_name(self, nm)
        if r is not None:
            return r
        return Dotted(nm)

    def _is_local(self, nm):
        if not hasattr(self, '_locals'):
            loc = set()
            glb = set()
            for n in ast.walk(self.fn):
                if isinstance(n, ast.Name) and isinstance(n.ctx, ast.Store):
                    loc.add(n.id)
                elif isinstance(n, ast.Global):
                    glb.update(n.names)
                elif isinstance(n, ast.FunctionDef) and n is not self.fn:
                    loc.add(n.name)
            # names stored only inside nested lambdas/comprehensions are not locals of this frame, but
            # treating them as such only matters if the same name is also a global: rare, accepted
            self._locals = loc - glb
        return nm in self._locals

    def ev_Attribute(self, e):
        base = self.eval(e.value)
        return self.getattr(base, e.attr, e.lineno)

    def getattr(self, base, attr, line=0):
        if isinstance(base, Dotted):
            path = base.path + '.' + attr
            gk = self.world.resolve_global(self, path)
            if gk is not None:
                return self.get_global(gk)
            r = self.world.resolve_path(self, path)
            if r is not None:
                return r
            return Dotted(path)
        if isinstance(base, V) and isinstance(base.ty, Opt):
            base = self.unwrap(base, line)
        if isinstance(base, V) and isinstance(base.ty, Ref) and (base.ty.cls, attr) in self.world.properties:
            return self.world.call_function(self, self.world.properties[(base.ty.cls, attr)][0], [base], {}, _Line(line))
        if isinstance(base, V) and isinstance(base.ty, Ref):
            attr = self.mangle(attr)
            fk = self.field_key(base, attr)
            if self.world.field_type(fk) is not None:
                return self.get_field(base, attr, line)
            r = self.world.ref_attr(self, base, attr, line)
            if r is not None:
                return r
            return Bound(base, attr)
        if isinstance(base, V) and isinstance(base.ty, Rec):
            if attr in base.ty.fields:
                return self.wrap(base.ty.get(base.t, attr), base.ty.fields[attr])
            r = self.world.rec_attr(self, base, attr, line)
            if r is not None:
                return r
            return Bound(base, attr)
        if isinstance(base, (V, C, Iter, Lam)) or isinstance(base, (str, bytes, tuple, list, dict, set)):
            return Bound(base, attr)
        r = self.world.py_attr(self, base, attr)
        if r is not None:
            return r
        raise Unsupported('attribute %s of %r' % (attr, base))

    def ev_Tuple(self, e):
        return tuple(self.eval(x) for x in e.elts)

    def ev_List(self, e):
        return [self.eval(x) for x in e.elts]

    def ev_Set(self, e):
        return {self.eval(x) for x in e.elts}

    def ev_Dict(self, e):
        return {self.eval(k): self.eval(v) for k, v in zip(e.keys, e.values)}

    def ev_Lambda(self, e):
        a = e.args
        pos = a.posonlyargs + a.args
        defaults = {}
        for arg, d in zip(pos[len(pos) - len(a.defaults):], a.defaults):
            defaults[arg.arg] = self.eval(d)
        return Lam([x.arg for x in pos], e.body, self.st.env, defaults)

    def ev_IfExp(self, e):
        c = self.truth(self.eval(e.test), e.lineno)
        if self.decide(c, e.lineno):
            return self.eval(e.body)
        return self.eval(e.orelse)

    def ev_UnaryOp(self, e):
        v = self.eval(e.operand)
        if isinstance(e.op, ast.Not):
            t = self.truth(v, e.lineno)
            return (not t) if isinstance(t, bool) else V(z3.Not(t), BOOL)
        if isinstance(e.op, ast.USub):
            v = self.unwrap(v, e.lineno)        # -None raises TypeError: obligation that the operand is not None
            if isinstance(v, V):
                return V(-v.t, v.ty)
            return -v
        raise Unsupported('unary %s' % type(e.op).__name__)

    def ev_BoolOp(self, e):
        """`and`/`or`: boolean operands are combined into one term; later operands are evaluated under the guard
        of the earlier ones (so their safety obligations and assumptions are guarded); a non-boolean operand forks"""
        is_and = isinstance(e.op, ast.And)
        if not hasattr(self, 'guards') or self.guards is None:
            self.guards = []
        depth = len(self.guards)
        terms = []
        try:
            for i, sub in enumerate(e.values):
                v = self.eval(sub)
                last = i == len(e.values) - 1
                t = self.truth(v, e.lineno)
                boolish = isinstance(t, bool) or (isinstance(v, V) and v.ty == BOOL)
                if not boolish and getattr(self, 'no_fork', 0):
                    boolish = True       # inside a predicate only the truth value of `a or b` is used
                if not boolish:
                    # value-returning and/or: commit what we know and fork on this operand
                    del self.guards[depth:]
                    for tt in terms:
                        self.assume(tt if is_and else z3.Not(tt))
                    terms = []
                    if last or self.decide(t, e.lineno) != is_and:
                        return v
                    continue
                if isinstance(t, bool):
                    if t != is_and:
                        if not terms:
                            return t
                        return V(z3.And(*terms, z3.BoolVal(t)) if is_and else z3.Or(*terms, z3.BoolVal(t)), BOOL)
                    continue
                terms.append(t)
                if not last:
                    self.guards.append(t if is_and else z3.Not(t))
        finally:
            del self.guards[depth:]
        if not terms:
            return is_and
        if len(terms) == 1:
            return V(terms[0], BOOL)
        return V(z3.And(*terms) if is_and else z3.Or(*terms), BOOL)

    def ev_Compare(self, e):
        left = self.eval(e.left)
        terms = []
        for op, rhs in zip(e.ops, e.comparators):
            right = self.eval(rhs)
            terms.append(self.compare(op, left, right, e.lineno))
            left = right
        if all(isinstance(t, bool) for t in terms):
            return all(terms)
        ts = [t if not isinstance(t, bool) else z3.BoolVal(t) for t in terms]
        return V(ts[0] if len(ts) == 1 else z3.And(*ts), BOOL)

    def compare(self, op, a, b, line):
        if isinstance(op, (ast.In, ast.NotIn)):
            r = self.contains(b, a, line)
            if isinstance(op, ast.NotIn):
                r = (not r) if isinstance(r, bool) else z3.Not(r)
            return r
        if isinstance(op, (ast.Is, ast.IsNot)):
            r = self.identical(a, b, line)
            if isinstance(op, ast.IsNot):
                r = (not r) if isinstance(r, bool) else z3.Not(r)
            return r
        if isinstance(op, (ast.Eq, ast.NotEq)):
            r = self.equal(a, b, line)
            if isinstance(op, ast.NotEq):
                r = (not r) if isinstance(r, bool) else z3.Not(r)
            return r
        # ordering
        u = self.world.user_compare(self, op, a, b, line)
        if u is not None:
            return u
        a, b = self.unwrap(a, line), self.unwrap(b, line)
        if not self.is_sym(a) and not self.is_sym(b):
            return {ast.Lt: a < b, ast.LtE: a <= b, ast.Gt: a > b, ast.GtE: a >= b}[type(op)]
        ty = a.ty if isinstance(a, V) else b.ty
        ta, tb = self.to_z3(a, ty), self.to_z3(b, ty)
        if ty in (INT, REAL):
            return {ast.Lt: ta < tb, ast.LtE: ta <= tb, ast.Gt: ta > tb, ast.GtE: ta >= tb}[type(op)]
        if ty == STR:
            return {ast.Lt: ta < tb, ast.LtE: ta <= tb, ast.Gt: tb < ta, ast.GtE: tb <= ta}[type(op)]
        r = self.world.order(self, op, ty, ta, tb)
        if r is not None:
            return r
        raise Unsupported('ordering on %s' % ty)

    def identical(self, a, b, line):
        if a is None or b is None:
            o = b if a is None else a
            if o is None:
                return True
            if isinstance(o, V) and isinstance(o.ty, Opt):
                return o.ty.is_none(o.t)
            return False
        return self.equal(a, b, line)

    def equal(self, a, b, line):
        if isinstance(a, (tuple, list)) and isinstance(b, (tuple, list)) and type(a) is type(b):
            if len(a) != len(b):
                return False
            rs = [self.equal(x, y, line) for x, y in zip(a, b)]
            if all(isinstance(r, bool) for r in rs):
                return all(rs)
            return z3.And(*[r if not isinstance(r, bool) else z3.BoolVal(r) for r in rs])
        if not self.is_sym(a) and not self.is_sym(b):
            if isinstance(a, (Lam, Dotted, Bound)) or isinstance(b, (Lam, Dotted, Bound)):
                raise Unsupported('equality on functions')
            return a == b
        if a is None or b is None:
            return self.identical(a, b, line)
        if isinstance(a, (tuple, list)) or isinstance(b, (tuple, list)):
            if isinstance(a, (tuple, list)) and isinstance(b, (tuple, list)):
                if len(a) != len(b):
                    return False
                rs = [self.equal(x, y, line) for x, y in zip(a, b)]
                if all(isinstance(r, bool) for r in rs):
                    return all(rs)
                return z3.And(*[r if not isinstance(r, bool) else z3.BoolVal(r) for r in rs])
        sym = a if self.is_sym(a) else b
        ty = sym.ty
        oth = b if sym is a else a
        if isinstance(ty, Opt) and self.is_sym(oth) and not isinstance(oth.ty, Opt):
            return z3.And(z3.Not(ty.is_none(sym.t)), ty.val(sym.t) == self.to_z3(oth, ty.inner))
        if isinstance(ty, Opt) and not self.is_sym(oth):
            return z3.And(z3.Not(ty.is_none(sym.t)), ty.val(sym.t) == self.to_z3(oth, ty.inner))
        if self.is_sym(oth) and not _compat(ty, oth.ty):
            if isinstance(oth.ty, Opt):
                return self.equal(oth, sym, line)
            return False
        if not self.is_sym(oth):
            try:
                return self.to_z3(sym, ty) == self.to_z3(oth, ty)
            except (Unsupported, AttributeError, ValueError, TypeError):
                return False
        return self.to_z3(a, ty) == self.to_z3(b, ty)

    def contains(self, coll, x, line):
        if isinstance(coll, Bound):
            raise Unsupported('in on bound method')
        if isinstance(coll, Iter):
            coll = self.materialize(coll)
        if isinstance(coll, C):
            t = self.read(coll)
            if isinstance(coll.ty, SetOf):
                return t[self.to_z3(x, coll.ty.elem)]
            if isinstance(coll.ty, SeqOf):
                return z3.Contains(t, z3.Unit(self.to_z3(x, coll.ty.elem)))
            if isinstance(coll.ty, ListOf):
                j = z3.Int(self.path.fresh_name('in_j'))
                xt = self.to_z3(x, coll.ty.elem)
                return z3.Exists([j], z3.And(0 <= j, j < coll.ty.len(t), coll.ty.arr(t)[j] == xt))
            if isinstance(coll.ty, MapOf):
                return z3.Not(coll.ty.opt.is_none(t[self.to_z3(x, coll.ty.k)]))
        if isinstance(coll, V):
            if coll.ty == STR:
                return z3.Contains(coll.t, self.to_z3(x, STR))
            if coll.ty == BYTES:
                return z3.Contains(coll.t, self.to_z3(x, BYTES))
            r = self.world.user_contains(self, coll, x, line)
            if r is not None:
                return r
        if isinstance(coll, (list, tuple, set, frozenset, dict)):
            rs = [self.equal(x, y, line) for y in coll]
            if all(isinstance(r, bool) for r in rs):
                return any(rs)
            return z3.Or(*[r if not isinstance(r, bool) else z3.BoolVal(r) for r in rs])
        if isinstance(coll, str) and isinstance(x, str):
            return x in coll
        raise Unsupported('membership in %r' % (coll,))

    def ev_BinOp(self, e):
        return self.binop(e.op, self.eval(e.left), self.eval(e.right), e.lineno)

    def binop(self, op, a, b, line):
        if not self.is_sym(a) and not self.is_sym(b) and not isinstance(a, (Lam, Dotted, Bound)):
            import operator
            f = {ast.Add: operator.add, ast.Sub: operator.sub, ast.Mult: operator.mul, ast.Mod: operator.mod,
                 ast.FloorDiv: operator.floordiv, ast.Div: operator.truediv, ast.BitOr: operator.or_, ast.BitAnd: operator.and_}.get(type(op))
            if f is None:
                raise Unsupported('operator %s' % type(op).__name__)
            if isinstance(a, list) and isinstance(b, list) and isinstance(op, ast.Add):
                return a + b
            return f(a, b)
        u = self.world.user_binop(self, op, a, b, line)
        if u is not None:
            return u
        a, b = self.unwrap(a, line), self.unwrap(b, line)
        if isinstance(a, C) or isinstance(b, C) or isinstance(a, Iter) or isinstance(b, Iter):
            return self.coll_binop(op, a, b, line)
        sym = a if isinstance(a, V) else b
        ty = sym.ty
        if ty == BOOL and isinstance(op, (ast.BitOr, ast.BitAnd)):
            ba, bb = self.truth(a, line), self.truth(b, line)
            ba = ba if not isinstance(ba, bool) else z3.BoolVal(ba)
            bb = bb if not isinstance(bb, bool) else z3.BoolVal(bb)
            return V(z3.Or(ba, bb) if isinstance(op, ast.BitOr) else z3.And(ba, bb), BOOL)
        if ty in (INT, REAL, BOOL):
            ta, tb = self._num(a), self._num(b)
            if isinstance(op, ast.Add):
                return V(ta + tb, INT if ty != REAL else REAL)
            if isinstance(op, ast.Sub):
                return V(ta - tb, INT if ty != REAL else REAL)
            if isinstance(op, ast.Mult):
                return V(ta * tb, INT if ty != REAL else REAL)
            if isinstance(op, ast.FloorDiv):
                self.vc('safe.div0@%d' % line, tb != 0, line)
                return V(_floordiv(ta, tb), INT)
            if isinstance(op, ast.Mod):
                self.vc('safe.div0@%d' % line, tb != 0, line)
                return V(_pymod(ta, tb), INT)
        if ty == STR and isinstance(op, ast.Add) and self.opaque_strings:
            f = z3.Function('str_concat', STR.sort(), STR.sort(), STR.sort())
            return V(f(self.to_z3(a, ty), self.to_z3(b, ty)), ty)
        if ty in (STR, BYTES) and isinstance(op, ast.Add):
            return V(z3.Concat(self.to_z3(a, ty), self.to_z3(b, ty)), ty)
        raise Unsupported('binop %s on %s' % (type(op).__name__, ty))

    def _num(self, v):
        if isinstance(v, V) and isinstance(v.ty, Opt):
            v = self.unwrap(v)
        if isinstance(v, V):
            if v.ty == BOOL:
                return z3.If(v.t, z3.IntVal(1), z3.IntVal(0))
            return v.t
        if isinstance(v, bool):
            return z3.IntVal(int(v))
        if isinstance(v, int):
            return z3.IntVal(v)
        if isinstance(v, float):
            return z3.RealVal(v)
        raise Unsupported('numeric %r' % (v,))

    def coll_binop(self, op, a, b, line):
        a = self.materialize(a) if isinstance(a, Iter) else a
        b = self.materialize(b) if isinstance(b, Iter) else b
        ca = a if isinstance(a, C) else None
        cb = b if isinstance(b, C) else None
        ty = (ca or cb).ty
        if isinstance(ty, SetOf):
            ta = self.to_z3(a, ty)
            tb = self.to_z3(b, SetOf(ty.elem))
            if isinstance(op, ast.BitAnd):
                return self.newbox(z3.Map(_and_decl(), ta, tb), SetOf(ty.elem))
            if isinstance(op, (ast.BitOr,)) or (isinstance(op, ast.Add) and ty.listlike):
                if ty.listlike and not getattr(ty, 'dups_ok', False):
                    self.vc('nodup.concat@%d' % line, z3.Map(_and_decl(), ta, tb) == ty.empty(), line)
                return self.newbox(z3.Map(_or_decl(), ta, tb), ty)
            if isinstance(op, ast.Sub):
                return self.newbox(z3.Map(_and_decl(), ta, z3.Map(_not_decl(), tb)), SetOf(ty.elem))
        if isinstance(ty, SeqOf) and isinstance(op, ast.Add):
            return self.newbox(z3.Concat(self.to_z3(a, ty), self.to_z3(b, ty)), ty)
        raise Unsupported('collection operator %s on %s' % (type(op).__name__, ty))

    def ev_JoinedStr(self, e):
        if getattr(self.k, 'opaque_fstrings', False):
            # exact for equality reasoning: an f-string is a function of the values it formats
            tpl, vals = '', []
            for v in e.values:
                if isinstance(v, ast.Constant):
                    tpl += str(v.value)
                else:
                    tpl += '{}'
                    vals.append(self.eval(v.value))
            if not any(self.is_sym(v) for v in vals):
                return tpl.format(*vals)
            tys = [self.ty_of(v) for v in vals]
            f = fstring_fn(tpl, tys)
            return V(f(*[self.to_z3(v, t) for v, t in zip(vals, tys)]), STR)
        parts = []
        for v in e.values:
            if isinstance(v, ast.Constant):
                parts.append(v.value)
            else:
                parts.append(self.world.to_str(self, self.eval(v.value), e.lineno, spec=v.format_spec))
        if all(isinstance(p, str) for p in parts):
            return ''.join(parts)
        return V(z3.Concat(*[self.to_z3(p, STR) for p in parts]) if len(parts) > 1 else self.to_z3(parts[0], STR), STR)

    def ev_Subscript(self, e):
        base = self.eval(e.value)
        if isinstance(e.slice, ast.Slice):
            lo = self.eval(e.slice.lower) if e.slice.lower is not None else None
            hi = self.eval(e.slice.upper) if e.slice.upper is not None else None
            if e.slice.step is not None:
                raise Unsupported('slice step')
            return self.slice(base, lo, hi, e.lineno)
        return self.index(base, self.eval(e.slice), e.lineno)

    def slice(self, base, lo, hi, line):
        if isinstance(base, Iter):
            base = self.materialize(base)
        if not self.is_sym(base) and not self.is_sym(lo) and not self.is_sym(hi):
            return base[lo:hi]
        us = getattr(self.world, 'user_slice', None)
        if us is not None and isinstance(base, V):
            r = us(self, base, lo, hi, line)
            if r is not None:
                return r
        if isinstance(base, V) and isinstance(base.ty, Rec) and not self.is_sym(lo) and not self.is_sym(hi):
            fs = list(base.ty.fields.items())[lo:hi]        # a slice of a tuple is the tuple of those components
            return tuple(self.wrap(base.ty.get(base.t, f), t) for f, t in fs)
        if isinstance(base, C) and isinstance(base.ty, ListOf):
            ty = base.ty
            t = self.read(base)
            n = ty.len(t)
            lo_t = self._slice_bound(lo, n, z3.IntVal(0), line)
            hi_t = self._slice_bound(hi, n, n, line)
            cnt = z3.If(hi_t > lo_t, hi_t - lo_t, z3.IntVal(0))
            j = z3.Int(self.path.fresh_name('sl_j'))
            return self.newbox(ty.mk(cnt, z3.Lambda([j], ty.arr(t)[j + lo_t])), ty)
        if isinstance(base, C) and isinstance(base.ty, SeqOf):
            t, ty = self.read(base), base.ty
        elif isinstance(base, V) and base.ty == STR and self.opaque_strings:
            # strings whose content is irrelevant to the contract: operations are uninterpreted functions of their arguments
            f = z3.Function('str_slice', STR.sort(), z3.IntSort(), z3.IntSort(), STR.sort())
            return V(f(base.t, self._num(lo) if lo is not None else z3.IntVal(0), self._num(hi) if hi is not None else z3.IntVal(-1)), STR)
        elif isinstance(base, V) and base.ty in (STR, BYTES):
            t, ty = base.t, base.ty
        elif isinstance(base, (bytes, str)):
            ty = BYTES if isinstance(base, bytes) else STR
            t = self.to_z3(base, ty)
        else:
            raise Unsupported('slice of %r' % (base,))
        n = z3.Length(t)
        lo_t = self._slice_bound(lo, n, z3.IntVal(0), line)
        hi_t = self._slice_bound(hi, n, n, line)
        length = z3.If(hi_t > lo_t, hi_t - lo_t, z3.IntVal(0))
        r = z3.SubSeq(t, lo_t, length)
        return self.wrap(r, ty) if isinstance(ty, SeqOf) else V(r, ty)

    def _slice_bound(self, b, n, default, line):
        if b is None:
            return default
        if isinstance(b, V) and isinstance(b.ty, Opt):
            inner = self._clamp(b.ty.val(b.t), n)
            return z3.If(b.ty.is_none(b.t), default, inner)
        return self._clamp(self._num(b), n)

    def _clamp(self, t, n):
        t = z3.If(t < 0, t + n, t)
        return z3.If(t < 0, z3.IntVal(0), z3.If(t > n, n, t))

    def index(self, base, key, line):
        if isinstance(base, Iter):
            base = self.materialize(base)
        if isinstance(base, (tuple, list, str, bytes)) and not self.is_sym(key):
            try:
                return base[key]
            except IndexError:
                raise _Raise('IndexError', line)
        if isinstance(base, dict) and not self.is_sym(key):
            if key in base:
                return base[key]
            raise _Raise('KeyError', line)
        if isinstance(base, dict):
            # concrete dict with symbolic key (e.g. table keyed by an enum): chain of ite via forks
            for k, v in base.items():
                if self.decide(self._b(self.equal(key, k, line)), line):
                    return v
            raise _Raise('KeyError', line)
        if isinstance(base, (tuple, list)):
            for i, v in enumerate(base):
                if self.decide(self._b(self.equal(key, i, line)), line):
                    return v
            raise _Raise('IndexError', line)
        if isinstance(base, C):
            return self.call_method(base, '__getitem__', [key], {}, line)
        if isinstance(base, V) and isinstance(base.ty, Ref) and isinstance(key, str) and self.world.field_type('%s.%s' % (base.ty.cls, key)) is not None:
            return self.get_field(base, key, line)      # a dict with a fixed set of string keys, modelled as a record object
        if isinstance(base, V):
            if base.ty in (STR, BYTES):
                k = self._num(key)
                n = z3.Length(base.t)
                k = z3.If(k < 0, k + n, k)
                self.maybe_raise('IndexError', z3.Not(z3.And(k >= 0, k < n)), line)
                if base.ty == BYTES:
                    return V(z3.BV2Int(base.t[k]), INT)
                return V(z3.SubString(base.t, k, 1), STR)
            if isinstance(base.ty, Rec):
                fs = list(base.ty.fields.items())
                if not self.is_sym(key):
                    f, t = fs[key]
                    return self.wrap(base.ty.get(base.t, f), t)
            r = self.world.user_index(self, base, key, line)
            if r is not None:
                return r
        raise Unsupported('index of %r' % (base,))

    def _b(self, r):
        return r

    def maybe_raise(self, exc, cond, line):
        """an implicit exception `exc` occurs iff cond: a safety obligation unless an enclosing try catches it"""
        if isinstance(cond, bool):
            if cond:
                raise _Raise(exc, line)
            return
        if self.catches(exc):
            if self.decide(cond, line):
                raise _Raise(exc, line)
        else:
            allowed = getattr(self.k, 'raises', {}) or {}
            if exc in allowed and self.depth == 0:
                if self.decide(cond, line):
                    raise _Raise(exc, line)
                return
            self.vc('safe.%s@%d' % (exc, line), z3.Not(cond), line)
            self.assume(z3.Not(cond))

    depth = 0

    def catches(self, exc):
        for handlers in self.try_stack:
            for h in handlers:
                if h is None or exc in h or 'Exception' in h or 'BaseException' in h or _is_sub(exc, h):
                    return True
        return False

    def st_Try(self, s):
        names = []
        for h in s.handlers:
            if h.type is None:
                names.append(None)
            elif isinstance(h.type, ast.Tuple):
                names.append([ast.unparse(x).split('.')[-1] for x in h.type.elts])
            else:
                names.append([ast.unparse(h.type).split('.')[-1]])
        self.try_stack.append(names)
        try:
            try:
                self.exec_block(s.body)
            finally:
                self.try_stack.pop()
            self.exec_block(s.orelse)
        except _Raise as r:
            for h, nm in zip(s.handlers, names):
                if nm is None or r.exc in nm or 'Exception' in nm or 'BaseException' in nm or _is_sub(r.exc, nm):
                    if h.name:
                        self.st.env[h.name] = Dotted('exception.' + r.exc)
                    try:
                        self.exec_block(h.body)
                    except BaseException:
                        self._finally(s)
                        raise
                    break
            else:
                self._finally(s)
                raise
        except (_Return, _Break, _Continue):
            self._finally(s)
            raise
        self._finally(s)

    def _finally(self, s):
        if s.finalbody:
            self.exec_block(s.finalbody)

    def st_With(self, s):
        for item in s.items:
            v = self.world.with_enter(self, item, s.lineno)
            if item.optional_vars is not None:
                self.assign(item.optional_vars, v, s.lineno)
        self.exec_block(s.body)

    # ---- comprehensions
    def ev_ListComp(self, e):
        return self._comp(e, 'list')

    def ev_SetComp(self, e):
        return self._comp(e, 'set')

    def ev_GeneratorExp(self, e):
        return self._comp(e, 'gen')

    def ev_DictComp(self, e):
        return self._comp(e, 'dict')

    def _comp(self, e, kind):
        if len(e.generators) != 1:
            raise Unsupported('nested comprehension')
        g = e.generators[0]
        src = self.eval(g.iter)
        env = self.st.env
        if isinstance(src, dict):
            src = list(src.keys())
        if isinstance(src, (list, tuple, set, frozenset, range)):
            out = []
            keys = []
            for x in src:
                saved = dict(self.st.env)
                self.assign(g.target, x, e.lineno)
                ok = True
                for cond in g.ifs:
                    t = self.truth(self.eval(cond), e.lineno)
                    if not self.decide(t, e.lineno):
                        ok = False
                        break
                if ok:
                    if kind == 'dict':
                        keys.append(self.eval(e.key))
                        out.append(self.eval(e.value))
                    else:
                        out.append(self.eval(e.elt))
                self.st.env = saved
            if kind == 'dict':
                return dict(zip(keys, out))
            if kind == 'set':
                return set(out) if not any(self.is_sym(o) for o in out) else out
            return out
        # symbolic source: build a lazy Iter with filter/map closures
        filt = None
        if g.ifs:
            test = g.ifs[0] if len(g.ifs) == 1 else ast.BoolOp(op=ast.And(), values=list(g.ifs))
            ast.copy_location(test, e)
            ast.fix_missing_locations(test)
            filt = Lam([g.target], test, env)
        if kind == 'dict':
            fmap = (Lam([g.target], e.key, env), Lam([g.target], e.value, env))
            return self.world.dict_comp(self, Iter(src, filt, None), fmap, e.lineno)
        elt = e.elt
        ident = isinstance(elt, ast.Name) and isinstance(g.target, ast.Name) and elt.id == g.target.id
        it = Iter(src, filt, None if ident else Lam([g.target], elt, env))
        it.kind = kind
        if kind in ('list', 'set') and not getattr(self, 'no_fork', 0):
            try:
                return self.materialize(it)          # a list/set display is built at once (a generator is not)
            except Unsupported:
                return it
        return it

    def apply_lam(self, lam, args, kwargs=None, line=0):
        """interpret a closure at its point of use"""
        kwargs = kwargs or {}
        saved_env = self.st.env
        env = dict(lam.env)
        # late binding: closures see the *current* values of enclosing locals
        for k2, v2 in saved_env.items():
            if k2 in lam.env or True:
                env.setdefault(k2, v2)
                if k2 in lam.env:
                    env[k2] = saved_env[k2]
        names = list(lam.args)
        for i, a in enumerate(names):
            tgt = a
            if i < len(args):
                val = args[i]
            elif isinstance(a, str) and a in kwargs:
                val = kwargs[a]
            elif isinstance(a, str) and a in lam.defaults:
                val = lam.defaults[a]
            else:
                raise Unsupported('missing argument %s of %s' % (a, lam.name))
            if isinstance(tgt, str):
                env[tgt] = val
            else:
                self.st.env = env
                self.assign(tgt, val, line)
        if getattr(lam, 'vararg', None):
            env[lam.vararg] = tuple(args[len(names):])
        self.st.env = env
        try:
            if lam.is_expr:
                return self.eval(lam.body)
            try:
                self.exec_block(lam.body)
                return None
            except _Return as r:
                return r.v
        finally:
            # propagate rebinding of enclosing names is not modelled (closures here only read or mutate containers)
            self.st.env = saved_env

    # ---- iteration machinery
    def materialize(self, it, ty=None):
        """turn a lazy Iter into a container value (set abstraction of the produced elements)"""
        if not isinstance(it, Iter):
            return it
        return self.world.materialize(self, it, ty)

    def st_For(self, s):
        if s.orelse:
            raise Unsupported('for/else')
        src = self.eval(s.iter)
        self.iterate(s, src)

    def iterate(self, s, src):
        line = s.lineno
        filt = fmap = None
        while isinstance(src, Iter):
            if src.fmap is not None:
                if fmap is not None:
                    raise Unsupported('nested map')
                fmap = src.fmap
            if src.filt is not None:
                filt = src.filt if filt is None else _both(filt, src.filt)
            src = src.base
        if isinstance(src, dict):
            src = list(src.keys())
        if type(src).__name__ == 'PyClass' and isinstance(getattr(src, 'cls', None), type):
            import enum as _enum
            if issubclass(src.cls, _enum.Enum):
                src = list(src.cls)         # iterating an Enum class yields its members in definition order
        if isinstance(src, (set, frozenset)):
            src = sorted(src, key=repr)
        if isinstance(src, range):
            src = list(src)
        if isinstance(src, (list, tuple)):
            # literal collections are unrolled exactly
            for x in src:
                if filt is not None:
                    t = self.truth(self.apply_lam(filt, [x], line=line), line)
                    if not self.decide(t, line):
                        continue
                if fmap is not None:
                    x = self.apply_lam(fmap, [x], line=line)
                self.assign(s.target, x, line)
                try:
                    self.exec_block(s.body)
                except _Break:
                    break
                except _Continue:
                    continue
            return
        coll = self.world.iter_source(self, src, line)      # -> C with SetOf / SeqOf
        if coll is None:
            raise Unsupported('iteration over %r' % (src,))
        if (filt is not None or fmap is not None) and isinstance(coll, C) and isinstance(coll.loc, (FieldLoc, GlobLoc)):
            self._live_iter = coll.loc       # a lazy filter/generator walks the live list (list.__iter__ does not snapshot)
        self.loop_cut(s, coll, filt, fmap)

    def register_synth_loop(self, loop):
        if id(loop) in self.loops:
            return
        self._synth = getattr(self, '_synth', [])
        self._synth.append(loop)        # keep alive: ids must stay unique
        self.loops[id(loop)] = 1000 + loop.lineno
        head = _loop_head(loop)
        for key in (getattr(self.k, 'loops', {}) or {}):
            if isinstance(key, str) and head.startswith(key):
                self.loop_keys[id(loop)] = key

    def loop_spec(self, s):
        idx = self.loops[id(s)]
        declared = getattr(self.k, 'loops', {}) or {}
        key = self.loop_keys.get(id(s))
        spec = declared.get(key) if key is not None else declared.get(idx)
        self._cur_loop_key = key if key is not None else idx
        return idx, spec or Loop()

    def _assigned_names(self, s):
        names = set()
        for n in ast.walk(s):
            if isinstance(n, ast.Name) and isinstance(n.ctx, ast.Store):
                names.add(n.id)
        return names

    def _havoc(self, s, spec, entry_view):
        st = self.st
        for f in spec.modifies:
            if f in st.heap:
                st.heap[f] = z3.Const(self.path.fresh_name('hv_' + f), st.heap[f].sort())
            elif f in st.glob:
                st.glob[f] = z3.Const(self.path.fresh_name('hv_' + f), st.glob[f].sort())
            elif f in st.ghost:
                pass
            else:
                raise SpecError('loop modifies unknown location %s' % f)
        mutated = self._mutated_boxes(s)
        for bid in mutated:
            st.box[bid] = z3.Const(self.path.fresh_name('hv_' + str(bid)), st.box[bid].sort())
        self._last_havoced = set(mutated)
        for nm in self._assigned_names(s):
            if nm in st.env:
                v = st.env[nm]
                if v is UNBOUND:
                    continue
                if isinstance(v, V):
                    st.env[nm] = V(z3.Const(self.path.fresh_name('hv_' + nm), v.t.sort()), v.ty)
                elif isinstance(v, C):
                    # the NAME is re-bound inside the loop (x = <other container>): after an arbitrary number of iterations it
                    # may denote any container of its type, not the one it denoted on entry
                    if self._rebound_in(s, nm):
                        ty = self.world.local_type(self, nm, v) or v.ty
                        st.env[nm] = self.newbox(z3.Const(self.path.fresh_name('hv_' + nm), ty.sort()), ty)
                        self._last_havoced.add(st.env[nm].loc.bid)
                elif v is None or isinstance(v, (int, str, bool, bytes, float)) or self.world.enum_of(v) is not None:
                    ty = self.world.local_type(self, nm, v)
                    if ty is None:
                        raise Unsupported('local %s is reassigned in a loop; declare its type in the contract (locals=)' % nm)
                    st.env[nm] = V(z3.Const(self.path.fresh_name('hv_' + nm), ty.sort()), ty)
                else:
                    raise Unsupported('local %s (%r) reassigned in loop' % (nm, v))
            else:
                ty = self.world.local_type(self, nm, None)
                if ty is not None and nm not in self._target_names(s):
                    st.env[nm] = UNBOUND if getattr(ty, 'maybe_unbound', False) else st.env.get(nm, UNBOUND)

    MUTATORS = {'add', 'append', 'remove', 'discard', 'clear', 'update', 'extend', 'pop', 'sort', 'insert', 'difference_update',
                'intersection_update', 'setdefault', 'popitem', 'reverse', '__setitem__', '__delitem__'}

    ARGS_ONLY_READ = {'update', 'extend', 'add', 'discard', 'remove', 'difference_update', 'intersection_update', 'get', 'count', 'index',
                      'startswith', 'endswith', 'join', 'split', 'format', 'issubset', 'issuperset', 'union', 'intersection', 'difference'}

    NON_MUTATING_BUILTINS = {'filter', 'map', 'len', 'sorted', 'list', 'set', 'tuple', 'dict', 'any', 'all', 'sum', 'min', 'max', 'isinstance',
                             'str', 'int', 'bool', 'enumerate', 'zip', 'range', 'print', 'repr', 'abs', 'round', 'getattr', 'hasattr'}

    def _mutated_boxes(self, s):
        """ids of the local containers the loop body may mutate: receivers of mutating method calls, bases of
        subscript stores, augmented-assignment targets and anything passed to a call, closed under name-to-name
        assignment inside the body; resolved through the environment at loop entry"""
        names = set()
        alias = []
        for n in ast.walk(s):
            if isinstance(n, ast.Call):
                if isinstance(n.func, ast.Attribute) and isinstance(n.func.value, ast.Name) and n.func.attr in self.MUTATORS:
                    names.add(n.func.value.id)
                if isinstance(n.func, ast.Name) and n.func.id in self.NON_MUTATING_BUILTINS:
                    continue
                if isinstance(n.func, ast.Attribute) and n.func.attr in self.ARGS_ONLY_READ:
                    continue        # s.update(t), s.add(x), l.extend(t) ...: the receiver changes, the argument is only read
                for a in list(n.args) + [k.value for k in n.keywords]:
                    if isinstance(a, ast.Starred):
                        a = a.value
                    if isinstance(a, ast.Name):
                        names.add(a.id)
                    elif isinstance(a, (ast.Tuple, ast.List)):
                        names.update(m.id for m in a.elts if isinstance(m, ast.Name))
            elif isinstance(n, (ast.Subscript,)) and isinstance(n.ctx, (ast.Store, ast.Del)) and isinstance(n.value, ast.Name):
                names.add(n.value.id)
            elif isinstance(n, ast.AugAssign) and isinstance(n.target, ast.Name):
                names.add(n.target.id)
            elif isinstance(n, ast.Assign) and isinstance(n.value, ast.Name):
                for t in n.targets:
                    if isinstance(t, ast.Name):
                        alias.append((t.id, n.value.id))
        changed = True
        while changed:
            changed = False
            for a, b in alias:
                if (a in names) != (b in names):
                    names.update((a, b))
                    changed = True
        out = []
        for nm in names:
            v = self.st.env.get(nm)
            if isinstance(v, C) and isinstance(v.loc, BoxLoc) and v.loc.bid in self.st.box:
                out.append(v.loc.bid)
        return out

    def _rebound_in(self, s, nm):
        """is the local name the target of an assignment somewhere in the loop body (not just mutated through methods)?"""
        for n in ast.walk(s):
            if n is s:
                continue
            tgts = []
            if isinstance(n, ast.Assign):
                tgts = n.targets
            elif isinstance(n, (ast.AugAssign, ast.AnnAssign)):
                tgts = [n.target]
            elif isinstance(n, (ast.For,)):
                tgts = [n.target]
            elif isinstance(n, ast.With):
                tgts = [i.optional_vars for i in n.items if i.optional_vars is not None]
            for t in tgts:
                for m in ast.walk(t):
                    if isinstance(m, ast.Name) and m.id == nm and isinstance(m.ctx, ast.Store):
                        return True
        return False

    def _target_names(self, s):
        if isinstance(s, ast.For):
            return {n.id for n in ast.walk(s.target) if isinstance(n, ast.Name)}
        return set()

    def loop_cut(self, s, coll, filt, fmap):
        """for x in <symbolic collection>: init / step / use"""
        idx, spec = self.loop_spec(s)
        live = getattr(self, '_live_iter', None)
        self._live_iter = None
        line = s.lineno
        cty = coll.ty
        it_term = self.read(coll)            # snapshot of the iterated collection (what the real iterator walks)
        entry = self.st.snap()
        is_seq = isinstance(cty, (SeqOf, ListOf))
        is_lst = isinstance(cty, ListOf)
        it_len = (cty.len(it_term) if is_lst else (z3.Length(it_term) if is_seq else None))
        elem_ty = cty.elem
        done0 = z3.IntVal(0) if is_seq else SetOf(elem_ty).empty()

        def inv_at(view, done, mode, x=None):
            c = SpecCtx(self, self.args, self.old, view, mode=mode, entry=entry, done=done, it=it_term, x=x)
            if mode == 'prove':
                c.sks = self.prove_ctx.sks
                return self._clauses(spec.inv, c)
            for f in self._clauses(spec.inv, c).values():
                self._assume_clause(f, c, 'inv%d' % idx)
            return {}
        # init
        for nm, f in inv_at(self.st.snap(), done0, 'prove').items():
            self.vc('inv.%d.init.%s' % (idx, nm), f, line)
        branch = self.choose(2)
        frames = getattr(self, 'loop_frames', [])
        pre_boxes = set(self.st.box)
        if branch == 0:
            # an arbitrary iteration
            self._havoc(s, spec, entry)
            done = self.fresh('done', INT if is_seq else SetOf(elem_ty))
            if is_seq:
                self.assume(z3.And(done >= 0, done < it_len))
                x_t = cty.arr(it_term)[done] if is_lst else it_term[done]
                done_next = done + 1
            else:
                x_t = self.fresh('x', elem_ty)
                self.assume(it_term[x_t])
                self.assume(z3.Not(done[x_t]))
                qd = z3.Const(self.path.fresh_name('qd'), elem_ty.sort())
                self.st.qh.append(QHyp([qd], z3.Implies(done[qd], it_term[qd]), 'done-subset-of-iterated'))
                done_next = z3.Store(done, x_t, True)
            for f in inv_at(self.st.snap(), done, 'assume', x_t).values():
                self.assume(f)
            x = self.wrap(x_t, elem_ty)
            self.loop_frames = frames + [LoopFrame(spec.modifies, pre_boxes, self._last_havoced)]
            self.loop_frames[-1].live = repr(live) if live is not None else None
            self.loop_done[idx] = done
            self.loop_done[self.loop_keys.get(id(s), idx)] = done
            try:
                skip = False
                if filt is not None:
                    t = self.truth(self.apply_lam(filt, [x], line=line), line)
                    if not self.decide(t, line):
                        skip = True
                if not skip:
                    if fmap is not None:
                        x = self.apply_lam(fmap, [x], line=line)
                    self.assign(s.target, x, line)
                    try:
                        self.exec_block(s.body)
                    except _Continue:
                        pass
                    except _Break:
                        self.loop_frames = frames
                        return      # leaves the loop with the state reached: code after the loop runs from here
            finally:
                self.loop_frames = frames
            for nm, f in inv_at(self.st.snap(), done_next, 'prove', x_t).items():
                self.vc('inv.%d.step.%s' % (idx, nm), f, line)
            self.vc('canary.loop%d' % idx, z3.BoolVal(False), line, expect='sat')
            raise _PathEnd()
        # after the loop: everything iterated
        self._havoc(s, spec, entry)
        done_all = it_len if is_seq else it_term
        for f in inv_at(self.st.snap(), done_all, 'assume').values():
            self.assume(f)
        for nm in self._target_names(s):
            # the loop variable is bound iff the collection was not empty; keep it abstract
            pass

    def st_While(self, s):
        if s.orelse:
            raise Unsupported('while/else')
        idx, spec = self.loop_spec(s)
        line = s.lineno
        entry = self.st.snap()

        def inv_at(view, mode):
            c = SpecCtx(self, self.args, self.old, view, mode=mode, entry=entry)
            if mode == 'prove':
                c.sks = self.prove_ctx.sks
                return self._clauses(spec.inv, c)
            for f in self._clauses(spec.inv, c).values():
                self._assume_clause(f, c, 'inv%d' % idx)
            return {}
        for nm, f in inv_at(self.st.snap(), 'prove').items():
            self.vc('inv.%d.init.%s' % (idx, nm), f, line)
        branch = self.choose(2)
        frames = getattr(self, 'loop_frames', [])
        pre_boxes = set(self.st.box)
        self._havoc(s, spec, entry)
        for f in inv_at(self.st.snap(), 'assume').values():
            self.assume(f)
        pre_iter = self.st.snap()
        guard = self.truth(self.eval(s.test), line)
        if branch == 0:
            if isinstance(guard, bool):
                if not guard:
                    raise _PathEnd()
            else:
                self.assume(guard)
                if not self._feasible():
                    raise _PathEnd()
            self.loop_frames = frames + [LoopFrame(spec.modifies, pre_boxes, self._last_havoced)]
            try:
                try:
                    self.exec_block(s.body)
                except _Continue:
                    pass
                except _Break:
                    self.loop_frames = frames
                    return
            finally:
                self.loop_frames = frames
            for nm, f in inv_at(self.st.snap(), 'prove').items():
                self.vc('inv.%d.step.%s' % (idx, nm), f, line)
            if spec.variant is not None:
                c0 = SpecCtx(self, self.args, self.old, pre_iter, entry=entry)
                c1 = SpecCtx(self, self.args, self.old, self.st.snap(), entry=entry)
                v0, v1 = spec.variant(c0), spec.variant(c1)
                self.vc('variant.%d' % idx, z3.And(v0 >= 0, v1 < v0), line)
            self.vc('canary.loop%d' % idx, z3.BoolVal(False), line, expect='sat')
            raise _PathEnd()
        if isinstance(guard, bool):
            if guard:
                raise _PathEnd()
        else:
            self.assume(z3.Not(guard))
            if not self._feasible():
                raise _PathEnd()

    # ---- calls
    def ev_Call(self, e):
        if self._is_logging(e):
            self.dropped += 1
            return None
        f = self.eval(e.func)
        args = []
        for a in e.args:
            if isinstance(a, ast.Starred):
                v = self.eval(a.value)
                if isinstance(v, (tuple, list)):
                    args.extend(v)
                elif isinstance(v, V) and isinstance(v.ty, Rec):
                    args.extend(self.unpack(v, len(v.ty.fields), e.lineno))
                else:
                    raise Unsupported('starred argument of unknown length')
            else:
                args.append(self.eval(a))
        kwargs = {}
        for kw in e.keywords:
            if kw.arg is None:
                raise Unsupported('**kwargs call')
            kwargs[kw.arg] = self.eval(kw.value)
        return self.call(f, args, kwargs, e)

    def call(self, f, args, kwargs, e):
        line = e.lineno
        if isinstance(f, Lam):
            return self.apply_lam(f, args, kwargs, line)
        if isinstance(f, Bound):
            return self.call_method(f.recv, f.name, args, kwargs, line)
        if isinstance(f, Dotted):
            return self.world.call_function(self, f.path, args, kwargs, e)
        if callable(f) and getattr(f, '_pyvc_builtin', False):
            return f(self, args, kwargs, e)
        r = self.world.call_value(self, f, args, kwargs, e)
        if r is not NotImplemented:
            return r
        raise Unsupported('call of %r' % (f,))

    def call_method(self, recv, name, args, kwargs, line):
        return self.world.call_method(self, recv, name, args, kwargs, line)

    def new_empty_set(self, e):
        return set()

    def mangle_for(self, cls, attr):
        if attr.startswith('__') and not attr.endswith('__'):
            return '_%s%s' % (cls.lstrip('_'), attr)
        return attr

    def inline(self, kc, path, argvals, line):
        """interpret the real body of a leaf helper at its call site"""
        if self.depth > 6:
            raise Unsupported('inline depth')
        fn = kc.load_ast()
        saved = (self.fn, self.k, self.cls, self.loops, self.st.env, self.try_stack, getattr(self, '_locals', None),
                 self.module_ast, getattr(self, 'loop_frames', []), self.loop_keys)
        names = [a.arg for a in fn.args.posonlyargs + fn.args.args + fn.args.kwonlyargs]
        env = {}
        for nm, v in zip(names, argvals):
            env[nm] = v
        self.fn, self.k, self.cls = fn, kc, (kc.qual.split('.')[0] if '.' in kc.qual else None)
        self.module_ast = kc.module_ast
        self._number_loops(fn)
        self.st.env = env
        if hasattr(self, '_locals'):
            del self._locals
        self.depth += 1
        try:
            try:
                self.exec_block(fn.body)
                return None
            except _Return as r:
                return r.v
        finally:
            self.depth -= 1
            (self.fn, self.k, self.cls, self.loops, self.st.env, self.try_stack, loc, self.module_ast, self.loop_frames, self.loop_keys) = saved
            if loc is None:
                if hasattr(self, '_locals'):
                    del self._locals
            else:
                self._locals = loc

    # ---- applying a callee's contract
    def apply_contract(self, kc, qual, argvals, line):
        """modular call: assert requires, havoc modifies, assume ensures"""
        params = list(kc.param_names)
        ptypes = dict(kc.params)
        va = getattr(kc, 'vararg', None)
        if va is not None:
            vname = kc.load_ast().args.vararg.arg
            if len(argvals) != len(params) + len(va):
                raise Unsupported('%s is specified for %d variadic arguments, called with %d' % (qual, len(va), len(argvals) - len(params)))
            for i, ty in enumerate(va):
                params.append('%s_%d' % (vname, i))
                ptypes[params[-1]] = ty
        args = {}
        for nm, v in zip(params, argvals):
            ty = ptypes[nm]
            if v is None and isinstance(ty, SetOf) and nm in (getattr(kc, 'none_as_empty', None) or ()):
                v = set()       # the callee's contract declares that it treats None like an empty collection for this parameter
            if isinstance(ty, Ty):
                args[nm] = self.to_z3(v, ty)
            else:
                args[nm] = v
        if getattr(kc, 'on_call', None) is not None:
            kc.on_call(self, args, line)       # ghost update at the call point (DESIGN §2.2 "Ghost state")
        old = self.st.snap()
        c0 = SpecCtx(self, args, old, old)
        c0.sks = self.prove_ctx.sks
        for nm, f in self._clauses(getattr(kc, 'requires', None), c0).items():
            self.vc('pre.%s.%s@%d' % (qual, nm, line), f, line)
            self.assume(f)
        # exceptional outcomes
        for exc, condf in (getattr(kc, 'raises', {}) or {}).items():
            if condf == 'maybe':
                cond = self.fresh('raises_' + exc, BOOL)      # may or may not raise: both outcomes are explored
            else:
                cond = condf(c0) if callable(condf) else None
            if cond is None:
                continue
            self.maybe_raise(exc, cond, line)
        for f in getattr(kc, 'modifies', ()) or ():
            self._note_write(f, line)
            if f in self.st.heap:
                self.st.heap[f] = z3.Const(self.path.fresh_name('call_' + f), self.st.heap[f].sort())
            elif f in self.st.glob:
                self.st.glob[f] = z3.Const(self.path.fresh_name('call_' + f), self.st.glob[f].sort())
            else:
                raise SpecError('%s modifies unknown %s' % (qual, f))
        res = None
        rty = getattr(kc, 'returns', None)
        if isinstance(rty, Ty):
            res = z3.Const(self.path.fresh_name('ret_' + qual), rty.sort())
        c1 = SpecCtx(self, args, old, self.st.snap(), result=res, mode='assume')
        c1.raised = None
        cl = self._clauses(getattr(kc, 'ensures', None), c1)
        for f in cl.values():
            self._assume_clause(f, c1, qual)
        if res is None:
            return None
        return self.wrap(res, rty)

    def _assume_clause(self, f, c, label=''):
        if c.sks:
            used = [v for v in c.sks.values() if _occurs(f, v)]
            if used:
                self.st.qh.append(QHyp(used, f, label))
                # the instance at the proof's own skolem constants of the same names is what the next obligation
                # almost always needs; stating it outright saves an instantiation round
                sub = [(v, z3.Const('sk_' + nm, v.sort())) for nm, v in c.sks.items() if _occurs(f, v)]
                if getattr(self.k, 'same_skolem', False):      # opt-in: it enlarges every later query of the function
                    self.assume(z3.substitute(f, *sub))
                return
        self.assume(f)


class _Line:
    def __init__(self, line):
        self.lineno = line


def _loop_head(n):
    if isinstance(n, ast.For):
        return 'for %s in %s' % (ast.unparse(n.target), ast.unparse(n.iter))
    return 'while %s' % ast.unparse(n.test)


def _has_jump(s):
    for blk in (s.body, s.orelse):
        stack = list(blk)
        while stack:
            n = stack.pop()
            if isinstance(n, (ast.Return, ast.Raise, ast.Break, ast.Continue, ast.For, ast.While)):
                return True
            if isinstance(n, (ast.FunctionDef, ast.Lambda)):
                continue
            stack.extend(ast.iter_child_nodes(n))
    return False


def _merge_states(ex, base, a, b, c):
    m = State()
    if set(a.env) != set(b.env):
        return None
    for k in a.env:
        va, vb = a.env[k], b.env[k]
        if va is vb:
            m.env[k] = va
        elif isinstance(va, V) and isinstance(vb, V) and va.ty == vb.ty:
            m.env[k] = va if va.t.get_id() == vb.t.get_id() else V(z3.If(c, va.t, vb.t), va.ty)
        elif isinstance(va, C) and isinstance(vb, C) and repr(va.loc) == repr(vb.loc):
            m.env[k] = va
        elif not ex.is_sym(va) and not ex.is_sym(vb) and not isinstance(va, (Lam, list, dict, set)) and type(va) is type(vb) and va == vb:
            m.env[k] = va
        else:
            try:
                ty = ex.ty_of(va) if ex.is_sym(va) else ex.ty_of(vb)
                if isinstance(ty, (SetOf, SeqOf, MapOf, ListOf)):
                    return None
                m.env[k] = V(z3.If(c, ex.to_z3(va, ty), ex.to_z3(vb, ty)), ty)
            except Exception:
                return None

    def mg(da, db):
        out = {}
        for k in set(da) | set(db):
            if k in da and k in db:
                out[k] = da[k] if da[k].get_id() == db[k].get_id() else z3.If(c, da[k], db[k])
            else:
                out[k] = da.get(k, db.get(k))
        return out
    m.heap, m.glob, m.box = mg(a.heap, b.heap), mg(a.glob, b.glob), mg(a.box, b.box)
    n = len(base.pc)
    m.pc = list(base.pc)
    for x in a.pc[n + 1:]:
        m.pc.append(z3.Implies(c, x))
    for x in b.pc[n + 1:]:
        m.pc.append(z3.Implies(z3.Not(c), x))
    nq = len(base.qh)
    m.qh = list(base.qh)
    for q in a.qh[nq:]:
        m.qh.append(QHyp(q.vars, z3.Implies(c, q.body), q.label))
    for q in b.qh[nq:]:
        m.qh.append(QHyp(q.vars, z3.Implies(z3.Not(c), q.body), q.label))
    m.ghost = dict(a.ghost)
    return m


_fstr = {}


def fstring_fn(tpl, tys):
    key = (tpl, tuple(t.name for t in tys))
    if key not in _fstr:
        _fstr[key] = z3.Function('fstr!%d!%s' % (len(_fstr), tpl[:20]), *([t.sort() for t in tys] + [STR.sort()]))
    return _fstr[key]


def _occurs(f, v):
    seen = set()
    stack = [f]
    vid = v.get_id()
    while stack:
        t = stack.pop()
        i = t.get_id()
        if i == vid:
            return True
        if i in seen:
            continue
        seen.add(i)
        stack.extend(t.children())
    return False


def _load(t):
    import copy
    t2 = copy.deepcopy(t)
    for n in ast.walk(t2):
        if hasattr(n, 'ctx'):
            n.ctx = ast.Load()
    return t2


def _compat(a, b):
    return a == b or a.sort() == b.sort()


_decls = {}


def _and_decl():
    if 'and' not in _decls:
        _decls['and'] = z3.And(z3.Bool('a'), z3.Bool('b')).decl()
    return _decls['and']


def _or_decl():
    if 'or' not in _decls:
        _decls['or'] = z3.Or(z3.Bool('a'), z3.Bool('b')).decl()
    return _decls['or']


def _not_decl():
    if 'not' not in _decls:
        _decls['not'] = z3.Not(z3.Bool('a')).decl()
    return _decls['not']


def _subset(a, b, elem_ty, ex):
    # a ⊆ b  as array identity  a ∧ b = a
    return z3.Map(_and_decl(), a, b) == a


def _floordiv(a, b):
    return _fd(a, b)


def _fd(a, b):
    q = a / b           # z3: a = b*q + r, 0 <= r < |b|
    r = a % b
    # python: floor(a/b); for b>0 z3's q is floor. for b<0: python q' = q if r==0 else q-1 ... derive:
    return z3.If(b > 0, q, z3.If(r == 0, q, q - 1))


def _pymod(a, b):
    r = a % b           # z3: 0 <= r < |b|
    return z3.If(b > 0, r, z3.If(r == 0, r, r + b))


def _both(f1, f2):
    raise Unsupported('two stacked filters')


EXC_PARENTS = {'KeyError': ['LookupError'], 'IndexError': ['LookupError'], 'UnboundLocalError': ['NameError'],
               '_DelayNotKnowableError': ['ArithmeticError'], 'ZeroDivisionError': ['ArithmeticError'],
               'FileNotFoundError': ['OSError'], 'MachineError': []}


def _is_sub(exc, names):
    return any(p in names for p in EXC_PARENTS.get(exc, []))


def source_hash(src):
    return hashlib.sha256(src.encode()).hexdigest()
