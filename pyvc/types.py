"""Sorts of the abstract Python values pyvc reasons about (DESIGN §2.2)."""
import z3

_cache = {}


class Ty:
    name = '?'

    def sort(self):
        raise NotImplementedError

    def __repr__(self):
        return self.name

    def __eq__(self, o):
        return isinstance(o, Ty) and self.name == o.name

    def __hash__(self):
        return hash(self.name)

    def fresh(self, nm):
        return z3.Const(nm, self.sort())


class _Prim(Ty):
    def __init__(self, name, mk):
        self.name, self._mk = name, mk

    def sort(self):
        if self.name not in _cache:
            _cache[self.name] = self._mk()
        return _cache[self.name]


INT = _Prim('Int', z3.IntSort)
BOOL = _Prim('Bool', z3.BoolSort)
OPAQUE = [False]      # while set, Str is an uninterpreted sort: string operations are uninterpreted functions and the
                      # solvers' string theory is not involved at all (used when only equality of strings matters)


class _StrPrim(_Prim):
    def sort(self):
        if OPAQUE[0]:
            if 'OStr' not in _cache:
                _cache['OStr'] = z3.DeclareSort('OStr')
            return _cache['OStr']
        return _Prim.sort(self)


STR = _StrPrim('Str', z3.StringSort)                    # code-point strings (z3/cvc5 string theory)
_strlits = {}


def strlit(s):
    """a string literal of sort Str (theory value, or a distinct constant when Str is opaque)"""
    if not OPAQUE[0]:
        return z3.StringVal(s)
    if s not in _strlits:
        _strlits[s] = z3.Const('ostr!' + s, STR.sort())
    return _strlits[s]


def strlit_facts():
    return [z3.Distinct(*_strlits.values())] if len(_strlits) > 1 else []
ATOM = _Prim('Atom', lambda: z3.DeclareSort('Atom'))     # strings used only as opaque names
BYTES = _Prim('Bytes', lambda: z3.SeqSort(z3.BitVecSort(8)))
REAL = _Prim('Real', z3.RealSort)


def has_str(ty):
    """does the type mention Str (whose sort depends on the opaque-strings mode)?"""
    if ty is STR:
        return True
    for a in ('elem', 'inner', 'k', 'v'):
        sub = getattr(ty, a, None)
        if isinstance(sub, Ty) and has_str(sub):
            return True
    return any(has_str(t) for t in getattr(ty, 'fields', {}).values())


def _key(ty):
    return ty.name + ('__o' if (OPAQUE[0] and has_str(ty)) else '')


class Ref(Ty):
    """reference to a mutable object; its attributes live in heap fields"""

    def __init__(self, cls):
        self.cls, self.name = cls, 'Ref_' + cls

    def sort(self):
        if self.name not in _cache:
            _cache[self.name] = z3.DeclareSort(self.cls)
        return _cache[self.name]


class Enum(Ty):
    def __init__(self, name, members):
        self.name, self.members = 'Enum_' + name, list(members)

    def sort(self):
        if self.name not in _cache:
            _cache[self.name] = z3.EnumSort(self.name, [str(m) for m in self.members])
        return _cache[self.name][0]

    def const(self, member):
        self.sort()
        return _cache[self.name][1][self.members.index(member)]


class SetOf(Ty):
    def __init__(self, elem, listlike=False):
        self.elem, self.listlike = elem, listlike
        self.name = ('List' if listlike else 'Set') + '<' + elem.name + '>'

    def __eq__(self, o):
        return isinstance(o, SetOf) and self.elem == o.elem

    __hash__ = Ty.__hash__

    def sort(self):
        return z3.ArraySort(self.elem.sort(), z3.BoolSort())

    def empty(self):
        return z3.K(self.elem.sort(), z3.BoolVal(False))


def Bag(elem):
    """a list of which only membership / 'some element' is used: duplicates are harmless, so no obligation"""
    t = SetOf(elem, listlike=True)
    t.dups_ok = True
    return t


def ListSet(elem):
    """a Python list modelled as the set of its members: order is abstracted (proofs hold for
    every order) and every append carries a no-duplicate obligation so the abstraction is exact"""
    return SetOf(elem, listlike=True)


class SeqOf(Ty):
    def __init__(self, elem):
        self.elem, self.name = elem, 'Seq<' + elem.name + '>'

    def sort(self):
        return z3.SeqSort(self.elem.sort())

    def empty(self):
        return z3.Empty(self.sort())


class ListOf(Ty):
    """an ordered Python list as (length, Array(Int, elem)); what lies beyond the length is irrelevant, so
    specifications speak pointwise about indices below the length, never about equality of two lists"""

    def __init__(self, elem):
        self.elem, self.name = elem, 'List[' + elem.name + ']'

    def sort(self):
        key = _key(self)
        if key not in _cache:
            d = z3.Datatype('Lst_' + key[5:].replace('<', '_').replace('>', '_').replace('[', '_').replace(']', '_').replace(',', '_'))
            d.declare('mk', ('len', z3.IntSort()), ('arr', z3.ArraySort(z3.IntSort(), self.elem.sort())))
            _cache[key] = d.create()
        return _cache[key]

    def mk(self, n, arr):
        return self.sort().mk(n, arr)

    def len(self, t):
        return self.sort().len(t)

    def arr(self, t):
        return self.sort().arr(t)

    def empty(self):
        return self.mk(z3.IntVal(0), z3.K(z3.IntSort(), self.elem.fresh('junk_' + self.elem.name.replace('<', '').replace('>', ''))))


class Opt(Ty):
    def __init__(self, inner):
        self.inner, self.name = inner, 'Opt<' + inner.name + '>'

    def sort(self):
        key = _key(self)
        if key not in _cache:
            d = z3.Datatype(key.replace('<', '_').replace('>', '_'))
            d.declare('none')
            d.declare('some', ('val', self.inner.sort()))
            _cache[key] = d.create()
        return _cache[key]

    def none(self):
        return self.sort().none

    def some(self, t):
        return self.sort().some(t)

    def is_none(self, t):
        return self.sort().is_none(t)

    def val(self, t):
        return self.sort().val(t)


class MapOf(Ty):
    """finite map as Array(K, Opt V)"""

    def __init__(self, k, v):
        self.k, self.v, self.name = k, v, 'Map<' + k.name + ',' + v.name + '>'
        self.opt = Opt(v)

    def sort(self):
        return z3.ArraySort(self.k.sort(), self.opt.sort())

    def empty(self):
        return z3.K(self.k.sort(), self.opt.none())


class Rec(Ty):
    """immutable record (namedtuple, frozen dataclass, datetime ...)"""

    def __init__(self, name, fields):
        self.name, self.fields = 'Rec_' + name, dict(fields)

    def sort(self):
        key = _key(self)
        if key not in _cache:
            d = z3.Datatype(key)
            d.declare('mk', *[(self.name + '_' + f, t.sort()) for f, t in self.fields.items()])
            _cache[key] = d.create()
        return _cache[key]

    def mk(self, *a):
        return self.sort().mk(*a)

    def get(self, t, f):
        return getattr(self.sort(), self.name + '_' + f)(t)


def Tup(*elems):
    return Rec('Tup_' + '_'.join(e.name.replace('<', '').replace('>', '').replace(',', '') for e in elems),
               {'_%d' % i: e for i, e in enumerate(elems)})


_atoms = {}


def atom(s):
    """the Atom constant of a string literal; all literals are pairwise distinct (see atom_facts)"""
    if s not in _atoms:
        _atoms[s] = z3.Const('atom!' + s, ATOM.sort())
    return _atoms[s]


def atom_facts():
    return ([z3.Distinct(*_atoms.values())] if len(_atoms) > 1 else []) + strlit_facts()
