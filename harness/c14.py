'''C14 - message streams are fragmentation-proof and gated by the handshake.

Bounded run-time harness on the real ``farm.Hand.dataReceived``,
``shelve.comms.Worker.dataReceived``, ``logger.LogSink.dataReceived`` and
``security.TwistedWrapper`` (fake transport, fake PGP), and on the blocking
socket-side reader ``dawgie.pl.message.receive`` (the reader of the workers'
wait/task loop, of ``Context.abort`` and of the shelve lock clients
``comms.acquire`` / ``comms.release``): streams of 2-4 messages framed by the
real senders (``message.send``, ``comms.Worker._send``) are read through a fake
socket whose ``recv(n)`` returns at most n bytes and never more than up to the
next cut (fragmentation, coalescing, and both at once).
'''

import datetime as _datetime
import itertools
import logging
import logging.handlers
import os
import pickle
import pickletools
import random
import struct
import sys
import time
import types

try:
    from . import _proto_common as pc
except ImportError:  # run as a plain script
    import _proto_common as pc  # type: ignore

import dawgie.context
import dawgie.db.shelve.comms as comms
import dawgie.pl.farm as farm
import dawgie.pl.logger as dlogger
import dawgie.pl.message as message
import dawgie.security

from dawgie.db.shelve.enums import Func, Table

PROPERTY = 'C14'
BOUND = (
    'reassembly: on each of farm.Hand, shelve.comms.Worker, logger.LogSink '
    'every stream of 1..3 frames over a short and a long tiny payload '
    '(streams <= 48 bytes): whole frames, 1-byte chunks, every 2-chunk and '
    '3-chunk split, every 4-chunk split of one mixed stream (quick) / of '
    'all (thorough), every composition of streams <= 14 (quick) / 19 '
    '(thorough) bytes; streams of real MSG / COMMAND / LogRecord frames '
    '(100-900 bytes): every 2-chunk split, 3-chunk splits exhaustively '
    '(thorough) or seed-sampled (quick), seed-sampled k-chunk splits. '
    'handshake: TwistedWrapper with a fake PGP on the three protocols, 35 '
    'fault variants (all 32 combinations of wrong first prefix, forged '
    'identification, wrong second prefix, forged reply, wrong echo; plus '
    'short/long length fields) x 4 kinds of trailing application bytes, '
    'every 2-chunk split; every 3-chunk split for the fault-free and '
    'single-fault variants (farm; quick: subset), seed-sampled k-chunk '
    'splits. '
    'receive: message.receive on a fake socket (recv(n) = min(n, bytes up to '
    'the next cut)) over 5 streams of 2-4 real frames (lock status replies '
    '2x57 and 3x57 bytes; farm wait/task/abort messages, 207-361 bytes): no '
    'cut, whole frames, 1-byte segments, every single cut; every pair of cuts '
    'for the streams <= 300 bytes (quick) / all (thorough), every pair on a '
    'grid of stride 4 (all offsets) for the longest (quick), seed-sampled '
    'sets of 2-7 cuts, every triple of cuts for the shortest (thorough)'
)
CLAUSES = [
    'C14.reassembly.farm',
    'C14.reassembly.db',
    'C14.reassembly.log',
    'C14.handshake.gate',
    'C14.handshake.tail',
    'C14.handshake.fail',
    'C14.receive',
]

pc.quiet()

# ------------------------------------------------------------ recording taps
#
# class-level taps installed once: they record what reaches the application
# layer (Hand._process / Worker.do / the log handler) and the raw bytes given
# to the *original* dataReceived (the function TwistedWrapper captures).


def _tap_data_received(cls):
    orig = cls.dataReceived

    def data_received(self, data):
        self.__dict__.setdefault('c14_raw', []).append(bytes(data))
        return orig(self, data)

    data_received.c14_orig = orig
    cls.dataReceived = data_received


def _record_process(self, msg):
    self.__dict__.setdefault('c14_msgs', []).append(msg)


def _record_do(self, request):
    self.__dict__.setdefault('c14_msgs', []).append(request)


if not hasattr(farm.Hand.dataReceived, 'c14_orig'):
    _tap_data_received(farm.Hand)
    _tap_data_received(comms.Worker)
    _tap_data_received(dlogger.LogSink)
    farm.Hand._process = _record_process  # pylint: disable=protected-access
    comms.Worker.do = _record_do


class _Handler:
    '''the "actual" log handler a LogSink forwards to'''

    def __init__(self):
        self.records = []
        self.flushed = 0

    def handle(self, record):
        self.records.append(record)

    def flush(self):
        self.flushed += 1


# tiny picklable request types for the db channel (Worker.dataReceived reads
# request.func before handing the request to do())
_q = types.ModuleType('q')


class A:  # pylint: disable=too-few-public-methods
    func = Func.acquire

    def __repr__(self):
        return 'q.A' + repr(sorted(vars(self).items()))


class Bcd:  # pylint: disable=too-few-public-methods
    func = Func.get

    def __repr__(self):
        return 'q.Bcd' + repr(sorted(vars(self).items()))


for _c in (A, Bcd):
    _c.__module__ = 'q'
    _c.__qualname__ = _c.__name__
    setattr(_q, _c.__name__, _c)
sys.modules['q'] = _q


class Channel:
    '''one connection of one of the three protocols'''

    def __init__(self, name, tls=True):
        self.name = name
        pc.set_tls(tls)
        self.transport = pc.FakeTransport('peer', 4242)
        address = pc.IPV4('peer', 4242)
        self.handler = None
        if name == 'farm':
            self.proto = farm.Hand(address)
        elif name == 'db':
            self.proto = comms.Worker(address)
        elif name == 'log':
            self.handler = _Handler()
            self.proto = dlogger.LogSink(self.handler, address)
        else:
            raise ValueError(name)
        self.proto.transport = self.transport

    def feed(self, chunk):
        self.proto.dataReceived(chunk)

    def raw(self):
        return b''.join(self.proto.__dict__.get('c14_raw', []))

    def delivered(self):
        '''stable rendering of what reached the application layer'''
        if self.name == 'log':
            return [_render_record(r) for r in self.handler.records]
        return [repr(m) for m in self.proto.__dict__.get('c14_msgs', [])]


_RECORD_KEYS = (
    'name',
    'msg',
    'args',
    'levelno',
    'levelname',
    'pathname',
    'lineno',
    'exc_text',
)


def _render_record(record):
    # the fields a sender sets; creation time, process and thread ids are
    # filled in by logging.makeLogRecord when the sender left them out
    d = vars(record)
    return repr([(k, repr(d.get(k))) for k in _RECORD_KEYS])


def _expected_render(name, obj):
    if name == 'log':
        return _render_record(logging.makeLogRecord(obj))
    return repr(obj)


# ------------------------------------------------------------------ payloads


def _opt(b):
    return pickletools.optimize(b)


def tiny_payloads(name):
    '''(short, long) payload pairs: (object, pickled bytes)'''
    if name == 'farm':
        objs = [7, (1, 2)]
        return [(o, _opt(pickle.dumps(o, 2))) for o in objs]
    if name == 'db':
        a = A()
        b = Bcd()
        return [(a, _opt(pickle.dumps(a, 2))), (b, _opt(pickle.dumps(b, 2)))]
    # protocol-1 pickles written by hand (SHORT_BINSTRING keys)
    pay = [
        ({'msg': 1}, b'}U\x03msgK\x01s.'),
        ({'msg': 'xy'}, b'}U\x03msgU\x02xys.'),
    ]
    for obj, blob in pay:
        assert pickle.loads(blob) == obj
    return pay


def real_payloads(name):
    if name == 'farm':
        objs = [
            message.make(typ=message.Type.register, inc=3, rev='abc123'),
            message.make(typ=message.Type.status, rev='abc123'),
            message.make(
                typ=message.Type.response,
                inc='TGT',
                jid='tsk.alg',
                rid=17,
                suc=True,
                tim={'started': 1, 'scheduled': 0},
                val=['17.TGT.tsk.alg.sv.v'],
            ),
        ]
        return [(o, message.dumps(o)) for o in objs]
    if name == 'db':
        objs = [
            comms.COMMAND(Func.acquire, None, None, 'me'),
            comms.COMMAND(Func.get, (1, 2, 3, 4, 5, 6), Table.prime, None),
            comms.COMMAND(
                Func.upd, comms.KEYSET('n', 3, None), Table.target, None
            ),
        ]
        return [(o, pickle.dumps(o, pickle.HIGHEST_PROTOCOL)) for o in objs]
    out = []
    handler = logging.handlers.SocketHandler('localhost', 1)
    for i, text in enumerate(['first %s', 'second', 'third %d']):
        rec = logging.LogRecord(
            'dawgie.x', logging.INFO + i, '/p.py', 10 + i, text, None, None
        )
        rec.created = 1000.0 + i
        rec.msecs = 0.0
        rec.relativeCreated = 0.0
        rec.thread = 1
        rec.process = 1
        framed = handler.makePickle(rec)
        out.append((pickle.loads(framed[4:]), framed[4:]))
    handler.close()
    return out


def streams(name):
    '''[(label, [objects], bytes)] for the tiny payloads: all sequences of
    length 1..3 over {short, long}'''
    pay = tiny_payloads(name)
    out = []
    for n in (1, 2, 3):
        for idx in itertools.product(range(len(pay)), repeat=n):
            objs = [pay[i][0] for i in idx]
            data = b''.join(pc.frame(pay[i][1]) for i in idx)
            out.append((''.join('SL'[i] for i in idx), objs, data))
    return out


def real_streams(name):
    pay = real_payloads(name)
    out = []
    for idx in ((0,), (1, 0), (0, 1, 2), (2, 2, 1)):
        objs = [pay[i][0] for i in idx]
        data = b''.join(pc.frame(pay[i][1]) for i in idx)
        out.append(('R' + ''.join(str(i) for i in idx), objs, data))
    return out


# ----------------------------------------------------------------- chunkings


def cut(data, cuts):
    '''cuts: increasing positions strictly inside the stream'''
    out = []
    last = 0
    for c in cuts:
        out.append(data[last:c])
        last = c
    out.append(data[last:])
    return out


def k_splits(n, k):
    '''all ways to cut a stream of n bytes into k non-empty chunks'''
    return itertools.combinations(range(1, n), k - 1)


def run_reassembly(name, data, cuts):
    ch = Channel(name, tls=True)
    for chunk in cut(data, cuts):
        ch.feed(chunk)
    return ch.delivered()


class Tally:
    def __init__(self):
        self.cases = 0
        self.distinct = set()
        self.found = {}
        self.samples = []

    def violation(self, clause, signature, inp, observed, expected):
        key = (clause, signature)
        size = len(inp.get('cuts', ()))
        if key not in self.found or size < self.found[key][0]:
            self.found[key] = (
                size,
                {
                    'clause': clause,
                    'signature': signature,
                    'input': inp,
                    'observed': pc.jsonable(observed),
                    'expected': pc.jsonable(expected),
                },
            )


def _where(data, cuts):
    '''stable description of a cut relative to the frame structure'''
    bounds = []
    pos = 0
    while pos + 4 <= len(data):
        n = struct.unpack('>I', data[pos : pos + 4])[0]
        bounds.append((pos, pos + 4, pos + 4 + n))
        pos += 4 + n
    kinds = set()
    for c in cuts:
        for start, body, end in bounds:
            if start < c < body:
                kinds.add('inside-length-prefix')
            elif c == body:
                kinds.add('between-prefix-and-payload')
            elif body < c < end:
                kinds.add('inside-payload')
            elif c == end:
                kinds.add('at-frame-boundary')
    return '+'.join(sorted(kinds)) or 'whole'


_EXPECTED = {}


def check_reassembly(tally, name, label, objs, data, cuts, kind):
    key = (name, kind, label)
    if key not in _EXPECTED:
        _EXPECTED[key] = [_expected_render(name, o) for o in objs]
    expected = _EXPECTED[key]
    try:
        got = run_reassembly(name, data, cuts)
    except Exception as exc:  # pylint: disable=broad-except
        got = 'exception ' + type(exc).__name__ + ': ' + str(exc)
    tally.cases += 1
    tally.distinct.add((name, label, tuple(cuts)))
    if got != expected:
        tally.violation(
            'C14.reassembly.' + name,
            _where(data, cuts),
            {
                'kind': 'reassembly',
                'channel': name,
                'payload': kind,
                'stream': label,
                'cuts': list(cuts),
            },
            got,
            expected,
        )


def _lookup_stream(name, kind, label):
    for lab, objs, data in streams(name) if kind == 'tiny' else real_streams(
        name
    ):
        if lab == label:
            return objs, data
    raise KeyError(label)


# ------------------------------------------- the blocking reader (receive)
#
# message.receive(s) pulls from a socket: recv(n) gives it at most n bytes,
# and at most what the network has delivered so far.  The fake socket below
# holds the whole stream (everything "has arrived": maximal coalescing) but
# hands it out in segments that end at the cut positions (fragmentation).
# With no cut at all the reader alone decides how much it takes.


class EndOfStream(Exception):
    '''recv() after the last byte: a real socket would block for ever'''


class _Sink:  # pylint: disable=too-few-public-methods
    '''socket-like object the real senders write to'''

    def __init__(self):
        self.data = b''

    def sendall(self, b):
        self.data += bytes(b)


class SegmentSocket:
    '''recv(n) -> min(n, bytes up to the next cut) bytes of the stream'''

    def __init__(self, data, cuts):
        self.data = data
        self.pos = 0
        self.edges = sorted(set(cuts)) + [len(data)]
        self.calls = 0

    def recv(self, n, *_flags):
        self.calls += 1
        if self.calls > 4 * len(self.data) + 64:
            raise RuntimeError('the reader makes no progress (recv called %d times)' % self.calls)
        if n <= 0:
            return b''  # what a real socket answers
        if self.pos >= len(self.data):
            raise EndOfStream('recv(%d) past the end of the stream (a real socket would block)' % n)
        while self.edges[0] <= self.pos:
            self.edges.pop(0)
        end = min(self.pos + n, self.edges[0])
        out = self.data[self.pos : end]
        self.pos = end
        return out


_RECV_STREAMS = {}


def recv_streams():
    '''label -> (family, [objects], bytes): what the real senders put on the
    wire for 2-4 messages (built once per process)'''
    if _RECV_STREAMS:
        return _RECV_STREAMS
    from dawgie.db.shelve.enums import Mutex  # pylint: disable=import-outside-toplevel

    # the data base lock channel: comms.Worker answers locked, ..., yours
    for label in ('LU', 'LLU'):
        ch = Channel('db', tls=True)
        objs = [Mutex.lock if c == 'L' else Mutex.unlock for c in label]
        for o in objs:
            ch.proto._send(o)  # pylint: disable=protected-access
        _RECV_STREAMS[label] = ('lock', objs, ch.transport.data())
    # the farm channel seen from a worker: wait, ..., task (or an abort)
    kinds = {
        'W': message.make(),
        'A': message.make(typ=message.Type.response, suc=False),
        'T': message.make(
            ctxt=b'ctx',
            fac=('ae.tsk', 'task'),
            jid='tsk.alg',
            rid=7,
            target='TGT',
            tim={'scheduled': 0},
            typ=message.Type.task,
        ),
    }
    for label in ('WT', 'WWT', 'WAWT'):
        sink = _Sink()
        objs = [kinds[c] for c in label]
        for o in objs:
            message.send(o, sink)
        _RECV_STREAMS[label] = ('farm', objs, sink.data)
    for _fam, objs, data in _RECV_STREAMS.values():
        # the senders must have produced one frame per message
        assert [pickle.loads(b) for b in pc.decode_all(data)[0]] == objs
        assert pc.decode_all(data)[1] == b''
    return _RECV_STREAMS


def run_receive(data, cuts, count):
    '''-> what `count` calls of the real message.receive deliver'''
    sock = SegmentSocket(data, cuts)
    got = []
    try:
        for _ in range(count):
            got.append(repr(message.receive(sock)))
    except Exception as exc:  # pylint: disable=broad-except
        got.append('exception ' + type(exc).__name__ + ': ' + str(exc))
    if sock.pos != len(data):
        got.append('%d bytes of the stream not consumed' % (len(data) - sock.pos))
    return got


def check_receive(tally, label, cuts):
    _fam, objs, data = recv_streams()[label]
    key = ('recv', label)
    if key not in _EXPECTED:
        _EXPECTED[key] = [repr(o) for o in objs]
    expected = _EXPECTED[key]
    got = run_receive(data, cuts, len(objs))
    tally.cases += 1
    tally.distinct.add(('recv', label, tuple(cuts)))
    if got != expected:
        tally.violation(
            'C14.receive',
            _where(data, cuts),
            {'kind': 'receive', 'stream': label, 'cuts': list(cuts)},
            got,
            expected,
        )


# ----------------------------------------------------------------- handshake


class _FixedDatetime:  # pylint: disable=too-few-public-methods
    UTC = _datetime.UTC

    class datetime:  # pylint: disable=invalid-name,too-few-public-methods
        @staticmethod
        def now(tz=None):
            return _datetime.datetime(2026, 1, 2, 3, 4, 5, 678901, tzinfo=tz)


class _FixedRandom:  # pylint: disable=too-few-public-methods
    @staticmethod
    def random():
        return 0.8125


def _fix_challenge():
    '''make the server's challenge text the same in every run (so that the
    whole client byte stream, reply included, can be cut anywhere)'''
    dawgie.security.datetime = _FixedDatetime
    dawgie.security.random = _FixedRandom


FAULTS = ('p1', 's1', 'p4', 's2', 'echo')
LENGTH_FAULTS = ('l1short', 'l2short', 'l2long')
IDENT = b'id'
TAILS = ('none', 'one', 'two', 'partial')


def variants():
    out = []
    for n in range(len(FAULTS) + 1):
        for combo in itertools.combinations(FAULTS, n):
            out.append(tuple(combo))
    for lf in LENGTH_FAULTS:
        out.append((lf,))
    return out


_CHALLENGE = {}
NO_CHALLENGE = b'(no challenge seen)'


def challenge_of(name):
    '''what the real server sends after a valid identification (dry run)'''
    if name not in _CHALLENGE:
        _fix_challenge()
        pc.install_fake_pgp()
        ch = Channel(name, tls=False)
        blob = pc.FakePGP.envelope(IDENT)
        ch.feed(struct.pack('>I', 4) + struct.pack('>I', len(blob)) + blob)
        written = ch.transport.data()
        if len(written) < 4:
            # the server under test never answers a valid identification;
            # the fault-free variants will then report what is missing
            _CHALLENGE[name] = NO_CHALLENGE
        else:
            n = struct.unpack('>I', written[:4])[0]
            _CHALLENGE[name] = written[4 : 4 + n]
    return _CHALLENGE[name]


def tail_bytes(name, tail):
    pay = tiny_payloads(name)
    if tail == 'none':
        return [], b''
    if tail == 'one':
        return [pay[0][0]], pc.frame(pay[0][1])
    if tail == 'two':
        return [pay[1][0], pay[0][0]], pc.frame(pay[1][1]) + pc.frame(
            pay[0][1]
        )
    if tail == 'partial':
        whole = pc.frame(pay[0][1]) + pc.frame(pay[1][1])
        return [pay[0][0]], whole[:-3]
    raise ValueError(tail)


def handshake_stream(name, faults, tail):
    '''returns (stream, end of handshake, decided_at, tail objects, tail)

    decided_at: number of bytes after which the server has everything it
    needs to reject (None: fault-free, or it can never decide)'''
    challenge = challenge_of(name)
    blob1 = pc.FakePGP.envelope(IDENT, valid='s1' not in faults)
    len1 = len(blob1) - (1 if 'l1short' in faults else 0)
    pkt1 = (
        struct.pack('>I', 5 if 'p1' in faults else 4)
        + struct.pack('>I', len1)
        + blob1
    )
    text = b'not what you sent me' if 'echo' in faults else challenge
    blob2 = pc.FakePGP.envelope(text, valid='s2' not in faults)
    len2 = len(blob2)
    if 'l2short' in faults:
        len2 -= 1
    if 'l2long' in faults:
        len2 += 2
    pkt2 = (
        struct.pack('>I', 7 if 'p4' in faults else 4)
        + struct.pack('>I', len2)
        + blob2
    )
    objs, tbytes = tail_bytes(name, tail)
    decided = None
    if 'p1' in faults:
        decided = 4
    elif 's1' in faults or 'l1short' in faults:
        decided = 8 + len1
    elif 'p4' in faults:
        decided = len(pkt1) + 8
    elif faults:
        decided = len(pkt1) + 8 + len2
    stream = pkt1 + pkt2 + tbytes
    if decided is not None and decided > len(stream):
        decided = None  # l2long without enough bytes: the server keeps waiting
    return stream, len(pkt1) + len(pkt2), decided, objs, tbytes


def _first_fault(faults):
    '''the fault the server meets first in stream order'''
    for group in (('p1',), ('s1', 'l1short'), ('p4',)):
        for f in group:
            if f in faults:
                return f
    return '+'.join(faults)


def run_handshake(name, faults, tail, cuts):
    '''returns None or (clause, signature, observed, expected)'''
    # pylint: disable=too-many-locals,too-many-return-statements
    stream, hs_end, decided, objs, tbytes = handshake_stream(
        name, faults, tail
    )
    _fix_challenge()
    pc.install_fake_pgp()
    ch = Channel(name, tls=False)
    ok = not faults
    fed = 0
    for chunk in cut(stream, cuts):
        if ch.transport.lost:
            break  # Twisted stops reading after loseConnection()
        ch.feed(chunk)
        fed += len(chunk)
        raw = ch.raw()
        if raw or ch.delivered():
            if not ok:
                return (
                    'C14.handshake.fail',
                    'delivered-after-' + _first_fault(faults),
                    {'raw': raw, 'messages': ch.delivered(), 'fed': fed},
                    'nothing reaches the application on a failed handshake',
                )
            if fed < hs_end:
                return (
                    'C14.handshake.gate',
                    'delivered-before-final-packet',
                    {'raw': raw, 'fed': fed, 'handshake_bytes': hs_end},
                    'no application byte before the reply was verified',
                )
    raw = ch.raw()
    if ok:
        want = tbytes[: max(0, fed - hs_end)]
        sent = ch.transport.data()
        if sent and sent[4:] != challenge_of(name) != NO_CHALLENGE:
            raise RuntimeError(
                'harness precondition: the challenge text differs between '
                'two runs although clock and random are pinned'
            )
        if raw != want:
            return (
                'C14.handshake.tail',
                'tail-bytes-differ',
                {'raw': raw, 'lost': ch.transport.lost},
                {'raw': want},
            )
        if fed == len(stream):
            expected = [_expected_render(name, o) for o in objs]
            if ch.delivered() != expected:
                return (
                    'C14.handshake.tail',
                    'tail-messages-differ',
                    ch.delivered(),
                    expected,
                )
    else:
        if decided is not None and fed >= decided and not ch.transport.lost:
            return (
                'C14.handshake.fail',
                'not-closed-after-' + _first_fault(faults),
                {'lost': ch.transport.lost, 'fed': fed, 'decided_at': decided},
                'loseConnection() once the fault is visible',
            )
    return None


def check_handshake(tally, name, faults, tail, cuts):
    try:
        out = run_handshake(name, faults, tail, cuts)
    except RuntimeError:
        raise
    except Exception as exc:  # pylint: disable=broad-except
        out = (
            'C14.handshake.fail' if faults else 'C14.handshake.tail',
            'exception-' + type(exc).__name__,
            str(exc),
            'no exception',
        )
    tally.cases += 1
    tally.distinct.add(('hs', name, faults, tail, tuple(cuts)))
    if out is not None:
        clause, signature, observed, expected = out
        tally.violation(
            clause,
            signature,
            {
                'kind': 'handshake',
                'channel': name,
                'faults': list(faults),
                'tail': tail,
                'cuts': list(cuts),
            },
            observed,
            expected,
        )


# ---------------------------------------------------------------- work units


def _unit(args):
    '''one unit of work -> Tally pieces (picklable)'''
    # pylint: disable=too-many-branches,too-many-locals
    what = args[0]
    tally = Tally()
    if what == 'tiny':
        _w, name, label, ks = args
        objs, data = _lookup_stream(name, 'tiny', label)
        check_reassembly(
            tally, name, label, objs, data, _frame_cuts(data), 'tiny'
        )
        check_reassembly(
            tally, name, label, objs, data, range(1, len(data)), 'tiny'
        )
        for k in ks:
            for cuts in k_splits(len(data), k):
                check_reassembly(tally, name, label, objs, data, cuts, 'tiny')
    elif what == 'compose':
        _w, name, label = args
        objs, data = _lookup_stream(name, 'tiny', label)
        n = len(data)
        for mask in range(1 << (n - 1)):
            cuts = [i + 1 for i in range(n - 1) if mask >> i & 1]
            check_reassembly(tally, name, label, objs, data, cuts, 'tiny')
    elif what == 'real':
        _w, name, label, ks, nrand, seed = args
        objs, data = _lookup_stream(name, 'real', label)
        check_reassembly(
            tally, name, label, objs, data, _frame_cuts(data), 'real'
        )
        check_reassembly(
            tally, name, label, objs, data, range(1, len(data)), 'real'
        )
        for k in ks:
            for cuts in k_splits(len(data), k):
                check_reassembly(tally, name, label, objs, data, cuts, 'real')
        rng = random.Random('%s/%s/%s' % (seed, name, label))
        for _ in range(nrand):
            k = rng.choice((3, 3, 4, 5, 8))
            cuts = sorted(rng.sample(range(1, len(data)), k - 1))
            check_reassembly(tally, name, label, objs, data, cuts, 'real')
    elif what == 'recv':
        _w, label, ks, stride, nrand, seed = args
        data = recv_streams()[label][2]
        n = len(data)
        check_receive(tally, label, ())  # everything has arrived
        check_receive(tally, label, _frame_cuts(data))  # whole messages
        check_receive(tally, label, range(1, n))  # byte by byte
        for k in ks:
            for cuts in k_splits(n, k):
                check_receive(tally, label, cuts)
        if stride:  # pairs of cuts on a grid (every offset of the grid)
            for off in range(1, stride + 1):
                for cuts in itertools.combinations(range(off, n, stride), 2):
                    check_receive(tally, label, cuts)
        rng = random.Random('%s/recv/%s' % (seed, label))
        for _ in range(nrand):
            k = rng.choice((3, 3, 4, 5, 8))
            cuts = sorted(rng.sample(range(1, n), k - 1))
            check_receive(tally, label, cuts)
    elif what == 'hs':
        _w, name, faults, tail, ks, nrand, seed = args
        stream = handshake_stream(name, faults, tail)[0]
        n = len(stream)
        check_handshake(tally, name, faults, tail, ())
        check_handshake(tally, name, faults, tail, tuple(range(1, n)))
        for k in ks:
            for cuts in k_splits(n, k):
                check_handshake(tally, name, faults, tail, cuts)
        rng = random.Random('%s/%s/%s/%s' % (seed, name, faults, tail))
        for _ in range(nrand):
            k = rng.choice((3, 4, 5, 7))
            cuts = tuple(sorted(rng.sample(range(1, n), k - 1)))
            check_handshake(tally, name, faults, tail, cuts)
    else:
        raise ValueError(what)
    return tally.cases, tally.distinct, tally.found


def _frame_cuts(data):
    cuts = []
    pos = 0
    while pos + 4 <= len(data):
        n = struct.unpack('>I', data[pos : pos + 4])[0]
        pos += 4 + n
        if pos < len(data):
            cuts.append(pos)
    return cuts


def _cost(unit):
    '''rough number of cases of a unit (only used to order the work)'''
    what = unit[0]
    if what == 'compose':
        return 1 << len(_lookup_stream(unit[1], 'tiny', unit[2])[1])
    if what == 'recv':
        n = len(recv_streams()[unit[1]][2])
        return sum(n ** (k - 1) for k in unit[2]) + (n * n // (2 * unit[3]) if unit[3] else 0)
    if what in ('tiny', 'real'):
        n = len(_lookup_stream(unit[1], what, unit[2])[1])
        ks = unit[3]
    else:
        n = 130
        ks = unit[4]
    return sum(n ** (k - 1) for k in ks)


def plan(tier, seed):
    thorough = tier == 'thorough'
    units = []
    compose_limit = 19 if thorough else 14
    for name in ('farm', 'db', 'log'):
        for label, _objs, data in streams(name):
            if thorough or label == 'SLS':
                ks = (2, 3, 4)
            else:
                ks = (2, 3)
            units.append(('tiny', name, label, ks))
            if len(data) <= compose_limit:
                units.append(('compose', name, label))
        for label, _objs, data in real_streams(name):
            if thorough and len(data) <= 700:
                units.append(('real', name, label, (2, 3), 2000, seed))
            else:
                units.append(
                    ('real', name, label, (2,), 4000 if thorough else 250, seed)
                )
    for label, (_fam, _objs, data) in recv_streams().items():
        if thorough:
            ks = (2, 3, 4) if len(data) <= 120 else (2, 3)
            units.append(('recv', label, ks, 0, 3000, seed))
        elif len(data) <= 300:
            units.append(('recv', label, (2, 3), 0, 100, seed))
        else:
            units.append(('recv', label, (2,), 4, 300, seed))
    single = [v for v in variants() if len(v) <= 1]
    for name in ('farm', 'db', 'log'):
        for faults in variants():
            for tail in TAILS:
                ks = (2,)
                nrand = 300 if thorough else 10
                if name == 'farm' and faults in single:
                    if thorough:
                        ks = (2, 3)
                    elif (not faults and tail == 'two') or (
                        faults in (('p1',), ('echo',)) and tail == 'one'
                    ):
                        ks = (2, 3)
                elif thorough and not faults:
                    ks = (2, 3)
                if name != 'farm' and not thorough and len(faults) > 1:
                    continue
                units.append(('hs', name, faults, tail, ks, nrand, seed))
    return units


# ----------------------------------------------------------------- interface


def run(tier: str, seed: int) -> dict:
    t0 = time.time()
    units = plan(tier, seed)
    results = []
    skipped = 0
    if tier == 'thorough':
        import multiprocessing

        nproc = min(16, os.cpu_count() or 1)
        with multiprocessing.get_context('fork').Pool(nproc) as pool:
            results = pool.map(_unit, units, chunksize=1)
    else:
        # cheapest units first; under a very busy machine the most expensive
        # ones are skipped (reported through 'exhaustive': False)
        # (the small enumerated receive part first: it is never skipped)
        units.sort(key=lambda u: (u[0] != 'recv', _cost(u)))
        for u in units:
            if time.time() > t0 + 15.0:
                skipped += 1
                continue
            results.append(_unit(u))
    cases = 0
    distinct = set()
    found = {}
    for cs, ds, fd in results:
        cases += cs
        distinct |= ds
        for key, (size, rec) in fd.items():
            if key not in found or size < found[key][0]:
                found[key] = (size, rec)
    n_farm = len(streams('farm')[-1][2])
    samples = [
        {
            'kind': 'reassembly',
            'channel': 'farm',
            'payload': 'tiny',
            'stream': 'SLS',
            'cuts': [2, 4, 17],
        },
        {
            'kind': 'reassembly',
            'channel': 'db',
            'payload': 'real',
            'stream': 'R012',
            'cuts': [3],
        },
        {
            'kind': 'reassembly',
            'channel': 'log',
            'payload': 'tiny',
            'stream': 'LLL',
            'cuts': list(range(1, n_farm // 2)),
        },
        {'kind': 'receive', 'stream': 'LLU', 'cuts': [30, 70]},
        {
            'kind': 'handshake',
            'channel': 'farm',
            'faults': [],
            'tail': 'two',
            'cuts': [5, 40],
        },
        {
            'kind': 'handshake',
            'channel': 'db',
            'faults': ['echo'],
            'tail': 'one',
            'cuts': [37],
        },
    ]
    for s in samples:  # they are really run (again) so the list is honest
        r = replay({'input': s})
        cases += 1
        if r['reproduced']:
            key = (r['clause'], r['signature'])
            found.setdefault(
                key,
                (
                    len(s['cuts']),
                    {
                        'clause': r['clause'],
                        'signature': r['signature'],
                        'input': s,
                        'observed': r['observed'],
                        'expected': r['expected'],
                    },
                ),
            )
    least = {}
    for (clause, _sig), (size, _rec) in found.items():
        if clause.startswith('C14.reassembly') or clause == 'C14.receive':
            least[clause] = min(size, least.get(clause, size))
    found = {
        key: val
        for key, val in found.items()
        if key[0] not in least or val[0] == least[key[0]]
    }
    return {
        'cases': cases,
        'distinct': len(distinct),
        'rule': (
            'a case is one fresh protocol object fed one stream in one '
            'chunking; distinct = distinct (channel, stream, cut positions) '
            'resp. (channel, fault set, tail, cut positions) resp. (stream, cut '
            'positions) for message.receive on the segment socket; the expected '
            'message list is the list of objects that were framed (not the '
            'result of a reference run), the whole-frame chunking is one of '
            'the cases'
        ),
        'exhaustive': skipped == 0,
        'samples': samples,
        'violations': [rec for _size, rec in found.values()],
        'clauses': list(CLAUSES),
        'units': len(units),
        'units_skipped': skipped,
        'wall_s': round(time.time() - t0, 2),
    }


def replay(case: dict) -> dict:
    inp = case.get('input', case)
    tally = Tally()
    if inp['kind'] == 'reassembly':
        kind = inp.get('payload', 'tiny')
        objs, data = _lookup_stream(inp['channel'], kind, inp['stream'])
        check_reassembly(
            tally,
            inp['channel'],
            inp['stream'],
            objs,
            data,
            list(inp['cuts']),
            kind,
        )
    elif inp['kind'] == 'receive':
        check_receive(tally, inp['stream'], list(inp['cuts']))
    else:
        check_handshake(
            tally,
            inp['channel'],
            tuple(inp['faults']),
            inp['tail'],
            tuple(inp['cuts']),
        )
    if not tally.found:
        return {'reproduced': False, 'observed': None, 'expected': None}
    rec = list(tally.found.values())[0][1]
    return {
        'reproduced': True,
        'clause': rec['clause'],
        'signature': rec['signature'],
        'observed': rec['observed'],
        'expected': rec['expected'],
    }


if __name__ == '__main__':
    import json

    print(
        json.dumps(
            run(sys.argv[1] if len(sys.argv) > 1 else 'quick', 0), indent=1
        )[:4000]
    )
