'''C03  Each released unit runs once at a time and its result is never dropped  (bounded run-time harness).

Exactly-once ledger kept beside the real code (the simulated workers are the ledger's ground truth):

* C03.one-message   every unit released by schedule.next_job_batch() during a dispatch becomes exactly one task
                    message (farm._put), and messages are conserved:
                    queued-before + put == queued-after + handed-to-workers  (as multisets of job, target, run id);
                    fault injection (event tick-dbfault: dawgie.db.next() raises while a released job asks for
                    its run id inside farm.dispatch, which swallows the exception): a released unit that got no
                    message in that dispatch must not be lost - it is either back in its node's todo or kept
                    for the next dispatch (farm._jobs + the node's do) - and the next fault-free dispatch must
                    turn every unit kept that way into exactly one task message;
* C03.one-worker    a worker is handed at most one task message per dispatch (and by conservation no message
                    is handed to two workers; an unsent one stays queued);
* C03.single-flight at most one execution of (algorithm, target) is held by the workers at any time;
* C03.reply-applied every worker reply is applied exactly once: schedule.complete called once with the unit's
                    job/run id/target/state, one chronicle entry (monitor on chronicle.append AND the json
                    file on disk), schedule.update called once with the reported values on success (when at
                    least one value is reported new) and never on failure/invalid; and it is applied to the
                    LIVE unit: once the reply is handled and no worker holds the unit any more (nor is a task
                    message for it queued), the schedule in use - the graph of the latest schedule.build -
                    must no longer list the unit as executing (a result recorded on anything else is dropped
                    as far as the pipeline is concerned: the unit stays `doing` and queued for ever);
* C03.crew-view     the names in farm.crew()['busy'] equal (as a multiset) the units held by the workers,
                    after every event.

Reload part: the pipeline can rebuild its schedule in the running process (FSM.load -> FSM._pipeline ->
schedule.build after an update).  The simulator's event ['reload'] does that (see _sched_sim) in states where the
farm is quiet; the same oracles judge what happens afterwards.  A small seed-independent family of scripted
histories (run X, tick, reply, reload, run X again, tick, reply, drain ...; see _reload_scripts) runs FIRST so
that the time budget never cuts it, and the random histories take a reload with low probability.
'''

import collections
import time

from . import _sched_sim as X

PROPERTY = 'C03'
BOUND = X.BOUND_TEXT + (
    '; fault injection (db.next() raising during one dispatch tick per history, offered when a job may ask for a '
    'run id): quick: the 11 curated DAGs x {1 target/1 worker: all event sequences of length <= 4 (3 for the '
    '4-node graphs), 2 targets/2 workers: <= 3} plus 3 seeded histories of length 8..11 each; thorough: the curated DAGs x '
    '{1,2 targets} x {1,2 workers} to length 7 cut at 6000 transitions plus 10 seeded histories each'
    '; reload (schedule.build again in the same process, farm quiet): the 11 curated DAGs x every algorithm X, '
    'scripted histories: 1 target/1 worker: run X, tick, reply o1, reload, run X, tick, reply o2, drain with '
    '(o1, o2) in (success, success), (new values, new values), (failure, new values), (new values, failure); '
    'run X and the full cascade three times with a reload in between; 2 targets/2 workers: run X for all targets '
    'and the full cascade before and after a reload; both: a reload before anything ran, all algorithms requested '
    'at once around a reload (253 histories, seed independent, both tiers, run first); at most one reload, with '
    'low probability, in every seeded history'
)
CLAUSES = [
    'C03.one-message',
    'C03.one-worker',
    'C03.single-flight',
    'C03.reply-applied',
    'C03.crew-view',
]


def _name(unit):
    return '%s[%s]' % (unit[0], unit[1])


class Mon(X.Monitor):
    '''ghost: the in-flight units whose target was removed from their node's `doing` by the failure/invalid
    reply of ANOTHER unit while they were executing (used only to give the consequences of that one cause -
    dropped reply, second execution, wrong crew view - stable signatures)'''

    fault_ticks_hit = 0  # statistics (this process only): faulty ticks in which db.next() was really asked
    reloads_done = 0  # statistics (this process only): reload events executed
    replies_after_reload = 0  # statistics (this process only): replies judged on a reloaded schedule

    def reset(self):
        self.purged = frozenset()
        self.tainted = frozenset()  # units released a second time while such a purged execution was in flight
        # units released in a dispatch whose run-id request failed (injected fault) and kept for the next one
        self.carried = ()

    def state(self):
        return (self.purged, self.tainted, self.carried)

    def restore(self, st):
        self.purged, self.tainted, self.carried = st

    def key(self):
        return (self.purged, self.tainted, self.carried)

    def after(self, sim, ev, rec):
        out = X.common_violations(PROPERTY, rec)
        pre, post = rec['pre'], rec['post']
        if sim.reloads_used and ev[0] == 'reply':
            Mon.replies_after_reload += 1
        if ev[0] == 'reload':
            Mon.reloads_done += 1
            # a new graph: nothing was in flight (the event is only enabled when the farm is quiet), so the
            # ghosts about executions purged while in flight start again
            self.purged = frozenset()
            self.tainted = frozenset()
        if ev[0] in ('tick', 'tick-dbfault'):
            released = []
            for b in rec['trace']['njb']:
                released.extend(b['released'])
            puts = [(tag, tgt if tgt else X.ALL) for tag, _rid, tgt in rec['trace']['put']]
            faulted = ev[0] == 'tick-dbfault' and rec.get('db_fault_hits', 0) > 0
            Mon.fault_ticks_hit += 1 if faulted else 0
            due = collections.Counter(released) + collections.Counter(self.carried)
            got = collections.Counter(puts)
            if not faulted:
                if got != due or post['jobs']:
                    out.append(
                        {
                            'clause': 'C03.one-message',
                            'signature': 'released-units-vs-task-messages'
                            if not self.carried
                            else 'units-kept-after-run-id-failure-vs-task-messages',
                            'observed': {'released': sorted(released), 'put': sorted(puts),
                                         'farm._jobs_after': post['jobs'],
                                         **({'kept_from_failed_dispatch': sorted(self.carried)}
                                            if self.carried else {})},
                            'expected': 'exactly one task message per released unit, none left in farm._jobs',
                        }
                    )  # fmt: skip
                self.carried = ()
            else:
                # db.next() failed inside this dispatch: what got no message must not be lost
                extra = got - due
                rest = due - got
                kept, back, lost = [], [], []
                for unit in sorted(rest.elements()):
                    tag, tgt = unit
                    if tag in post['jobs'] and tgt in post['nodes'][tag]['do']:
                        kept.append(unit)
                    elif tgt in post['nodes'][tag]['todo']:
                        back.append(unit)
                    else:
                        lost.append(unit)
                if extra or lost:
                    out.append(
                        {
                            'clause': 'C03.one-message',
                            'signature': 'released-unit-lost-on-run-id-failure'
                            if lost
                            else 'released-units-vs-task-messages',
                            'observed': {'released': sorted(released), 'put': sorted(puts), 'lost': lost,
                                         'kept_from_failed_dispatch': sorted(self.carried),
                                         'farm._jobs_after': post['jobs'],
                                         'nodes_after': {t: post['nodes'][t] for t, _x in lost},
                                         'db.next_failures': rec.get('db_fault_hits')},
                            'expected': 'a released unit without a task message stays pending: back in todo, or '
                            'kept in farm._jobs with its target in do for the next dispatch',
                        }
                    )  # fmt: skip
                self.carried = tuple(kept)
            lhs = collections.Counter(rec['cluster_pre']) + collections.Counter(
                (tag, tgt if tgt else X.ALL, rid) for tag, rid, tgt in rec['trace']['put']
            )
            rhs = collections.Counter(rec['cluster_post']) + collections.Counter(rec['handed'])
            if lhs != rhs:
                out.append(
                    {
                        'clause': 'C03.one-message',
                        'signature': 'task-messages-not-conserved',
                        'observed': {'queued_before+put': sorted(lhs.elements()),
                                     'queued_after+handed': sorted(rhs.elements())},
                        'expected': 'every message is either still queued or handed to exactly one worker',
                    }
                )  # fmt: skip
            if any(k != 1 for k in rec['per_worker']):
                out.append(
                    {
                        'clause': 'C03.one-worker',
                        'signature': 'worker-handed-several-tasks',
                        'observed': rec['per_worker'],
                        'expected': 'one task per worker per dispatch',
                    }
                )
            if any(t[0] != 'task' for t in rec['handed_types']):
                out.append(
                    {
                        'clause': 'C03.one-worker',
                        'signature': 'non-task-message-handed-as-work',
                        'observed': rec['handed_types'],
                        'expected': 'type task',
                    }
                )
        dup = [u for u, k in collections.Counter(post['running']).items() if k > 1]
        if dup:
            if any(u in self.purged for u in dup):
                self.tainted = self.tainted | {u for u in dup if u in self.purged}
            out.append(
                {
                    'clause': 'C03.single-flight',
                    'signature': 'second-execution-after-purge-of-executing-dependent'
                    if any(u in self.tainted for u in dup)
                    else 'two-executions-of-one-unit-in-flight',
                    'observed': {'in_flight': sorted(post['running'])},
                    'expected': 'at most one execution per (algorithm, target) at any time',
                }
            )
        if ev[0] == 'reply':
            r = rec['reply']
            unit = tuple(r['unit'])
            want_c = (unit[0], r['runid'], unit[1], r['state'])
            tr = rec['trace']
            problems = []
            if tr['complete'] != [want_c]:
                problems.append('schedule.complete calls %r' % (tr['complete'],))
            want_h = (r['runid'], unit[0], unit[1], r['state'])  # (runid, task, target, status)
            if tr['chron'] != [want_h] or rec['chron_disk_delta'] != [want_h] or rec['chron_disk_lost']:
                problems.append(
                    'chronicle.append calls %r, new entries on disk %r'
                    % (tr['chron'], rec['chron_disk_delta'])
                )
            if r['state'] == 'success':
                want_u = (unit[0], r['runid'], [tuple(v) for v in r['values']])
                anynew = any(isnew for _n, isnew in r['values'])
                # with nothing reported new there is nothing to propagate: zero or one call are both fine
                if tr['update'] != [want_u] and (anynew or tr['update']):
                    problems.append('schedule.update calls %r' % (tr['update'],))
            elif tr['update']:
                problems.append('schedule.update called on a %s reply' % r['state'])
            if problems:
                sig = X.dropped_signature(rec, self.purged, 'reply-applied-wrongly')
                out.append(
                    {
                        'clause': 'C03.reply-applied',
                        'signature': sig,
                        'observed': {'reply': [unit[0], unit[1], r['outcome']], 'problems': problems,
                                     'que_before': pre['que']},
                        'expected': 'complete once %r, one chronicle entry, update once on success'
                        % (want_c,),
                    }
                )  # fmt: skip
            # applied to the LIVE unit: nobody holds it any more, so the schedule must not list it as executing
            held = (
                unit in post['running'] or unit in post['cluster'] or unit in post['cloud']
                or unit[0] in post['jobs']
            )  # fmt: skip
            if not held and unit[1] in post['nodes'][unit[0]]['doing']:
                out.append(
                    {
                        'clause': 'C03.reply-applied',
                        'signature': 'reply-not-applied-to-live-unit',
                        'observed': {'reply': [unit[0], unit[1], r['outcome']], 'runid': r['runid'],
                                     'node_after': post['nodes'][unit[0]], 'que_after': post['que'],
                                     'view_doing_after': sim.views()['view_doing'],
                                     'in_flight_after': sorted(post['running']),
                                     'schedule.complete_calls': tr['complete']},
                        'expected': 'after its reply %s[%s] is no longer executing in the live schedule '
                        '(no worker holds it, no task message for it is queued)' % unit,
                    }
                )  # fmt: skip
        self.purged = X.purged_in_flight(rec, self.purged)
        views = sim.views()
        want_busy = sorted(_name(u) for u in post['running'])
        got_busy = views['crew_busy'] if isinstance(views['crew_busy'], str) else sorted(views['crew_busy'])
        if got_busy != want_busy:
            names = {_name(u) for u in self.tainted}
            odd = set(got_busy if isinstance(got_busy, list) else []) ^ set(want_busy)
            out.append(
                {
                    'clause': 'C03.crew-view',
                    'signature': 'crew-busy-differs-after-purge-of-executing-dependent'
                    if odd and odd <= names
                    else 'crew-busy-differs-from-in-flight',
                    'observed': {'crew_busy': got_busy},
                    'expected': {'in_flight': want_busy},
                }
            )
        return out


def _job(job):
    if 'scripts' in job:
        return X.run_scripts(job, Mon)
    return X.explore_job(job, Mon)


CFG = {}
WALK_CFG = {'run_all': True, 'timers': True, 'run_empty': True, 'reloads': 1}
# re-requests of executing units and replies are what matters here: bias the random part towards them
BIAS = {'run': 1.5, 'timer': 0.3, 'tick': 2.5, 'tick-dbfault': 1.0, 'reply': 1.0, 'reload': 0.2}
FAULT_CFG = {'db_faults': 1}
FAULT_WALK_CFG = {'run_all': True, 'timers': True, 'run_empty': True, 'db_faults': 1, 'reloads': 1}
RELOAD_CFG = {'reloads': 2, 'run_all': True}
RELOAD_PAIRS = (('S', 'S'), ('Spq', 'Spq'), ('F', 'Spq'), ('Spq', 'F'))  # reply before / after the reload


def _reload_scripts(spec, targets):
    '''the scripted histories around a reload for one graph (see X.run_scripts for the step language)'''
    n = spec.n
    many = len(targets) > 1

    def req(i, everything=False):
        if spec.is_analysis(i) or everything:
            return ['run', i, [X.ALL]]
        return ['run', i, [targets[0]]]

    cascade = ['drain', 'Spq', 6 * n * len(targets) + 6]
    scripts = []
    for i in range(n):
        if not many:
            # X answered before the reload, requested and answered again after it
            for o1, o2 in RELOAD_PAIRS:
                scripts.append(
                    [req(i), ['tick'], ['reply*', o1], ['reload'], req(i), ['tick'], ['reply*', o2], cascade,
                     ['noop']]
                )  # fmt: skip
            # the whole downstream cascade on the first load, on the reloaded schedule, after a second reload
            scripts.append(
                [req(i), cascade, ['reload'], req(i), cascade, ['reload'], req(i), cascade, ['noop']]
            )
        else:
            # the same with every known target (two workers: several units in flight at once)
            scripts.append([req(i, True), cascade, ['reload'], req(i, True), cascade, ['noop']])
    # a reload before anything ran
    scripts.append([['reload'], req(0, many), ['tick'], ['reply*', 'Spq'], cascade, ['noop']])
    # everything requested at once (dependents wait for their queued ancestors), around a reload
    every = [req(i, many) for i in reversed(range(n))]
    scripts.append(every + [cascade, ['reload']] + every + [cascade, ['noop']])
    if not many:
        scripts.append(every + [['tick'], ['reply*', 'S'], ['reload']] + every + [cascade, ['noop']])
    return scripts


def _reload_jobs(deadline):
    '''seed independent, the same in both tiers'''
    jobs = []
    for k, spec in enumerate(X.curated_specs()):
        for targets, workers in ((['T1'], 1), (['T1', 'T2'], 2)):
            jobs.append(
                {
                    'universe': X.Universe(spec, targets, workers).to_json(), 'cfg': RELOAD_CFG,
                    'scripts': _reload_scripts(spec, targets), 'deadline': deadline, 'depth': 0,
                    'sample': k == 0 and len(targets) == 1,
                }
            )  # fmt: skip
    return jobs


def _fault_jobs(tier, seed, deadline):
    '''universes explored with one faulty dispatch tick (db.next() raising) per history'''
    jobs = []
    for k, spec in enumerate(X.curated_specs()):
        big = spec.n >= 4
        if tier == 'quick':
            plan = ((['T1'], 1, 3 if big else 4, 10**9, 3, 8), (['T1', 'T2'], 2, 3, 10**9, 3, 9))
        else:
            plan = tuple((t, w, 7, 6000, 10, 16) for t in (['T1'], ['T1', 'T2']) for w in (1, 2))
        for targets, workers, depth, cap, walks, walk_len in plan:
            jobs.append(
                {
                    'universe': X.Universe(spec, targets, workers).to_json(), 'cfg': FAULT_CFG,
                    'walk_cfg': FAULT_WALK_CFG, 'depth': depth, 'cap': cap, 'walks': walks,
                    'walk_len': walk_len + k % 3, 'seed': seed, 'deadline': deadline, 'drain': None,
                    'bias': BIAS, 'sample': k == 0 and len(targets) == 1 and workers == 1,
                }
            )  # fmt: skip
    return jobs


def run(tier, seed):
    t0 = time.time()
    # quick: 14 s of exploration as before + the ~3 s the scripted reload part (run first) takes
    deadline = t0 + (17 if tier == 'quick' else 230)
    jobs = X.tier_jobs(tier, seed, deadline, CFG, WALK_CFG, bias=BIAS)
    if tier == 'quick':
        jobs = jobs + _fault_jobs(tier, seed, deadline)
    else:  # long jobs first
        jobs = _fault_jobs(tier, seed, deadline) + jobs
    # the small scripted reload part first: it is never cut by the exploration deadline
    jobs = _reload_jobs(t0 + (60 if tier == 'quick' else 280)) + jobs
    rule = X.RULE + (
        '  Fault part (C03 only): the same exploration with one more event, a dispatch tick during which '
        'dawgie.db.next() raises, offered once per history in states where a job may ask for a run id.'
        '  Reload part (C03 only): event reload = schedule.build again in the same process with the farm quiet; '
        'scripted seed-independent histories around one or two reloads per curated graph and algorithm (run '
        'first, counted in `scripts`), and at most one reload per seeded random history.'
    )
    Mon.fault_ticks_hit = Mon.reloads_done = Mon.replies_after_reload = 0
    out = X.run_tier(PROPERTY, tier, seed, jobs, _job, Mon, rule, CLAUSES, t0)
    if tier == 'quick':  # one process: the counts are complete; the reload and fault parts must not be vacuous
        out['reload_events'] = Mon.reloads_done
        out['replies_after_reload'] = Mon.replies_after_reload
        if not (Mon.reloads_done and Mon.replies_after_reload):
            raise RuntimeError('C03 harness: no reply was ever judged on a reloaded schedule')
        out['db_fault_ticks_hit'] = Mon.fault_ticks_hit
        if not Mon.fault_ticks_hit:
            if out.get('truncated'):
                # the wall-clock budget ran out before the fault part (busy machine): say so, it is not a verdict
                out['db_fault_part'] = 'not reached before the time budget ran out; the exploration was truncated'
            else:
                raise RuntimeError('C03 harness: no injected db.next() failure was ever reached')
    return out


def replay(case):
    return X.generic_replay(case, Mon)
