'''C15 - version order is total and a version change reschedules exactly its owner (bounded run-time harness).

(a) dawgie.Version: all six comparison operators and newer() on every pair (and triple, for transitivity) of
    versions in {0,1,2}^3, carried by Version / Value / StateVector / Algorithm subclasses, against the
    lexicographic order of (design, implementation, bugfix) and against each other; plus seeded large integers.
(b) dawgie.pl.schedule.build(factories, latest, previous) on generated engines (harness/_ae_gen.py): `latest`
    from dawgie.pl.version.current(...), `previous` a 4-tuple shaped like dawgie.db.versions()
    (tasks, algorithms, state vectors, values: name -> [version strings]); dawgie.db.targets() is faked.
    Every versioned item (algorithm, state vector, value) is made *fresh* (its current version is among the
    persisted ones) or *stale* (it is not: bumped in the software, never persisted, empty list, only other
    versions incl. look-alikes such as 1.1.10 for 1.1.1); every fresh/stale subset is enumerated.
    Oracle (from the property statement): right after build an algorithm's todo is every known target
    ('__all__' for an analysis) iff one of its own items is stale, empty otherwise; the queue holds exactly the
    algorithms with work.

(c) reload histories in ONE process: what dawgie.pl.state.FSM._pipeline does at every (re)load,
        schedule.build(factories, version.current(...), version.persistent())
    several times in the same process, the data base being an in-memory back end (dawgie.db.c15fake: versions(),
    update(), targets(); every versions() call hands out fresh copies, as a data base read does).  Between the
    loads the scheduled algorithms "run": their versions are recorded with the real dawgie.pl.version.record on a
    bot made the way dawgie.pl.worker.Context.run makes it.  History: load, record, load (nothing changed),
    bump one versioned item, load, record, load (nothing changed).  Oracle (statement + the harness's own
    book-keeping of what was persisted, never read back from the code): at every load exactly the owners of an
    item whose current version is not among the persisted ones are scheduled - so nothing after a load whose
    runs were recorded, and exactly the owner after the bump.  The histories run one after the other in this
    process (only the first one sees a process that never loaded anything); what they flag is a candidate: it is
    reported only if it shows again when that single history is run in a process that has never loaded anything
    (a grandchild of a helper forked before the first load), so a reported finding does not depend on the
    histories run before it and replays in a fresh process.  Candidates that do not confirm are listed under
    'unconfirmed'.

Construct.graph is replaced by a stand-in that still runs Node.graph (node levels) but renders nothing.
'''

import itertools
import json
import os
import random
import sys
import time
import types

REPO = os.environ.get('VERIF_REPO', '/repo')

import dawgie  # noqa: E402

assert dawgie.__file__.startswith(REPO + '/Python/'), dawgie.__file__

try:
    from . import _ae_gen as G
except ImportError:  # run as a plain script
    sys.path.insert(0, os.path.dirname(os.path.abspath(__file__)))
    import _ae_gen as G

import dawgie.db  # noqa: E402
import dawgie.pl.dag  # noqa: E402
import dawgie.pl.schedule  # noqa: E402
import dawgie.pl.version  # noqa: E402

PROPERTY = 'C15'
BOUND = (
    'Version: every pair and triple of versions in {0,1,2}^3 on four carrier classes (+ seeded random large '
    'integers); build: six fixed engines with <= 3 algorithms (3-10 versioned items) x every fresh/stale subset of '
    'their items x known targets in ([], [T1], [T1,T2]) with the stale/fresh representation cycled, plus seeded '
    'random engines (<= 3 algorithms, <= 2x2 values) with random persisted tables; reload: the six fixed engines x '
    '{all items persisted, none, every second one} x known targets in ([], [T1], [T1,T2]) x every versioned item '
    'bumped: load, record, load, bump, load, record, load in one (forked, fresh) process each, plus seeded random '
    'histories (random engines, 1-2 bumps of random items per round, 2-3 rounds)'
)
CLAUSES = [
    'C15.order.lex',
    'C15.order.consistent',
    'C15.order.newer',
    'C15.build.error',
    'C15.build.scheduled',
    'C15.build.nothing_else',
]
BASE = (1, 1, 1)
TARGETS = ([], ['T1'], ['T1', 'T2'])

# ---------------------------------------------------------------------------
# (a) the order
# ---------------------------------------------------------------------------


class _Plain(dawgie.Version):
    def __init__(self, t):
        self._version_ = dawgie.VERSION(*t)


class _Val(dawgie.Value):
    def __init__(self, t=(0, 0, 0)):
        self._version_ = dawgie.VERSION(*t)

    def features(self):
        return []


class _Sv(dawgie.StateVector):
    def __init__(self, t=(0, 0, 0)):
        dict.__init__(self)
        self._version_ = dawgie.VERSION(*t)
        self['k'] = _Val(t)  # content must not take part in the comparison

    def name(self):
        return 'sv'

    def view(self, caller, visitor):
        return


class _Alg(dawgie.Algorithm):
    DAWGIE_IGNORE = True

    def __init__(self, t=(0, 0, 0)):
        self._version_ = dawgie.VERSION(*t)

    def name(self):
        return 'alg'


CARRIERS = (_Plain, _Val, _Sv, _Alg)
OPS = {
    'eq': (lambda a, b: a == b, lambda x, y: x == y),
    'ne': (lambda a, b: a != b, lambda x, y: x != y),
    'lt': (lambda a, b: a < b, lambda x, y: x < y),
    'le': (lambda a, b: a <= b, lambda x, y: x <= y),
    'gt': (lambda a, b: a > b, lambda x, y: x > y),
    'ge': (lambda a, b: a >= b, lambda x, y: x >= y),
}


def _pair(ca, cb, x, y):
    '''violations for one ordered pair of versions; returns (list, number of operator evaluations)'''
    bad = []
    a, b = CARRIERS[ca](x), CARRIERS[cb](y)
    got = {}
    for op, (real, want) in OPS.items():
        try:
            got[op] = bool(real(a, b))
        except Exception as e:  # pylint: disable=broad-except
            got[op] = repr(e)
        if got[op] != want(x, y):
            bad.append(('C15.order.lex', f'lex:{op}', {op: got[op]}, {op: want(x, y)}))
    try:
        newer = bool(a.newer(b._get_ver()))  # pylint: disable=protected-access
    except Exception as e:  # pylint: disable=broad-except
        newer = repr(e)
    if newer != (x > y):
        bad.append(('C15.order.newer', 'newer:lex', {'newer': newer}, {'newer': x > y}))
    if newer != got['gt']:
        bad.append(('C15.order.newer', 'newer:gt', {'newer': newer, 'gt': got['gt']}, 'newer(v) iff self > v'))
    rules = {
        'trichotomy': [got['lt'], got['eq'], got['gt']].count(True) == 1,
        'ne_not_eq': got['ne'] == (not got['eq']),
        'le_lt_or_eq': got['le'] == (got['lt'] is True or got['eq'] is True),
        'ge_gt_or_eq': got['ge'] == (got['gt'] is True or got['eq'] is True),
        'le_not_gt': got['le'] == (not got['gt']),
        'ge_not_lt': got['ge'] == (not got['lt']),
    }
    try:
        rules['lt_flip_gt'] = got['lt'] == bool(b > a)
        rules['le_flip_ge'] = got['le'] == bool(b >= a)
        rules['eq_symmetric'] = got['eq'] == bool(b == a)
    except Exception:  # pylint: disable=broad-except
        rules['flip_raises'] = False
    for name, ok in rules.items():
        if not ok:
            bad.append(('C15.order.consistent', f'consistent:{name}', got, name))
    return bad, len(OPS) + 4


def order_cases(seed, n_random):
    small = list(itertools.product(range(3), repeat=3))
    out = []
    k = 0
    for x in small:
        for y in small:
            out.append((k % 4, (k // 4) % 4, x, y))
            k += 1
    rng = random.Random(f'c15:order:{seed}')
    for _ in range(n_random):
        x = tuple(rng.choice((0, 1, 7, 10**6, rng.randrange(10**9))) for _ in range(3))
        y = tuple(rng.choice((xi, xi + 1, max(0, xi - 1), rng.randrange(10**9))) for xi in x)
        out.append((rng.randrange(4), rng.randrange(4), x, y))
    return out, len(small) ** 2


def check_order(seed, n_random):
    bad, evals = [], 0
    cases, n_small = order_cases(seed, n_random)
    for ca, cb, x, y in cases:
        b, n = _pair(ca, cb, x, y)
        evals += n
        for clause, sig, obs, exp in b:
            bad.append((clause, sig, {'part': 'order', 'a': list(x), 'b': list(y), 'carriers': [ca, cb]}, obs, exp))
    # transitivity of <= and < over all triples of the small cube
    small = list(itertools.product(range(3), repeat=3))
    objs = {t: _Plain(t) for t in small}
    for x in small:
        for y in small:
            if not objs[x] <= objs[y]:
                continue
            for z in small:
                evals += 1
                if objs[y] <= objs[z] and not objs[x] <= objs[z]:
                    bad.append(
                        (
                            'C15.order.consistent',
                            'consistent:transitive',
                            {'part': 'order3', 'a': list(x), 'b': list(y), 'c': list(z)},
                            'a<=b and b<=c but not a<=c',
                            'a<=c',
                        )
                    )
    return bad, len(cases) + len(small) ** 3, evals, n_small


# ---------------------------------------------------------------------------
# (b) build
# ---------------------------------------------------------------------------


def fixed_engines():
    mk = G.make_spec
    e6 = mk((), (0, 0), ['task', 'task'], [0, 0], [(0, 0, 0)], style='classic')
    e6['algs'][1]['name'] = 'a10'  # a name that extends another one: p0.a1 / p0.a10
    e6['algs'][0]['name'] = 'a1'
    # a state vector without keys on a fresh instance (its values are named at run time) next to an ordinary one:
    # it is not a versioned item - nothing is ever persisted for it, so it must never make its owner look changed
    e7 = mk((), (0,), ['task'], [0], [(0, 0, 0)], style='classic')
    e7['algs'][0]['svs'].append(['svz', []])
    e8 = mk(((0, 1),), (0, 1), ['task', 'analysis'], [0, 0], [(1, 0, 0)], style='base')
    e8['algs'][1]['svs'].insert(0, ['sva', []])
    return [
        e7,
        e8,
        mk((), (0,), ['task'], [0], [(0, 0, 0)], style='classic'),
        mk((), (0,), ['analysis'], [3], [(0, 0, 0)], style='auto'),
        mk(((0, 1),), (0, 1), ['task', 'analysis'], [0, 0], [(1, 0, 0)], style='base'),
        mk(((0, 1), (1, 2)), (0, 0, 1), ['task', 'regress', 'analysis'], [0, 0, 0], [(0, 0, 0), (2, 0, 0)], style='classic'),
        mk(
            ((0, 1), (0, 2)),
            (0, 1, 1),
            ['analysis', 'task', 'regress'],
            [0, 2, 0],
            [(1, 0, 0), (0, 0, 0)],
            feedback=(0, 2, 2, 0, 0),
            style='auto',
        ),
        e6,
    ]


def _bump(ver, how):
    d, i, b = ver
    return [(d + 1, 0, 0), (d, i + 1, 0), (d, i, b + 1), (d, i - 1, 9) if i else (d + 2, 0, 0)][how % 4]


def _s(t):
    return '.'.join(str(x) for x in t)


# how a fresh / stale item is represented; k cycles through the options
def represent(item_index, case_index, stale):
    '''-> (software version, persisted list or None for "never persisted")'''
    k = (item_index * 7 + case_index * 3) % (6 if stale else 4)
    cur = BASE
    look = [_s((cur[0], cur[1], cur[2] * 10)), _s((cur[0] * 10 + cur[0], cur[1], cur[2])), _s(cur) + '0']
    if not stale:
        return cur, [[_s(cur)], ['1.0.0', _s(cur)], [_s(cur), '0.9.3'], ['1.0.0', _s(cur), '2.0.0'] + look][k]
    if k in (0, 1, 2):  # bumped in the software, the persisted list knows only what ran before
        new = _bump(cur, k + case_index)
        return new, [[_s(cur)], ['1.0.0', _s(cur)], [_s(cur)] + [_s(new) + '0']][k]
    return cur, [None, [], look + ['2.0.0']][k - 3]


def tables(spec, stale, case_index):
    '''software version table + persisted 4-tuple for a fresh/stale assignment (dict item -> bool)'''
    soft = {}
    prev = ({}, {}, {}, {})
    for n, item in enumerate(G.version_items(spec)):
        ver, persisted = represent(n, case_index, stale[item])
        soft[item] = list(ver)
        prev[0][item.split('.')[0]] = True
        if persisted is not None:
            prev[item.count('.')][item] = list(persisted)
    if case_index % 2:  # leftovers of software that no longer exists must not schedule anything
        prev[0]['p9'] = True
        prev[1]['p9.gone'] = ['1.0.0']
        prev[2]['p9.gone.s0'] = ['1.0.0']
        prev[3]['p9.gone.s0.v0'] = ['1.0.0']
    return soft, prev


def _graph(dot, roots, _name):
    for r in roots:
        r.graph(dot)
    return b''


def _all_nodes(roots):
    seen = {}
    todo = list(roots)
    while todo:
        n = todo.pop()
        if id(n) not in seen:
            seen[id(n)] = n
            todo.extend(list(n))
    return list(seen.values())


def build_once(eng, factories, soft, prev, targets):
    '''run the real version.current + schedule.build; compare with the statement; -> violation tuples'''
    spec = eng.spec
    eng.activate()
    eng.set_versions(soft)
    dawgie.db.targets = lambda: list(targets)
    kinds = {G.alg_id(a): a['kind'] for a in spec['algs']}
    # oracle: an item is stale iff its software version string is not in its persisted list
    changed = set()
    for item, ver in soft.items():
        if _s(ver) not in prev[item.count('.')].get(item, []):
            changed.add(G.trim(item, 2))
    want = {
        aid: ((['__all__'] if k == 'analysis' else list(targets)) if aid in changed else []) for aid, k in kinds.items()
    }
    try:
        flat = (
            factories[dawgie.Factories.analysis]
            + factories[dawgie.Factories.regress]
            + factories[dawgie.Factories.task]
        )
        latest = dawgie.pl.version.current(flat)
        dawgie.pl.schedule.build(factories, latest, prev)
    except Exception as e:  # pylint: disable=broad-except
        return [('C15.build.error', f'error:{type(e).__name__}', repr(e), 'build succeeds')]
    return _compare(kinds, want, changed)


def _compare(kinds, want, changed):
    '''the schedule as it is now against `want` (algorithm -> todo) -> violation tuples'''
    bad = []
    nodes = {n.tag: n for n in _all_nodes(dawgie.pl.schedule.ae.at)}
    for aid, exp in want.items():
        n = nodes.get(aid)
        got = None if n is None else list(n.get('todo'))
        busy = [] if n is None else sorted(set(n.get('doing')) | set(n.get('do')))
        if got is None or sorted(got) != sorted(exp) or len(got) != len(set(got)) or busy:
            missing = got is None or set(exp) - set(got)
            bad.append(
                (
                    'C15.build.scheduled' if missing else 'C15.build.nothing_else',
                    f'todo:{kinds[aid]}:{"missing" if missing else "extra"}',
                    {aid: {'todo': got, 'doing/do': busy}},
                    {aid: {'todo': exp}},
                )
            )
    que = [j.tag for j in dawgie.pl.schedule.que]
    exp_que = sorted(a for a, t in want.items() if t)
    idle_changed = {j.tag for j in dawgie.pl.schedule.que if j.tag in changed and not j.get('todo') and not j.get('doing')}
    if len(que) != len(set(que)) or set(que) - idle_changed - set(exp_que):
        bad.append(('C15.build.nothing_else', 'que:extra', sorted(que), exp_que))
    elif set(exp_que) - set(que):
        bad.append(('C15.build.scheduled', 'que:missing', sorted(que), exp_que))
    return bad


# ---------------------------------------------------------------------------
# (c) several loads in one process
# ---------------------------------------------------------------------------

_FDB = {'tables': ({}, {}, {}, {}), 'targets': []}
_fdb = types.ModuleType('dawgie.db.c15fake')


def _fdb_versions():
    '''a read of the data base: fresh objects every time'''
    return tuple({k: (v if v is True else list(v)) for k, v in t.items()} for t in _FDB['tables'])


def _fdb_update(tsk, alg, sv, vn, v):
    tasks, algs, svs, vals = _FDB['tables']
    tn = tsk._name()  # pylint: disable=protected-access
    tasks[tn] = True
    rows = [(algs, [tn, alg.name()], alg)]
    if sv is not None:
        rows.append((svs, [tn, alg.name(), sv.name()], sv))
        if vn is not None:
            rows.append((vals, [tn, alg.name(), sv.name(), vn], v))
    for table, name, item in rows:
        known = table.setdefault('.'.join(name), [])
        if item.asstring() not in known:
            known.append(item.asstring())


_fdb.versions = _fdb_versions
_fdb.update = _fdb_update
_fdb.targets = lambda: list(_FDB['targets'])
sys.modules['dawgie.db.c15fake'] = _fdb
dawgie.db.c15fake = _fdb

ROUND = (('load',), ('record',), ('load',))


def _bot(factories, kind, pkg, target):
    '''the bot of sub-package pkg, made like dawgie.pl.worker.Context.run makes it'''
    for fac in factories[dawgie.Factories[kind]]:
        if dawgie.util.task_name(fac) == pkg:
            if kind == 'task':
                return fac(pkg, 0, 1, target)
            if kind == 'analysis':
                return fac(pkg, 0, 1)
            return fac(pkg, 0, target)
    raise KeyError((kind, pkg))


def history_once(eng, factories, stale, ci, targets, steps):
    '''several loads in this process -> violation tuples (clause, signature, observed, expected)'''
    spec = eng.spec
    eng.activate()
    soft, prev = tables(spec, stale, ci)
    _FDB['tables'] = tuple({k: (v if v is True else list(v)) for k, v in t.items()} for t in prev)
    _FDB['targets'] = list(targets)
    impl, real_targets = dawgie.context.db_impl, dawgie.db.targets
    dawgie.context.db_impl = 'c15fake'
    dawgie.db.targets = lambda: list(targets)
    kinds = {G.alg_id(a): a['kind'] for a in spec['algs']}
    # the oracle's own book of what is persisted: item -> version strings
    book = {item: set(prev[item.count('.')].get(item, [])) for item in soft}
    bad, loads, scheduled = [], 0, []
    flat = (
        factories[dawgie.Factories.analysis] + factories[dawgie.Factories.regress] + factories[dawgie.Factories.task]
    )
    try:
        for step in steps:
            if step[0] == 'bump':
                soft[step[1]] = list(_bump(tuple(soft[step[1]]), step[2]))
            elif step[0] == 'record':
                # the algorithms scheduled by the previous load ran: the worker records their versions
                for aid in scheduled:
                    pkg, algn = aid.split('.')
                    try:
                        dawgie.pl.version.record(_bot(factories, kinds[aid], pkg, (targets or ['T0'])[0]), only=algn)
                    except Exception as e:  # pylint: disable=broad-except
                        bad.append(('C15.build.error', f'reload:record:{type(e).__name__}', repr(e), 'record succeeds'))
                    for item in soft:
                        if G.trim(item, 2) == aid:
                            book[item].add(_s(soft[item]))
            else:
                loads += 1
                eng.set_versions(soft)
                changed = {G.trim(item, 2) for item, ver in soft.items() if _s(ver) not in book[item]}
                want = {
                    aid: ((['__all__'] if k == 'analysis' else list(targets)) if aid in changed else [])
                    for aid, k in kinds.items()
                }
                scheduled = sorted(aid for aid, t in want.items() if t)
                try:  # exactly FSM._pipeline
                    dawgie.pl.schedule.build(
                        factories, dawgie.pl.version.current(flat), dawgie.pl.version.persistent()
                    )
                except Exception as e:  # pylint: disable=broad-except
                    bad.append(('C15.build.error', f'reload:error:{type(e).__name__}', {'load': loads, 'error': repr(e)}, 'build succeeds'))
                    break
                tag = 'first-load:' if loads == 1 else 'reload:'
                for clause, sig, obs, exp in _compare(kinds, want, changed):
                    bad.append((clause, tag + sig, {'load': loads, 'got': obs}, {'load': loads, 'want': exp, 'owners_of_changed_items': sorted(changed)}))
    finally:
        dawgie.context.db_impl, dawgie.db.targets = impl, real_targets
    return bad, loads


def _in_child(fn):
    '''run fn() in a forked child (a process that has not loaded anything yet) -> its result'''
    r, w = os.pipe()
    pid = os.fork()
    if pid == 0:
        code = 1
        try:
            os.close(r)
            with os.fdopen(w, 'w', encoding='utf-8') as fh:
                fh.write(json.dumps(fn(), default=repr))
            code = 0
        finally:
            os._exit(code)  # pylint: disable=protected-access
    os.close(w)
    with os.fdopen(r, 'r', encoding='utf-8') as fh:
        text = fh.read()
    _pid, status = os.waitpid(pid, 0)
    if status != 0 or not text:
        raise RuntimeError(f'C15 harness: the child running a reload history died (status {status})')
    return json.loads(text)


def _hist_plain(job):
    '''[spec, stale, case index, targets, steps] -> [violations, loads]; engine built (and removed) here'''
    spec, stale, ci, targets, steps = job
    G.quiet()
    dawgie.pl.dag.Construct.graph = staticmethod(_graph)
    with G.Workshop('c15h') as shop:
        eng = shop.build(spec)
        try:
            factories = eng.scan()
        except Exception as e:  # pylint: disable=broad-except
            return [[('C15.build.error', f'scan:{type(e).__name__}', repr(e), 'scan succeeds')], 0]
        return list(history_once(eng, factories, stale, ci, targets, steps))


def _hist_worker(job):
    '''job = list of (spec, [(stale, case index, targets, steps), ...]) -> per spec a list of [violations, loads];
    everything in this process, one history after the other'''
    G.quiet()
    dawgie.pl.dag.Construct.graph = staticmethod(_graph)
    res = []
    with G.Workshop('c15h') as shop:
        for spec, runs in job:
            eng = shop.build(spec)
            try:
                factories = eng.scan()
            except Exception as e:  # pylint: disable=broad-except
                res.append([[[('C15.build.error', f'scan:{type(e).__name__}', repr(e), 'scan succeeds')], 0] for _ in runs])
                continue
            res.append([list(history_once(eng, factories, *r)) for r in runs])
            eng.forget()
            shop.engines.remove(eng)
    return res


class _Clean:
    '''a helper process forked NOW (before this process loads anything).  run(job) makes it fork a grandchild
    that runs that one history: a process that has never loaded anything, whatever happened here meanwhile'''

    def __init__(self):
        a_r, a_w = os.pipe()
        b_r, b_w = os.pipe()
        self.pid = os.fork()
        if self.pid == 0:
            code = 1
            try:
                os.close(a_w)
                os.close(b_r)
                with os.fdopen(a_r, 'r', encoding='utf-8') as req, os.fdopen(b_w, 'w', encoding='utf-8') as out:
                    for line in req:
                        if line.strip() == 'quit':
                            break
                        job = json.loads(line)
                        try:
                            ans = _in_child(lambda job=job: _hist_plain(job))
                        except Exception as e:  # pylint: disable=broad-except
                            ans = {'error': repr(e)}
                        out.write(json.dumps(ans) + '\n')
                        out.flush()
                code = 0
            finally:
                os._exit(code)  # pylint: disable=protected-access
        os.close(a_r)
        os.close(b_w)
        self.req = os.fdopen(a_w, 'w', encoding='utf-8')
        self.ans = os.fdopen(b_r, 'r', encoding='utf-8')

    def run(self, job):
        self.req.write(json.dumps(job) + '\n')
        self.req.flush()
        line = self.ans.readline()
        ans = json.loads(line) if line else {'error': 'helper process died'}
        if isinstance(ans, dict):
            raise RuntimeError('C15 harness: clean-process run failed: %s' % ans['error'])
        return ans

    def close(self):
        try:
            self.req.write('quit\n')
            self.req.close()
            self.ans.close()
        finally:
            os.waitpid(self.pid, 0)


def history_cases(tier, seed):
    '''-> (engines, list of (engine index, stale dict, case index, targets, steps), number of enumerated ones)'''
    out = []
    engines = fixed_engines()
    for ei, spec in enumerate(engines):
        items = G.version_items(spec)
        for mode in range(3):  # everything persisted / nothing / every second item
            stale = {it: (False, True, bool(k % 2))[mode] for k, it in enumerate(items)}
            for ti, targets in enumerate(TARGETS):
                for k, item in enumerate(items):
                    steps = [*ROUND, ('bump', item, k + ti + mode), *ROUND]
                    out.append((ei, stale, k + ti + 3 * mode, targets, [list(x) for x in steps]))
    n_enum = len(out)
    for k in range(25 if tier == 'quick' else 400):
        rng = random.Random(f'c15:reload:{seed}:{k}')
        spec = G.random_spec(rng, nmax=3, nmin=1)
        engines.append(spec)
        items = G.version_items(spec)
        p = rng.choice((0.0, 0.3, 1.0))
        stale = {it: rng.random() < p for it in items}
        steps = list(ROUND)
        for _ in range(rng.choice((1, 2, 2))):
            for it in rng.sample(items, min(len(items), rng.choice((1, 1, 2)))):
                steps.append(('bump', it, rng.randrange(4)))
            steps.extend(ROUND if rng.random() < 0.8 else (('load',), ('load',)))
        out.append((len(engines) - 1, stale, rng.randrange(10**6), rng.choice(TARGETS), [list(x) for x in steps]))
    return engines, out, n_enum


def build_cases(tier, seed):
    '''-> list of (engine index or spec, stale dict, case index, targets)'''
    out = []
    engines = fixed_engines()
    for ei, spec in enumerate(engines):
        items = G.version_items(spec)
        for mask in range(1 << len(items)):
            stale = {it: bool(mask >> k & 1) for k, it in enumerate(items)}
            for ti, targets in enumerate(TARGETS):
                out.append((ei, stale, mask * 3 + ti, targets))
    n_enum = len(out)
    n_eng, n_tab = (30, 20) if tier == 'quick' else (400, 100)
    for k in range(n_eng):
        rng = random.Random(f'c15:build:{seed}:{k}')
        spec = G.random_spec(rng, nmax=3, nmin=1)
        engines.append(spec)
        items = G.version_items(spec)
        for _ in range(n_tab):
            p = rng.choice((0.1, 0.5, 0.9))
            stale = {it: rng.random() < p for it in items}
            out.append((len(engines) - 1, stale, rng.randrange(10**6), rng.choice(TARGETS)))
    return engines, out, n_enum


def _worker(job):
    '''job = list of (spec, [(stale, case index, targets), ...]) -> list of lists of violation tuples'''
    G.quiet()
    dawgie.pl.dag.Construct.graph = staticmethod(_graph)
    res = []
    with G.Workshop('c15e') as shop:
        for spec, runs in job:
            eng = shop.build(spec)
            try:
                factories = eng.scan()
            except Exception as e:  # pylint: disable=broad-except
                res.append([[('C15.build.error', f'scan:{type(e).__name__}', repr(e), 'scan succeeds')] for _ in runs])
                continue
            one = []
            for stale, ci, targets in runs:
                soft, prev = tables(spec, stale, ci)
                one.append(build_once(eng, factories, soft, prev, targets))
            res.append(one)
            eng.forget()
            shop.engines.remove(eng)
    return res


def run(tier: str, seed: int) -> dict:
    t0 = time.time()
    clean = _Clean()  # forked before anything is loaded here
    try:
        return _run(tier, seed, t0, clean)
    finally:
        clean.close()


def _run(tier, seed, t0, clean):
    violations, counts = {}, {}

    def note(clause, sig, inp, obs, exp):
        counts[sig] = counts.get(sig, 0) + 1
        if sig not in violations:
            violations[sig] = {'clause': clause, 'signature': sig, 'input': inp, 'observed': obs, 'expected': exp}

    obad, ocases, evals, n_small = check_order(seed, 2000 if tier == 'quick' else 200000)
    for clause, sig, inp, obs, exp in obad:
        note(clause, sig, inp, obs, exp)

    # (c) first: the parent has not loaded anything yet when the histories' processes are forked
    hengines, hcases, h_enum = history_cases(tier, seed)
    per_engine = {}
    for ei, stale, ci, targets, steps in hcases:
        per_engine.setdefault(ei, []).append((stale, ci, targets, steps))
    hjobs = [(hengines[ei], runs) for ei, runs in per_engine.items()]
    hresults = G.run_cases(_hist_worker, hjobs, 16 if tier == 'thorough' else 1)
    histories, hloads, hkeys = 0, 0, set()
    candidates, unconfirmed = {}, []
    for (spec, runs), res in zip(hjobs, hresults):
        for (stale, ci, targets, steps), (bad, loads) in zip(runs, res):
            histories += 1
            hloads += loads
            key = (G.spec_key(spec), tuple(sorted(k for k, v in stale.items() if v)), len(targets), json.dumps(steps))
            hkeys.update((key, k) for k in range(loads))
            for clause, sig, _obs, _exp in bad:
                counts[sig] = counts.get(sig, 0) + 1
                if len(candidates.setdefault((clause, sig), [])) < 3:
                    candidates[(clause, sig)].append([spec, stale, ci, targets, steps])
    for (clause, sig), jobs_ in candidates.items():
        for job_ in jobs_:
            # alone, in a process that has never loaded anything
            again = [b for b in clean.run(job_)[0] if b[0] == clause and b[1] == sig]
            hloads += sum(1 for st in job_[4] if st[0] == 'load')
            if again:
                violations[sig] = {
                    'clause': clause,
                    'signature': sig,
                    'input': dict(zip(('spec', 'stale', 'case_index', 'targets', 'steps'), job_), part='reload'),
                    'observed': again[0][2],
                    'expected': again[0][3],
                }
                break
        else:
            unconfirmed.append({'clause': clause, 'signature': sig, 'count': counts.pop(sig),
                                'input': dict(zip(('spec', 'stale', 'case_index', 'targets', 'steps'), jobs_[0]), part='reload')})

    engines, cases, n_enum = build_cases(tier, seed)
    per_engine = {}
    for ei, stale, ci, targets in cases:
        per_engine.setdefault(ei, []).append((stale, ci, targets))
    jobs = []
    for ei, runs in per_engine.items():
        step = 400  # split the big enumerations so that a pool has something to balance
        for k in range(0, len(runs), step):
            jobs.append((engines[ei], runs[k : k + step]))
    results = G.run_cases(_worker, jobs, 16 if tier == 'thorough' else 1)
    builds, keys = 0, set()
    for (spec, runs), res in zip(jobs, results):
        for (stale, ci, targets), bad in zip(runs, res):
            builds += 1
            keys.add((G.spec_key(spec), tuple(sorted(k for k, v in stale.items() if v)), len(targets)))
            for clause, sig, obs, exp in bad:
                note(
                    clause,
                    sig,
                    {'part': 'build', 'spec': spec, 'stale': stale, 'case_index': ci, 'targets': targets},
                    obs,
                    exp,
                )
    out = list(violations.values())
    for v in out:
        v['count'] = counts[v['signature']]
    sample = cases[len(cases) // 3]
    return {
        'cases': ocases + builds + hloads,
        'distinct': n_small + 27**3 + len(keys) + len(hkeys),
        'rule': (
            'order: one case = one ordered pair (all operators, newer, consistency laws) or triple (transitivity); '
            'build: one case = version.current + schedule.build on a generated engine with one fresh/stale '
            'assignment of its versioned items and one list of known targets; distinct = distinct small pairs + '
            f'triples + distinct (engine, stale set, number of targets); {evals} operator evaluations, {builds} builds; '
            'reload: one case = one load (version.current + version.persistent + schedule.build) of a history of '
            'several loads in one process with version.record between them; distinct = distinct (engine, initially '
            f'stale set, number of targets, steps, load number); {histories} histories, {hloads} loads'
        ),
        'exhaustive': True,
        'exhaustive_part': (
            f'27x27 pairs, 27^3 triples; {n_enum} builds = every fresh/stale subset x 3 target lists on 6 fixed '
            f'engines (representation of fresh/stale cycled); {h_enum} reload histories = 6 fixed engines x 3 initial '
            'states of the data base x 3 target lists x every item bumped; the seeded random parts come on top'
        ),
        'samples': [
            {'part': 'order', 'a': [1, 0, 2], 'b': [1, 1, 0], 'carriers': [0, 2]},
            {'part': 'build', 'spec': engines[sample[0]], 'stale': sample[1], 'case_index': sample[2], 'targets': sample[3]},
            {'part': 'build', 'spec': engines[cases[-1][0]], 'stale': cases[-1][1], 'case_index': cases[-1][2], 'targets': cases[-1][3]},
            {'part': 'reload', 'spec': hengines[hcases[h_enum // 2][0]], 'stale': hcases[h_enum // 2][1], 'case_index': hcases[h_enum // 2][2],
             'targets': hcases[h_enum // 2][3], 'steps': hcases[h_enum // 2][4]},
        ],
        'violations': out,
        'clauses': CLAUSES,
        'seconds': round(time.time() - t0, 2),
        # reload part: flagged after other histories in this process but not when run alone in a clean process
        'unconfirmed': unconfirmed,
    }


def replay(case: dict) -> dict:
    inp = case.get('input', case)
    want = case.get('clause')
    if inp.get('part') == 'order3':
        a, b, c = (_Plain(tuple(inp[k])) for k in 'abc')
        hit = a <= b and b <= c and not a <= c
        return {'reproduced': bool(hit), 'observed': 'a<=b, b<=c, not a<=c' if hit else 'transitive', 'expected': 'a<=c'}
    if inp.get('part') == 'order':
        bad, _ = _pair(inp['carriers'][0], inp['carriers'][1], tuple(inp['a']), tuple(inp['b']))
    elif inp.get('part') == 'reload':
        # in a child: the caller's process stays as it is, so replays are independent of each other
        bad = _in_child(lambda: _hist_plain([inp['spec'], inp['stale'], inp['case_index'], inp['targets'], inp['steps']]))[0]
        if case.get('signature') is not None:
            bad = [b for b in bad if b[1] == case['signature']]
    else:
        res = _worker([(inp['spec'], [(inp['stale'], inp['case_index'], inp['targets'])])])
        bad = res[0][0]
    hit = [b for b in bad if want is None or b[0] == want]
    return {
        'reproduced': bool(hit),
        'observed': hit[0][2] if hit else 'as the statement requires',
        'expected': hit[0][3] if hit else 'as the statement requires',
    }


if __name__ == '__main__':
    print(json.dumps(run(sys.argv[1] if len(sys.argv) > 1 else 'quick', 0))[:3000])
