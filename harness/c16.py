'''C16 - the compliance gate accepts exactly the engines that follow the architecture (bounded harness).

Engine packages are generated as real source trees (harness/_ae_gen.py).  For each one the gate is evaluated the
way `python -m dawgie.tools.compliant` does it, but in process: dawgie.tools.compliant._scan() (which runs
dawgie.pl.scan.for_factories on dawgie.context.ae_base_path/package) followed by dawgie.tools.compliant._verify();
an exception while scanning counts as a rejection (main() would die with a non-zero exit status).
For a sample of packages the real command line is run in a subprocess (PYTHONPATH=$VERIF_REPO/Python), directly and
through dawgie.tools.compliant.verify() with a `spawn` that drops the `--log-file=::host::port::gpghome::` argument
(it would initialise GPG/TLS and connect a Twisted log handler to a pipeline that is not there) and replaces
`python3` by the venv interpreter; dawgie.tools.submit.auto_merge_compliant is just `verify(repo, True, False, spawn)`.

Oracle (from the spec dict): accepted iff no fault was injected.  The faults are one violation each of the rules
the statement lists: factory signature (rule_01), base types (rule_02), abstract methods (rule_03), dotted names
(rule_04), empty state vector (rule_05), unpicklable value (rule_07), ill-typed reference (rule_02/08),
unresolvable reference / missing state vector (rule_06/09/11), malformed moment (rule_10).
Rule-following engines use only SV_REF/V_REF in traits()/variables() because rule_03 itself demands it.
Every accepted package is then passed to dag.Construct, version.current, schedule.build and schedule.periodics
(Clock instead of the reactor, fake dawgie.db.targets, graph rendering stubbed) and must not raise.
Events-only packages are generated in the classic style only: with registry-style scanning (base/auto) a package
without Algorithm/Analyzer/Regression classes is invisible to the scanner, to the gate and to the pipeline alike
(observed: such a package is neither verified nor loaded).  For the same reason the fault "algorithm class without the
DAWGIE base type" is injected under the base style only into packages that keep another genuine algorithm class.
'''

import itertools
import json
import os
import random
import subprocess
import sys
import time

REPO = os.environ.get('VERIF_REPO', '/repo')

import dawgie  # noqa: E402

assert dawgie.__file__.startswith(REPO + '/Python/'), dawgie.__file__

try:
    from . import _ae_gen as G
except ImportError:  # run as a plain script
    sys.path.insert(0, os.path.dirname(os.path.abspath(__file__)))
    import _ae_gen as G

import dawgie.context  # noqa: E402
import dawgie.db  # noqa: E402
import dawgie.pl.dag  # noqa: E402
import dawgie.pl.scan  # noqa: E402
import dawgie.pl.schedule  # noqa: E402
import dawgie.pl.version  # noqa: E402
import dawgie.tools.compliant  # noqa: E402
import twisted.internet  # noqa: E402
import twisted.internet.task  # noqa: E402

PROPERTY = 'C16'
BOUND = (
    'generated engine trees with <= 3 packages and <= 4 algorithms: every non-empty subset of {task, analysis, '
    'regress} x with/without events in one package x 3 package styles, events-only packages, five multi-package '
    'dependency shapes (chain, diamond with feedback, shared input, same-kind pair, 2x2 values); every single fault of '
    '40 kinds at every applicable position of the base engines (quick: three base engines - one of several packages, two one-package engines offering all three kinds -, about 430 packages; thorough: all '
    'multi-package, the events-only and nine single-package base engines in all styles, ~2800 packages); CLI exit '
    'status for a sample (5 quick / ~45 thorough)'
)

# fault kind -> clause
FAULT_CLAUSE = {}
for _c, _ks in {
    'C16.reject.signature': ('sig_count', 'sig_default', 'sig_annot'),
    'C16.reject.basetype': ('bot_base', 'alg_base', 'sv_base', 'v_base'),
    'C16.reject.abstract': ('no_list', 'no_name', 'no_inputs', 'no_svs_method', 'no_run', 'no_sv_name', 'no_view', 'no_features'),
    'C16.reject.dotted': ('dot_alg_name', 'dot_sv_name', 'dot_v_name'),
    'C16.reject.empty_sv': ('empty_sv',),
    'C16.reject.unpicklable': ('unpicklable_lambda', 'unpicklable_ctor'),
    'C16.reject.ref_type': ('ref_plain_tuple', 'ref_factory_str', 'ref_factory_object', 'ref_impl_class', 'ref_item_str', 'ref_feat_int'),
    'C16.reject.ref_resolve': ('ref_missing_feat', 'ref_missing_sv', 'ref_missing_alg', 'ref_wrong_factory'),
    'C16.reject.no_state_vectors': ('no_state_vectors',),
    'C16.reject.moment': G.EVENT_FAULTS,
}.items():
    for _k in _ks:
        FAULT_CLAUSE[_k] = _c
CLAUSES = ['C16.accept'] + sorted(set(FAULT_CLAUSE.values())) + ['C16.cli', 'C16.accepted.schedulable']

MOMENTS = (
    {'boot': True},
    {'day': [2031, 2, 3], 'time': [4, 5, 6]},
    {'dom': 28, 'time': [0, 0, 1]},
    {'dow': 6, 'time': [23, 59, 59]},
)

# ---------------------------------------------------------------------------
# rule-following engines
# ---------------------------------------------------------------------------


def _lawful_ref(consumer, target, pick):
    '''a reference the rules allow: ALG_REF only from a task (rule_03 wants SV_REF/V_REF in traits/variables)'''
    lvl = pick % 3 if consumer['kind'] == 'task' else 1 + pick % 2
    return G._ref(target, lvl, pick // 3, pick // 2)  # pylint: disable=protected-access


def _alg(pkg, kind, name, layout=0):
    lay = G.SV_LAYOUTS[layout]
    return {
        'pkg': pkg,
        'kind': kind,
        'name': name,
        'svs': [[f's{s}', [f'v{v}' for v in range(nv)]] for s, nv in enumerate(lay)],
        'inputs': [],
        'feedback': [],
    }


def single_package_engines():
    '''every non-empty subset of algorithm kinds in one package x events or not x style'''
    out = []
    n = 0
    for r in (1, 2, 3):
        for subset in itertools.combinations(G.KINDS, r):
            for with_events in (False, True):
                for style in G.STYLES:
                    algs = [_alg('p0', k, f'a{i}', (n + i) % len(G.SV_LAYOUTS)) for i, k in enumerate(subset)]
                    if n % 2:  # chain inside the package, else independent
                        for i in range(1, len(algs)):
                            algs[i]['inputs'].append(_lawful_ref(algs[i], algs[i - 1], n + i))
                    events = []
                    if with_events:
                        events = [
                            {'pkg': 'p0', 'alg': G.alg_id(a), 'moment': MOMENTS[(n + i) % 4]} for i, a in enumerate(algs)
                        ]
                    out.append({'style': style, 'algs': algs, 'events': events})
                    n += 1
    return out


def events_only_engines():
    out = []
    for i, kind in enumerate(G.KINDS):
        host = _alg('p0', kind, 'a0', i)
        out.append(
            {
                'style': 'classic',
                'algs': [host],
                'events': [
                    {'pkg': 'p1', 'alg': 'p0.a0', 'moment': MOMENTS[i]},
                    {'pkg': 'p1', 'alg': 'p0.a0', 'moment': MOMENTS[i + 1]},
                ],
            }
        )
    return out


def shaped_engines():
    '''multi-package dependency shapes, each in every style (events-only package p2 in classic only)'''
    out = []
    for style in G.STYLES:
        ev_pkg = 'p2' if style == 'classic' else 'p1'
        # diamond with a feedback reference, three kinds, events in a host and in an events-only package
        a0, a1 = _alg('p0', 'task', 'a0', 3), _alg('p0', 'analysis', 'a1')
        a2, a3 = _alg('p1', 'regress', 'a2'), _alg('p1', 'task', 'a3')
        a0['feedback'] = [['v', 'p1.a3', 's0', 'v0']]
        a1['inputs'] = [['sv', 'p0.a0', 's0']]
        a2['inputs'] = [['v', 'p0.a0', 's1', 'v0']]
        a3['inputs'] = [['alg', 'p0.a1'], ['v', 'p1.a2', 's0', 'v0']]
        out.append(
            {
                'style': style,
                'algs': [a0, a1, a2, a3],
                'events': [
                    {'pkg': 'p0', 'alg': 'p0.a1', 'moment': MOMENTS[3]},
                    {'pkg': ev_pkg, 'alg': 'p0.a0' if style == 'classic' else 'p1.a3', 'moment': MOMENTS[0]},
                    {'pkg': ev_pkg, 'alg': 'p1.a3', 'moment': MOMENTS[2]},
                ],
            }
        )
        # chain of tasks over three packages with ALG / SV / V references
        c = [_alg(f'p{i}', 'task', f'a{i}', 2) for i in range(3)]
        c[1]['inputs'] = [['alg', 'p0.a0']]
        c[2]['inputs'] = [['sv', 'p1.a1', 's1'], ['v', 'p0.a0', 's0', 'v0']]
        out.append({'style': style, 'algs': c, 'events': [{'pkg': 'p2', 'alg': 'p2.a2', 'moment': MOMENTS[1]}]})
        # shared input feeding an analysis and a regression elsewhere
        s = [_alg('p0', 'task', 'a0', 1), _alg('p1', 'analysis', 'a1'), _alg('p2', 'regress', 'a2')]
        s[1]['inputs'] = [['v', 'p0.a0', 's0', 'v1']]
        s[2]['inputs'] = [['sv', 'p0.a0', 's0']]
        s[2]['feedback'] = [['sv', 'p1.a1', 's0']]
        out.append({'style': style, 'algs': s, 'events': []})
        # two algorithms of each kind in one package, dependency inside the package
        for kind in G.KINDS:
            p = [_alg('p0', kind, 'a0', 4), _alg('p0', kind, 'a1', 0), _alg('p1', 'task', 'a2', 0)]
            p[1]['inputs'] = [_lawful_ref(p[1], p[0], 2)]
            p[2]['inputs'] = [['alg', 'p0.a1'], ['v', 'p0.a0', 's1', 'v1']]
            out.append({'style': style, 'algs': p, 'events': [{'pkg': 'p0', 'alg': 'p0.a1', 'moment': MOMENTS[0]}]})
    return out


def fault_positions(spec):
    '''every (fault kind, position) that applies to this rule-following spec'''
    style = spec['style']
    out = []
    off = G.offered(spec)
    n_factories = len({(a['pkg'], a['kind']) for a in spec['algs']})
    if style != 'auto':
        for pkg, names in sorted(off.items()):
            for k in names:
                if k == 'events':
                    out.append(('sig_count', [pkg, k]))
                    continue
                for f in ('sig_count', 'sig_default', 'sig_annot') + (('bot_base', 'no_list') if style == 'classic' else ()):
                    out.append((f, [pkg, k]))
    for a in spec['algs']:
        aid = G.alg_id(a)
        # registry-style scanning (base/auto) only sees packages that define a genuine Algorithm/Analyzer/Regression
        # class: a package whose only algorithm lost its base type is invisible to gate and pipeline alike, so the
        # fault is injected under 'base' only where a sibling class keeps the package visible
        siblings = sum(1 for b in spec['algs'] if b['pkg'] == a['pkg'])
        typed = style == 'classic' or (style == 'base' and siblings > 1)
        for f in ('no_name', 'no_inputs', 'no_svs_method', 'no_run', 'dot_alg_name', 'no_state_vectors') + (
            ('alg_base',) if typed else ()
        ):
            out.append((f, [aid]))
        for svn, vals in a['svs']:
            for f in ('sv_base', 'dot_sv_name', 'empty_sv', 'no_view', 'no_sv_name'):
                out.append((f, [aid, svn]))
            for v in vals:
                for f in ('v_base', 'dot_v_name', 'unpicklable_lambda', 'unpicklable_ctor', 'no_features'):
                    out.append((f, [aid, svn, v]))
        for which in ('inputs', 'feedback'):
            for i, r in enumerate(a.get(which, [])):
                fs = ['ref_plain_tuple', 'ref_factory_str', 'ref_factory_object', 'ref_impl_class', 'ref_missing_alg']
                if n_factories > 1:
                    fs.append('ref_wrong_factory')
                if r[0] in ('sv', 'v'):
                    fs += ['ref_item_str', 'ref_missing_sv']
                if r[0] == 'v':
                    fs += ['ref_feat_int', 'ref_missing_feat']
                for f in fs:
                    out.append((f, [aid, which, i]))
    for i, _e in enumerate(spec.get('events', [])):
        for f in G.EVENT_FAULTS:
            out.append((f, ['ev', i]))
    return out


def with_fault(spec, kind, at):
    s = json.loads(json.dumps(spec))
    s['faults'] = [{'kind': kind, 'at': at}]
    return s


def packages(tier, seed):
    '''-> list of specs (faults == [] / absent: rule-following)'''
    lawful = single_package_engines() + events_only_engines() + shaped_engines()
    shaped = shaped_engines()
    out = list(lawful)
    if tier == 'quick':
        # + two one-package engines offering all three kinds: there no other algorithm refers to the faulted one, so a
        # fault is judged by the rule it breaks alone (in the shaped engine a consumer of the faulted algorithm may trip first)
        singles = single_package_engines()
        bases = [shaped[0], singles[36], singles[41]]
    else:
        singles = single_package_engines()
        rng = random.Random(f'c16:{seed}')
        bases = shaped + events_only_engines() + [singles[i] for i in (3, 10, 17, 28, 35, 41)] + rng.sample(singles, 3)
    for b in bases:
        for kind, at in fault_positions(b):
            out.append(with_fault(b, kind, at))
    return out, len(lawful)


# ---------------------------------------------------------------------------
# running the gate and the pipeline front half
# ---------------------------------------------------------------------------


def _graph(dot, roots, _name):
    for r in roots:
        r.graph(dot)
    return b''


def gate(eng):
    '''(accepted, note, factories) : what main() of dawgie.tools.compliant computes, in process'''
    eng.activate()
    dawgie.pl.scan.REGISTRY.clear()
    dawgie.pl.scan.IGNORE.clear()
    seen = {}
    real = dawgie.pl.scan.for_factories

    def recording(ae, pkg):
        seen['f'] = real(ae, pkg)
        return seen['f']

    dawgie.pl.scan.for_factories = recording
    devnull = open(os.devnull, 'w', encoding='utf-8')  # rules chat on stdout even when silent
    old = sys.stdout
    sys.stdout = devnull
    try:
        tasks = dawgie.tools.compliant._scan()  # pylint: disable=protected-access
        ok = bool(dawgie.tools.compliant._verify(tasks, True, False))  # pylint: disable=protected-access
        return ok, f'verified {len(tasks)} package(s)', seen.get('f')
    except BaseException as e:  # pylint: disable=broad-except
        if isinstance(e, KeyboardInterrupt):
            raise
        return False, f'scan raised {type(e).__name__}: {e}', None
    finally:
        sys.stdout = old
        devnull.close()
        dawgie.pl.scan.for_factories = real


def front_half(eng, factories):
    '''graph + versions + schedule + periodics; returns None or the error'''
    eng.activate()
    dawgie.db.targets = lambda: ['T1', 'T2']
    twisted.internet.reactor = twisted.internet.task.Clock()
    del dawgie.pl.schedule.booted[:]
    try:
        dawgie.pl.dag.Construct(factories)
        flat = (
            factories[dawgie.Factories.analysis]
            + factories[dawgie.Factories.regress]
            + factories[dawgie.Factories.task]
        )
        latest = dawgie.pl.version.current(flat)
        dawgie.pl.schedule.build(factories, latest, ({}, {}, {}, {}))
        dawgie.pl.schedule.periodics(factories[dawgie.Factories.events])
        return None
    except Exception as e:  # pylint: disable=broad-except
        return f'{type(e).__name__}: {e}'


def _fault(spec):
    fs = spec.get('faults') or []
    return fs[0] if fs else None


def _sig_tail(spec):
    f = _fault(spec)
    if not f:
        return '+'.join('/'.join(v) for _k, v in sorted(G.offered(spec).items())) + ':' + spec['style']
    at = f['at']
    kind = ''
    idx = G.alg_index(spec)
    if at and at[0] in idx:
        kind = idx[at[0]]['kind']
    elif len(at) == 2 and at[0] != 'ev':
        kind = at[1]
    return f'{f["kind"]}:{kind}:{spec["style"]}'


def _worker(chunk):
    G.quiet()
    dawgie.pl.dag.Construct.graph = staticmethod(_graph)
    out = []
    with G.Workshop('c16e') as shop:
        for spec in chunk:
            eng = shop.build(spec)
            ok, note, factories = gate(eng)
            err = None
            if ok and not _fault(spec) and G.is_acyclic(spec):
                err = front_half(eng, factories) if factories else 'the gate accepted without factories'
            out.append((ok, note, err))
            eng.forget()
            shop.engines.remove(eng)
    return out


# ---------------------------------------------------------------------------
# the real command line
# ---------------------------------------------------------------------------


def _cli_env():
    return {'PYTHONPATH': REPO + '/Python', 'PATH': os.environ.get('PATH', '/usr/bin:/bin')}


def cli_start(shop, spec, via_verify):
    '''start `python -m dawgie.tools.compliant` on a freshly written (not imported) copy of the package'''
    name, path = shop.write(spec)
    if not via_verify:
        cmd = [sys.executable, '-m', 'dawgie.tools.compliant', '--ae-dir', path, '--ae-pkg', name, '--silent']
        return subprocess.Popen(cmd, env=_cli_env(), stdout=subprocess.DEVNULL, stderr=subprocess.DEVNULL)
    started = []

    def spawn(cmd):
        cmd = [sys.executable if c == 'python3' else c for c in cmd if not c.startswith('--log-file=::')]
        started.append(subprocess.Popen(cmd, env=_cli_env(), stdout=subprocess.DEVNULL, stderr=subprocess.DEVNULL))
        return True

    dawgie.context.ae_base_package = name
    dawgie.tools.compliant.verify(os.path.dirname(path), True, False, spawn)
    return started[0]


def cli_sample(tier, specs, n_lawful):
    lawful = [s for s in specs[:n_lawful]]
    faulty = specs[n_lawful:]
    pick = []
    ro = [s for s in lawful if G.offered(s) == {'p0': ['regress']}]
    eo = [s for s in lawful if ['events'] in G.offered(s).values()]
    if tier == 'quick':
        pick = [ro[0], eo[0], faulty[0], faulty[len(faulty) // 2], faulty[-1]]
    else:
        pick = ro + eo[:2] + lawful[:: max(1, len(lawful) // 12)] + faulty[:: max(1, len(faulty) // 24)]
    return pick


# ---------------------------------------------------------------------------


def run(tier: str, seed: int) -> dict:
    t0 = time.time()
    G.quiet()
    specs, n_lawful = packages(tier, seed)
    sample = cli_sample(tier, specs, n_lawful)
    procs = []
    violations, counts = {}, {}

    def note(clause, sig, inp, obs, exp):
        counts[sig] = counts.get(sig, 0) + 1
        if sig not in violations:
            violations[sig] = {'clause': clause, 'signature': sig, 'input': inp, 'observed': obs, 'expected': exp}

    with G.Workshop('c16c') as cli_shop:
        width = 5 if tier == 'quick' else 12
        pending = list(enumerate(sample))
        running = []

        def start():
            while pending and len(running) < width:
                k, spec = pending.pop(0)
                running.append((k, spec, cli_start(cli_shop, spec, k % 2 == 1)))

        # start the first subprocesses, then do the in-process work while they run
        start()
        results = G.run_cases(_worker, specs, 12 if tier == 'thorough' else 1)
        while running:
            k, spec, p = running.pop(0)
            try:
                rc = p.wait(timeout=90)
            except subprocess.TimeoutExpired:
                p.kill()
                rc = 'timeout'
            procs.append((spec, k % 2 == 1, rc))
            start()

    keys = set()
    accepted = rejected = built = 0
    for spec, (ok, msg, err) in zip(specs, results):
        keys.add(G.spec_key(spec))
        f = _fault(spec)
        accepted += ok
        rejected += not ok
        if f is None and not ok:
            note('C16.accept', 'rejected:' + _sig_tail(spec), {'spec': spec, 'how': 'inproc'}, f'rejected ({msg})', 'accepted')
        if f is not None and ok:
            note(FAULT_CLAUSE[f['kind']], 'accepted:' + _sig_tail(spec), {'spec': spec, 'how': 'inproc'}, f'accepted ({msg})', 'rejected')
        if f is None and ok:
            built += 1
            if err:
                note('C16.accepted.schedulable', 'unschedulable:' + _sig_tail(spec), {'spec': spec, 'how': 'inproc'}, err, 'Construct, build and periodics succeed')
    timeouts = 0
    for spec, via_verify, rc in procs:
        f = _fault(spec)
        if rc == 'timeout':  # an overloaded machine is not a verdict of the gate
            timeouts += 1
            continue
        if (rc == 0) != (f is None):
            note(
                'C16.cli',
                ('cli-rejected:' if f is None else 'cli-accepted:') + _sig_tail(spec),
                {'spec': spec, 'how': 'verify' if via_verify else 'cli'},
                f'exit status {rc}',
                'exit status 0' if f is None else 'non-zero exit status',
            )
    out = list(violations.values())
    for v in out:
        v['count'] = counts[v['signature']]
    return {
        'cases': len(specs) + len(procs),
        'distinct': len(keys),
        'rule': (
            'one case = one generated package tree put through compliant._scan + compliant._verify in process '
            f'({n_lawful} rule-following trees: accepted ones also through Construct/current/build/periodics; '
            f'{len(specs) - n_lawful} trees = a base engine + one fault at one position), plus {len(procs)} runs of the '
            'real command line (half of them through compliant.verify with a spawn that drops the --log-file handshake); '
            f'distinct = distinct spec dicts; in process: {accepted} accepted, {rejected} rejected, {built} scheduled'
        ),
        'exhaustive': True,
        'exhaustive_part': 'the listed base engines x every fault kind x every applicable position (nothing sampled except the CLI runs and, in thorough, 3 seeded extra base engines)',
        'cli_timeouts': timeouts,
        'samples': [specs[0], specs[n_lawful - 1], specs[n_lawful], specs[-1]],
        'violations': out,
        'clauses': CLAUSES,
        'seconds': round(time.time() - t0, 2),
    }


def replay(case: dict) -> dict:
    inp = case.get('input', case)
    spec = inp['spec']
    f = _fault(spec)
    G.quiet()
    if inp.get('how', 'inproc') == 'inproc':
        ok, msg, err = _worker([spec])[0]
        if case.get('clause') == 'C16.accepted.schedulable':
            return {'reproduced': bool(err), 'observed': err, 'expected': 'Construct, build and periodics succeed'}
        return {
            'reproduced': ok != (f is None),
            'observed': ('accepted' if ok else 'rejected') + f' ({msg})',
            'expected': 'accepted' if f is None else 'rejected',
        }
    with G.Workshop('c16r') as shop:
        p = cli_start(shop, spec, inp['how'] == 'verify')
        try:
            rc = p.wait(timeout=120)
        except subprocess.TimeoutExpired:
            p.kill()
            rc = 'timeout'
    return {
        'reproduced': (rc == 0) != (f is None),
        'observed': f'exit status {rc}',
        'expected': 'exit status 0' if f is None else 'non-zero exit status',
    }


if __name__ == '__main__':
    print(json.dumps(run(sys.argv[1] if len(sys.argv) > 1 else 'quick', 0))[:3000])
