'''C09 - the derived task graph is faithful to the declared dependencies (bounded run-time harness).

Synthetic algorithm engines are generated as real Python packages (harness/_ae_gen.py), their factories are
collected (dawgie.pl.scan.for_factories, or read directly off the modules) and handed to the real
dawgie.pl.dag.Construct.  What comes out (at / svt / tt / vt trees, ancestry, parents, feedbacks) is compared
with the graph computed from the spec dict alone (_ae_gen.declared_graph).

Graphviz: `dot` is available here, but rendering four svg files per Construct costs ~0.2 s, so pydot.Dot.write
is replaced by a stub that writes the dot text (Node.graph, which assigns the levels, still runs); a few sample
engines per run go through the real renderer.
'''

import json
import os
import random
import shutil
import signal
import sys
import tempfile
import time

REPO = os.environ.get('VERIF_REPO', '/repo')

import dawgie  # noqa: E402

assert dawgie.__file__.startswith(REPO + '/Python/'), dawgie.__file__

try:
    from . import _ae_gen as G
except ImportError:  # run as a plain script
    sys.path.insert(0, os.path.dirname(os.path.abspath(__file__)))
    import _ae_gen as G

import dawgie.context  # noqa: E402
import dawgie.pl.dag  # noqa: E402
import dawgie.pl.scan  # noqa: E402

PROPERTY = 'C09'
BOUND = (
    'acyclic engines with <= 4 algorithms (task/analysis/regress) over <= 3 packages, <= 2 state vectors x <= 2 '
    'values each, inputs at ALG_REF/SV_REF/V_REF level, <= 2 feedback references, three package styles; every '
    'DAG x package-partition skeleton with <= 3 algorithms and every 4-algorithm DAG (45 + 64; thorough: x every kind '
    'assignment resp. x every partition, 1119 + 896) with the other attributes cycled, plus seeded random engines (300 quick / 10^4 thorough); '
    'directed part (both tiers, enumerated): every non-empty DAG x partition with 2-3 algorithms (37) with names that are string prefixes '
    'of one another (algorithms cal/cal_fit/cal_fit_x, alternately also packages t/t1/t12, state vectors s/s1, values v/v1), and every '
    '3-algorithm DAG x partition (40) with two feedback references from different consumers (thorough: + the 64 4-algorithm DAGs of each kind), '
    'and every 2-3 algorithm DAG (thorough: + 4) with ONE algorithm name used by all packages, with one and with two feedback references'
)
CLAUSES = [
    'C09.construct',
    'C09.nodes',
    'C09.edges',
    'C09.parents',
    'C09.ancestry',
    'C09.feedback.noedge',
    'C09.feedbacks',
    'C09.feedback.attr',
]
TREES = {2: 'at', 3: 'svt', 1: 'tt', 4: 'vt'}

# ---------------------------------------------------------------------------
# oracle comparison
# ---------------------------------------------------------------------------


def _walk(roots):
    '''every Node object reachable from roots through child links (by identity)'''
    seen = {}
    todo = list(roots)
    while todo:
        n = todo.pop()
        if id(n) not in seen:
            seen[id(n)] = n
            todo.extend(list(n))
    return list(seen.values())


def compare(spec, construct):
    '''list of (clause, signature, observed, expected) where Construct disagrees with the declarations'''
    want = G.declared_graph(spec)
    fed_by_alg = {}
    for v, consumers in want['fed'].items():
        for c in consumers:
            fed_by_alg.setdefault(c, set()).add(v)
    bad = []
    for g, attr in TREES.items():
        nodes = _walk(getattr(construct, attr))
        tags = sorted(n.tag for n in nodes)
        if tags != sorted(want['nodes'][g]):
            bad.append(('C09.nodes', f'nodes:{attr}', tags, sorted(want['nodes'][g])))
            continue
        kids = {c: set() for c in want['nodes'][g]}
        pars = {c: set() for c in want['nodes'][g]}
        for p, c in want['edges'][g]:
            if g == 1 and p == c:
                continue  # two algorithms of one package: not an edge between tasks
            kids[p].add(c)
            pars[c].add(p)
        for n in nodes:
            got = [c.tag for c in n if not (g == 1 and c.tag == n.tag)]
            if len(got) != len(set(got)):
                bad.append(('C09.edges', f'edges:{attr}:duplicate', sorted(got), sorted(kids[n.tag])))
            elif set(got) != kids[n.tag]:
                extra = set(got) - kids[n.tag]
                clause, word = 'C09.edges', 'extra' if extra else 'missing'
                # an extra edge from a value the child only declares as feedback
                for c in extra:
                    fedv = {G.trim(v, g) for v in fed_by_alg.get(G.trim(c, 2), ())}
                    if n.tag in fedv:
                        clause, word = 'C09.feedback.noedge', 'feedback'
                bad.append((clause, f'edges:{attr}:{word}', {n.tag: sorted(got)}, {n.tag: sorted(kids[n.tag])}))
            parents = n.get('parents')
            if parents is not None:
                got = sorted(p.tag for p in parents)
                if got != sorted(pars[n.tag]):
                    bad.append(('C09.parents', f'parents:{attr}', {n.tag: got}, {n.tag: sorted(pars[n.tag])}))
            anc = n.get('ancestry')
            if anc is not None:
                exp = want['anc'][g][n.tag]
                if set(anc) != exp:
                    fedv = {G.trim(v, g) for v in fed_by_alg.get(G.trim(n.tag, 2), ())}
                    via_fb = bool((set(anc) - exp) & fedv)
                    word = 'extra' if set(anc) - exp else 'missing'
                    bad.append(
                        (
                            'C09.feedback.noedge' if via_fb else 'C09.ancestry',
                            f'ancestry:{attr}:{"feedback" if via_fb else word}',
                            {n.tag: sorted(anc)},
                            {n.tag: sorted(exp)},
                        )
                    )
            elif g in (2, 4):
                bad.append(('C09.ancestry', f'ancestry:{attr}:absent', {n.tag: None}, {n.tag: sorted(want['anc'][g][n.tag])}))
            # the node's own feedback attribute: exactly the producers its algorithm(s) declare as fed back
            fbs = n.get('feedback')
            got = sorted(f.tag for f in fbs) if fbs else []
            exp = sorted(want['fb'][g][n.tag])
            if got != exp:
                word = 'extra' if set(got) - set(exp) else 'missing'
                bad.append(('C09.feedback.attr', f'feedback-attr:{attr}:{word}', {n.tag: got}, {n.tag: exp}))
    fbs = construct.feedbacks
    if sorted(fbs) != sorted(want['fed']):
        bad.append(('C09.feedbacks', 'feedbacks:keys', sorted(fbs), sorted(want['fed'])))
    else:
        for v, consumer in fbs.items():
            if G.trim(consumer, 2) not in want['fed'][v] or consumer not in want['nodes'][4]:
                bad.append(('C09.feedbacks', 'feedbacks:consumer', {v: consumer}, {v: sorted(want['fed'][v])}))
    return bad


class _TooLong(BaseException):
    pass


def _alarm(*_):
    raise _TooLong()


def check(shop, spec, via, real_dot=None):
    '''build one engine, run Construct, compare; returns list of violation tuples

    A hang is only reported when the same case overruns twice (2 s, then 4 s of CPU time of this process): on an
    overcommitted VM a single overrun of a trivial case was observed right after forking 16 workers.'''
    res = None
    for limit in (2, 4):
        res = _check_once(shop, spec, via, real_dot, limit)
        if not (res and res[0][1] == 'construct:hang'):
            break
    return res


def _check_once(shop, spec, via, real_dot, limit):
    eng = shop.build(spec)
    signal.signal(signal.SIGVTALRM, _alarm)
    signal.setitimer(signal.ITIMER_VIRTUAL, limit)
    try:
        try:
            factories = eng.scan() if via == 'scan' else eng.direct()
            eng.activate()
            if real_dot:
                real_dot(True)
            try:
                construct = dawgie.pl.dag.Construct(factories)
            finally:
                if real_dot:
                    real_dot(False)
        except Exception as e:  # pylint: disable=broad-except
            return [('C09.construct', f'construct:{type(e).__name__}', repr(e), 'a task graph')]
        if real_dot:
            for blob in (construct.av, construct.svv, construct.tv, construct.vv):
                if b'<svg' not in blob:
                    return [('C09.construct', 'construct:svg', blob[:80].decode('latin1'), 'an svg rendering')]
        return compare(spec, construct)
    except _TooLong:
        return [('C09.construct', 'construct:hang', f'no result after {limit} s of CPU time (second attempt)', 'a task graph')]
    finally:
        signal.setitimer(signal.ITIMER_VIRTUAL, 0)
        eng.forget()
        shop.engines.remove(eng)


# ---------------------------------------------------------------------------
# case generation
# ---------------------------------------------------------------------------


def _cycled(idx, edges, parts, kinds=None, names=None, two_feedbacks=False):
    '''attributes that are not enumerated are drawn from a generator fixed by the case index (not the seed)'''
    rng = random.Random(7919 * idx + 13)
    n = len(parts)
    fb = None
    if n > 1 and idx % 3 != 2:
        i = rng.randrange(0, n - 1)
        fb = (i, rng.randrange(i + 1, n), rng.randrange(3), rng.randrange(2), rng.randrange(2))
    if two_feedbacks and n > 2:
        # two consumers (0 and 1), producers later in the order, reference levels cycled
        fb = [
            (0, 1 + idx % 2, rng.randrange(3), rng.randrange(2), rng.randrange(2)),
            (1, 2, rng.randrange(3), rng.randrange(2), rng.randrange(2)),
        ]
    return G.make_spec(
        edges,
        parts,
        kinds or [rng.choice(G.KINDS) for _ in range(n)],
        [rng.randrange(len(G.SV_LAYOUTS)) for _ in range(n)],
        [(rng.randrange(3), rng.randrange(2), rng.randrange(2)) for _ in edges] or [(0, 0, 0)],
        feedback=fb,
        style=G.STYLES[idx % 3],
        double={k for k in range(len(edges)) if rng.random() < 0.2},
        names=names,
    )


def cases(tier, seed):
    import itertools

    out = []
    idx = 0
    for n in (1, 2, 3):
        for edges in G.dags(n):
            for parts in G.partitions(n):
                if tier == 'thorough':
                    for kinds in itertools.product(G.KINDS, repeat=n):
                        out.append(('enum', _cycled(idx, edges, parts, list(kinds))))
                        idx += 1
                else:
                    out.append(('enum', _cycled(idx, edges, parts)))
                    idx += 1
    p4 = G.partitions(4)
    for k, edges in enumerate(G.dags(4)):
        for parts in p4 if tier == 'thorough' else [p4[k % len(p4)]]:
            out.append(('enum', _cycled(idx, edges, parts)))
            idx += 1
    # directed: names that are string prefixes of one another; two feedback references
    namesets = [G.NAMESETS['alg-prefix'], G.NAMESETS['all-prefix']]
    for n in (2, 3, 4) if tier == 'thorough' else (2, 3):
        pn = G.partitions(n)
        for k, edges in enumerate(G.dags(n)):
            if not edges:
                continue
            for parts in pn if n < 4 else [pn[k % len(pn)]]:
                out.append(('enum', _cycled(idx, edges, parts, names=namesets[idx % 2])))
                idx += 1
    for n in (3, 4) if tier == 'thorough' else (3,):
        pn = G.partitions(n)
        for k, edges in enumerate(G.dags(n)):
            for parts in pn if n < 4 else [pn[k % len(pn)]]:
                out.append(('enum', _cycled(idx, edges, parts, two_feedbacks=True)))
                idx += 1
    # directed: the same algorithm name in every package (identity is package.algorithm), one and two feedback references
    for n in (2, 3, 4) if tier == 'thorough' else (2, 3):
        parts = list(range(n))
        for k, edges in enumerate(G.dags(n)):
            for two in (False, True):
                out.append(('enum', _cycled(idx, edges, parts, names=G.NAMESETS['same-alg'], two_feedbacks=two)))
                idx += 1
    n_enum = len(out)
    total = 10000 if tier == 'thorough' else n_enum + 300
    k = 0
    while len(out) < total:
        rng = random.Random(f'c09:{seed}:{k}')
        out.append(('rand', G.random_spec(rng, nmax=4, nmin=2)))
        k += 1
    res = []
    for i, (how, spec) in enumerate(out):
        via = 'scan' if spec['style'] == 'auto' or i % 2 == 0 else 'direct'
        dots = (n_enum // 2,) if tier == 'quick' else (0, n_enum // 2, n_enum)
        res.append({'spec': spec, 'via': via, 'how': how, 'real_dot': i in dots})
    return res, n_enum


_DEADLINE = [None]


def _worker(chunk):
    G.quiet()
    tmp = tempfile.mkdtemp(prefix='verif_c09_fe_')
    restore = G.stub_graphviz(tmp)
    out = []
    try:
        with G.Workshop('c09e') as shop:
            for case in chunk:
                if _DEADLINE[0] and time.time() > _DEADLINE[0]:
                    out.append(None)
                    continue
                out.append(check(shop, case['spec'], case['via'], restore if case['real_dot'] else None))
    finally:
        shutil.rmtree(tmp, ignore_errors=True)
    return out


def run(tier: str, seed: int) -> dict:
    t0 = time.time()
    todo, n_enum = cases(tier, seed)
    _DEADLINE[0] = t0 + (12 if tier == 'quick' else 240)
    results = G.run_cases(_worker, todo, 16 if tier == 'thorough' else 1)
    violations, seen, counts = [], {}, {}
    done = 0
    keys = set()
    for case, res in zip(todo, results):
        if res is None:
            continue
        done += 1
        keys.add(G.spec_key(case['spec']))
        for clause, sig, obs, exp in res:
            counts[sig] = counts.get(sig, 0) + 1
            if sig not in seen:
                seen[sig] = True
                violations.append(
                    {
                        'clause': clause,
                        'signature': sig,
                        'input': {'spec': case['spec'], 'via': case['via']},
                        'observed': obs,
                        'expected': exp,
                    }
                )
    for v in violations:
        v['count'] = counts[v['signature']]
    return {
        'cases': done,
        'distinct': len(keys),
        'rule': (
            'one case = one generated engine package imported and passed to dag.Construct; enumerated part: every '
            'edge set over a fixed topological order x every spread over <= 3 packages for 1-3 algorithms '
            'and every 4-algorithm edge set (thorough: x every kind assignment resp. x every partition), remaining attributes (kinds, '
            'state-vector layouts, reference level per edge, doubled references, one feedback reference, package '
            'style, scan vs direct factories) fixed by the case index; directed part: the same skeletons with '
            'prefix-related names (every non-empty 2-3 algorithm DAG x partition) and with two feedback references '
            '(every 3-algorithm DAG x partition); for every node of every tree the feedback attribute is compared '
            'with the declared fed-back producers of that node; sampled part: seeded random engines with '
            '2-4 algorithms; distinct = distinct spec dicts'
        ),
        'exhaustive': False,
        'exhaustive_part': f'{n_enum} enumerated skeleton cases (independent of the seed), all run',
        'truncated': done < len(todo),
        'graphviz': 'real `dot` for 1 (quick) / 3 (thorough) sample engines, stubbed pydot.Dot.write (dot text instead of svg) for the rest',
        'samples': [{'spec': c['spec'], 'via': c['via']} for c in (todo[0], todo[n_enum // 2], todo[n_enum], todo[-1])],
        'violations': violations,
        'clauses': CLAUSES,
        'seconds': round(time.time() - t0, 2),
    }


def replay(case: dict) -> dict:
    inp = case.get('input', case)
    G.quiet()
    tmp = tempfile.mkdtemp(prefix='verif_c09_fe_')
    G.stub_graphviz(tmp)
    try:
        with G.Workshop('c09r') as shop:
            res = check(shop, inp['spec'], inp.get('via', 'scan'))
    finally:
        shutil.rmtree(tmp, ignore_errors=True)
    want = case.get('clause')
    hit = [r for r in res if want is None or r[0] == want]
    return {
        'reproduced': bool(hit),
        'observed': hit[0][2] if hit else 'graph matches the declarations',
        'expected': hit[0][3] if hit else 'graph matches the declarations',
    }


if __name__ == '__main__':
    print(json.dumps(run(sys.argv[1] if len(sys.argv) > 1 else 'quick', 0))[:3000])
