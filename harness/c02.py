'''C02  Reprocessing after a change is complete and minimal  (bounded run-time harness).

Per report (every success reply applied through farm.Hand._res, values `run.target.task.alg.sv.val`, any subset
of {p, q} flagged new), with dependents computed from the value-level input declarations of the synthetic engine:

* C02.complete   every DIRECT dependent D that declares one of the values reported new as input gets the
                 affected target(s) pending: todo'(D) == todo(D) + {T}  ('__all__' if D is an analysis; every
                 known target if the reporter is an analysis), doing(D) unchanged;
* C02.minimal    every other algorithm's todo/doing is unchanged (the reporter's own todo too);
* C02.minimal-run  (whole history) a unit is released only if it was requested (run request / timer / new
                 version at load) or one of its declared inputs was reported new for that target since its last
                 release - ledger of justifications kept beside the real code;
* C02.closure    (whole history) every unit made due by a report is released AFTER that report, unless a later
                 failure/invalid of one of its transitive upstream algorithms for that target withdrew it (C05);
                 checked whenever the pipeline is idle (nothing pending or in flight => nothing will run any more)
                 and at the end of every history run to quiescence;
* C02.from-scratch  (the "consequently" sentence, APPROXIMATED): data-flow runs in which the simulated workers
                 compute synthetic outputs  content(D,T,v) = H(D, T, v, contents of D's declared inputs as
                 stored when the worker read them)  and report a value new iff that content was never stored for
                 that name before (what the real store does by digest); roots get fresh content for any subset
                 of their values before being re-requested.  The store is a dict in the harness - NOT the real
                 shelve database - and every reply is a success.  At quiescence the stored contents must equal a
                 from-scratch evaluation in dependency order on the final root data.
'''

import hashlib
import random
import time

from . import _sched_sim as X

PROPERTY = 'C02'
BOUND = (
    X.BOUND_TEXT
    + '; plus data-flow runs (synthetic outputs = function of inputs, harness-side store, success-only replies): '
    'quick 2 per curated graph x {1,2 targets}, thorough 3 per universe, 10..30 external '
    'events each (root changes with any subset of values, re-requests, completions in random order), then '
    'run to quiescence and compared with a from-scratch evaluation; plus the worker side of a report: the real '
    'worker.Context.run around a task that recorded every sequence of <= 3 (value, is new) pairs over two names (84 cases); '
    'a task tree that lacks a declared consumer is reported as such (consumer-not-in-task-tree)'
)
CLAUSES = ['C02.complete', 'C02.minimal', 'C02.minimal-run', 'C02.closure', 'C02.from-scratch']


def _fz(d):
    return frozenset((k, frozenset(v)) for k, v in d.items() if v)


class Mon(X.Monitor):
    '''ghost: just[tag] = targets with an unconsumed cause to run; obl = units due because of a report;
    self_lost = due units withdrawn by the failure of their OWN (older) execution; purged = see X.purged_in_flight'''

    TREE_CLAUSE = 'C02.complete'

    def reset(self):
        u = self.u
        self.just = {}
        for i in u.init:
            self.just[self.spec.tags[i]] = self._all(i)
        self.obl = frozenset()
        self.self_lost = frozenset()
        self.purged = frozenset()

    def _all(self, i):
        return {X.ALL} if self.spec.is_analysis(i) else set(self.u.targets)

    def state(self):
        return ({k: set(v) for k, v in self.just.items()}, self.obl, self.self_lost, self.purged)

    def restore(self, st):
        self.just = {k: set(v) for k, v in st[0].items()}
        self.obl, self.self_lost, self.purged = st[1], st[2], st[3]

    def key(self):
        return (_fz(self.just), self.obl, self.self_lost, self.purged)

    def after(self, sim, ev, rec):
        out = X.common_violations(PROPERTY, rec)
        spec = self.spec
        pre, post = rec['pre']['nodes'], rec['post']['nodes']
        kind = ev[0]
        if kind == 'run':
            i = ev[1]
            tg = self._all(i) if (spec.is_analysis(i) or X.ALL in ev[2]) else set(ev[2])
            self.just.setdefault(spec.tags[i], set()).update(tg)
        elif kind == 'timer':
            self.just.setdefault(spec.tags[ev[1]], set()).update(self._all(ev[1]))
        elif kind == 'tick':
            released = []
            for b in rec['trace']['njb']:
                released.extend(b['released'])
            for tag, t in released:
                if t not in self.just.get(tag, set()):
                    out.append(
                        {
                            'clause': 'C02.minimal-run',
                            'signature': 'unit-run-without-request-or-new-input',
                            'observed': {'released': [tag, t], 'causes_on_record': sorted(self.just.get(tag, []))},
                            'expected': 'a run request, timer, new version, or a declared input reported new',
                        }
                    )  # fmt: skip
                self.just.get(tag, set()).discard(t)
            self.obl = self.obl - set(released)
            self.self_lost = self.self_lost - set(released)
        elif kind == 'reply':
            r = rec['reply']
            xtag, T = r['unit']
            x = spec.index[xtag]
            if r['state'] == 'success':
                new = set(r['outcome'][1:])
                dd = spec.direct_dependents(x, new)
                problems, extra = {}, {}
                # a reply that never reached schedule.complete is reported once (C02.complete, with the
                # signature of its cause); no whole-history obligations are derived from it
                dropped = not rec['trace']['complete']
                for j, tag in enumerate(spec.tags):
                    a_todo, b_todo = set(pre[tag]['todo']), set(post[tag]['todo'])
                    a_do, b_do = set(pre[tag]['doing']), set(post[tag]['doing'])
                    if j in dd:
                        aff = {X.ALL} if spec.is_analysis(j) else (set(self.u.targets) if T == X.ALL else {T})
                        if b_todo != a_todo | aff or a_do != b_do:
                            problems[tag] = {'todo': [sorted(a_todo), sorted(b_todo)],
                                             'doing': [sorted(a_do), sorted(b_do)], 'due': sorted(aff)}  # fmt: skip
                        if not dropped:
                            self.just.setdefault(tag, set()).update(aff)
                            self.obl = self.obl | {(tag, t) for t in aff}
                    elif j == x:
                        if a_todo != b_todo:
                            extra[tag] = {'todo': [sorted(a_todo), sorted(b_todo)]}
                    elif a_todo != b_todo or a_do != b_do:
                        extra[tag] = {'todo': [sorted(a_todo), sorted(b_todo)],
                                      'doing': [sorted(a_do), sorted(b_do)]}  # fmt: skip
                if problems:
                    out.append(
                        {
                            'clause': 'C02.complete',
                            'signature': X.dropped_signature(rec, self.purged, 'dependent-not-made-pending'),
                            'observed': {'report': [xtag, T, sorted(new)], 'dependents': problems,
                                         'update_calls': rec['trace']['update']},
                            'expected': 'each direct dependent declaring a new value gets the target(s) pending',
                        }
                    )  # fmt: skip
                if extra:
                    out.append(
                        {
                            'clause': 'C02.minimal',
                            'signature': 'algorithm-without-new-input-changed',
                            'observed': {'report': [xtag, T, sorted(new)], 'changed': extra},
                            'expected': 'algorithms none of whose inputs were reported new are unchanged',
                        }
                    )
            else:
                gone = {(spec.tags[j], T) for j in spec.downstream(x)}
                self.obl = self.obl - gone
                self.self_lost = self.self_lost - gone
                if (xtag, T) in self.obl and T in pre[xtag]['todo'] and T not in post[xtag]['todo']:
                    self.self_lost = self.self_lost | {(xtag, T)}
        self.purged = X.purged_in_flight(rec, self.purged)
        if self.obl and sim.is_idle():
            lost = sorted(self.obl & self.self_lost)
            other = sorted(self.obl - self.self_lost)
            if lost:
                out.append(
                    {
                        'clause': 'C02.closure',
                        'signature': 'own-failure-withdraws-requeued-target',
                        'observed': {'never_run_after_report': lost, 'at': ev},
                        'expected': 'the unit made due by an upstream report runs after that report (the failure '
                        'of its older execution, started before the report, does not cancel it)',
                    }
                )
            if other:
                out.append(
                    {
                        'clause': 'C02.closure',
                        'signature': 'dependent-never-run-after-report',
                        'observed': {'never_run_after_report': other, 'at': ev},
                        'expected': 'every unit made due by a report is released after it',
                    }
                )
        return out


def _job(job):
    res = X.explore_job(job, Mon)
    if job.get('dataflow'):
        u = X.Universe.from_json(job['universe'])
        for k in range(job['dataflow']):
            if time.time() > job['deadline']:
                res.truncated = True
                break
            v = dataflow_case(u, 'df|%s|%s|%d' % (job.get('seed', 0), u.label(), k), job.get('df_events', 12), res)
            if k == 0 and job.get('sample') and v is not None:
                res.samples.append(v)
    return res


# ---- data-flow approximation of the "from scratch" sentence -------------------------------------------------


def _H(*parts):
    return hashlib.sha1(repr(parts).encode()).hexdigest()[:12]


class Flow:
    def __init__(self, u):
        self.u = u
        self.spec = u.spec
        self.store = {}
        self.seen = {}
        self.root = {}
        self.early = {}

    def unit_targets(self, i):
        return [X.ALL] if self.spec.is_analysis(i) else list(self.u.targets)

    def read_inputs(self, j, t, store):
        spec = self.spec
        res = []
        for name in sorted(spec.inputs(j)):
            utag, _sv, v = name.rsplit('.', 2)
            i = spec.index[utag]
            if spec.is_analysis(i):
                res.append((name, store.get((utag, X.ALL, v))))
            elif t == X.ALL:
                res.append((name, tuple(store.get((utag, tt, v)) for tt in self.u.targets)))
            else:
                res.append((name, store.get((utag, t, v))))
        return res

    def compute(self, j, t, inputs):
        tag = self.spec.tags[j]
        if not self.spec.inputs(j):
            return {v: _H('root', tag, t, v, self.root.get((tag, t, v), 0)) for v in X.VALUES}
        return {v: _H(tag, t, v, inputs) for v in X.VALUES}

    def from_scratch(self):
        store = {}
        for j in range(self.spec.n):  # indices are a topological order
            for t in self.unit_targets(j):
                out = self.compute(j, t, self.read_inputs(j, t, store))
                for v, c in out.items():
                    store[(self.spec.tags[j], t, v)] = c
        return store


def dataflow_case(u, seed_str, n_events, result):
    '''one data-flow history, fully determined by (universe, seed string, number of external events);
    returns the (JSON-able) case, adds violations to result'''
    if not u.targets:
        return None
    rng = random.Random(seed_str)
    special = {'special': 'dataflow', 'seed_str': seed_str, 'events': n_events}
    sim = X.Sim(u)
    if sim.tree_defects:      # reported by the event exploration of the same universe (consumer-not-in-task-tree)
        sim.close()
        return None
    mon = Mon(u)
    mon.reset()
    fl = Flow(u)
    spec = u.spec
    hist = []
    roots = [i for i in range(spec.n) if not spec.inputs(i)]

    def do(ev, note=None):
        rec = sim.step(ev)
        result.cases += 1
        hist.append(ev if note is None else ev + [note])
        for v in mon.after(sim, ev, rec):
            result.add_violation(u, hist, v, special)
        return rec

    def change_root(i, t, subset):
        tag = spec.tags[i]
        for v in subset:
            fl.root[(tag, t, v)] = fl.root.get((tag, t, v), 0) + 1
        return do(['run', i, [t]], {'changed': sorted(subset)})

    def tick():
        rec = do(['tick'])
        for tag, t, rid in rec['handed']:
            if rng.random() < 0.5:  # this worker reads its inputs right away, the others when they finish
                fl.early[(tag, t, rid)] = fl.read_inputs(spec.index[tag], t, fl.store)

    def reply(m):
        tag, t = X.unit_of(m)
        j = spec.index[tag]
        inputs = fl.early.pop((tag, t, m.runid), None)
        if inputs is None:
            inputs = fl.read_inputs(j, t, fl.store)
        out = fl.compute(j, t, inputs)
        new = ''
        for v in X.VALUES:
            k = (tag, t, v)
            if out[v] not in fl.seen.setdefault(k, set()):
                new += v
                fl.seen[k].add(out[v])
            fl.store[k] = out[v]
        cands = sorted(
            [x for x in sim.running if X.unit_of(x) == (tag, t)],
            key=lambda x: (x.jobid, x.target or X.ALL, x.runid),
        )
        do(['reply', tag, t, cands.index(m), 'S' + new])

    try:
        # initial population: every root, every target, everything new
        for i in roots:
            for t in fl.unit_targets(i):
                change_root(i, t, X.VALUES)
        for _ in range(n_events):
            x = rng.random()
            if x < 0.25:
                i = rng.choice(roots)
                t = rng.choice(fl.unit_targets(i))
                subset = [v for v in X.VALUES if rng.random() < 0.6]
                change_root(i, t, subset)
            elif x < 0.35:
                i = rng.randrange(spec.n)
                do(['run', i, [rng.choice(fl.unit_targets(i))]])
            elif x < 0.65 or not sim.running:
                tick()
            else:
                reply(rng.choice(sorted(sim.running, key=lambda m: (m.jobid, m.target or X.ALL, m.runid))))
        steps = 0
        while not sim.is_idle() and steps < 600:
            steps += 1
            if sim.running and rng.random() < 0.6:
                reply(rng.choice(sorted(sim.running, key=lambda m: (m.jobid, m.target or X.ALL, m.runid))))
            else:
                key0 = sim.key()
                tick()
                if sim.key() == key0 and not sim.running:
                    break
        do(['expect-idle'])
        case = dict({'universe': u.to_json(), 'history': [list(e) for e in hist]}, **special)
        if sim.is_idle():
            want = fl.from_scratch()
            diff = {
                '.'.join(k): [fl.store.get(k), want.get(k)]
                for k in sorted(set(want) | set(fl.store))
                if fl.store.get(k) != want.get(k)
            }
            if diff:
                result.add_violation(
                    u, hist,
                    {
                        'clause': 'C02.from-scratch',
                        'signature': 'stale-or-missing-result-at-quiescence',
                        'observed': {'stored_vs_from_scratch': diff},
                        'expected': 'stored contents equal a from-scratch run in dependency order',
                    },
                    special,
                )  # fmt: skip
        result.walks += 1
        return case
    finally:
        sim.close()


# ---- the worker's side of a report ------------------------------------------------------------------------------
def worker_report_check(recorded):
    '''the real dawgie.pl.worker.Context.run around a task that recorded the given (value name, is new) pairs - one per
    ds.update() of each value, so a name may occur several times; returns a violation dict or None'''
    import dawgie.pl.version
    import dawgie.pl.worker

    class _Task:
        def __init__(self):
            self._nv = [tuple(x) for x in recorded]

        def do(self, goto=None):
            return None

        def timing(self):
            return {}

        def new_values(self, value=None):
            return self._nv

    def task(prefix, ps_hint=0, runid=-1, target='__none__'):
        return _Task()

    saved = dawgie.pl.version.record
    dawgie.pl.version.record = lambda *a, **k: None
    try:
        got = dawgie.pl.worker.Context(('localhost', 0), 'rev').run(task, 0, 't.a', 3, 'T1', {})
        got = [tuple(x) for x in got]
    except Exception as e:  # pylint: disable=broad-except
        got = [('raised', repr(e))]
    finally:
        dawgie.pl.version.record = saved
    new = lambda pairs: sorted({n for n, f in pairs if f is True})  # noqa: E731
    names = lambda pairs: sorted({n for n, _f in pairs})  # noqa: E731
    if new(got) != new(recorded) or names(got) != names(recorded):
        return {
            'clause': 'C02.complete', 'signature': 'worker-report-differs-from-what-the-task-recorded',
            'observed': {'recorded_by_task': [list(x) for x in recorded], 'reported_to_farm': [list(x) for x in got]},
            'expected': 'every value the task authored is reported, and reported new when one of its updates was new',
            'input': {'special': 'worker-report', 'recorded': [list(x) for x in recorded]},
        }
    return None


def worker_report_part():
    '''every sequence of <= 3 update records over two value names x {new, not new}'''
    import itertools

    atoms = [(n, f) for n in ('t.a.sv.p', 't.a.sv.q') for f in (True, False)]
    cases, found = 0, {}
    for k in (1, 2, 3):
        for rec in itertools.product(atoms, repeat=k):
            cases += 1
            v = worker_report_check(list(rec))
            if v is not None and v['signature'] not in found:
                found[v['signature']] = v
    return cases, list(found.values())


def special_replay(inp):
    '''re-run a data-flow case from its seed string; returns the violations seen'''
    res = X.Result()
    dataflow_case(X.Universe.from_json(inp['universe']), inp['seed_str'], inp['events'], res)
    return [{k: v for k, v in x.items() if not k.startswith('_')} for x in res.found.values()]


CFG = {'outcomes': ['S', 'Sp', 'Sq', 'Spq', 'F', 'I']}
WALK_CFG = {'run_all': True, 'timers': True, 'run_empty': True}
OUTCOMES = ['S', 'Sp', 'Sq', 'Spq', 'F', 'I']


def run(tier, seed):
    t0 = time.time()
    deadline = t0 + (14 if tier == 'quick' else 230)
    jobs = X.tier_jobs(
        tier, seed, deadline, CFG, WALK_CFG, drain=OUTCOMES,
        depth_delta=0, walks_quick=4,
    )  # fmt: skip
    for n, j in enumerate(jobs):
        u = j['universe']
        if tier == 'quick':
            j['dataflow'] = 2 if (u['workers'] == 2 and u['targets']) else 0
            j['df_events'] = 12
        else:
            j['dataflow'] = 3
            j['df_events'] = 10 + 5 * (n % 5)
    out = X.run_tier(PROPERTY, tier, seed, jobs, _job, Mon, X.RULE, CLAUSES, t0, special=special_replay)
    n, viol = worker_report_part()
    out['cases'] += n
    out['worker_report_cases'] = n
    out['violations'] = list(out['violations']) + viol
    return out


def replay(case):
    inp = case.get('input', case)
    if inp.get('special') == 'worker-report':
        v = worker_report_check([tuple(x) for x in inp['recorded']])
        if v is not None:
            return {'reproduced': True, 'observed': v['observed'], 'expected': v['expected']}
        return {'reproduced': False, 'observed': 'the report equals what the task recorded', 'expected': case.get('expected')}
    if inp.get('special') == 'dataflow':
        got = special_replay(inp)
        want = (case.get('clause'), case.get('signature')) if 'clause' in case else None
        hits = [x for x in got if want is None or (x['clause'], x['signature']) == want]
        if hits:
            return {'reproduced': True, 'observed': hits[0]['observed'], 'expected': hits[0]['expected']}
        return {'reproduced': False, 'observed': got[:3], 'expected': repr(want)}
    return X.generic_replay(case, Mon)
