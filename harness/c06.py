'''C06 - stored values come back intact, and only to their own author, version, target

Bounded run-time harness: the real shelve back end in a temp dir (in-process
Connector/Worker, no sockets) is driven through short histories and every
``Dataset.load()`` is compared with a reference dictionary model that is
written from the property statement only.

Aliasing part (seed independent): a consumer that works on a loaded value IN
PLACE (operation 'mutate': load, then change the payload dictionary / its lists,
the ``extra`` list and set a new attribute on the loaded value object; nothing
is stored) must not change what any LATER load returns - neither for the same
identity nor for another target / author / run whose stored content is
byte-identical.  A later load that shows the in-place change is reported under
C06.intact with the signature 'aliasing:later-load-sees-in-place-change'.
'''

import itertools
import os
import random
import time

from . import _store_common as sc

import dawgie
import dawgie.db

PROPERTY = 'C06'
BOUND = (
    'real shelve store in a temp dir; histories of <= 6 operations over '
    '{update, load, load-with-run, version bump of alg/sv/value, new target, '
    'remove, close/reopen} with 2 targets (+1 empty) x 2 authors (task.alg; '
    'three author pairings incl. same-task and same-alg-name) x 2 state '
    'vectors x 2 values, runs in {1,2,3}, generated picklable contents; every '
    'load (and an audit of all identities/version configurations seen) is '
    'compared with a dictionary model; thorough tier: all histories of length '
    '<= 2 over a 24-operation core alphabet (x 3 author pairings) enumerated + '
    '6000 seeded random histories of 3..6 operations; quick tier: the length-1 '
    'core, the length-2 core histories around one fixed update and 24 random ones; plus (both tiers, seed independent) '
    '18 (thorough: 54 = x 3 author pairings) enumerated aliasing histories [update, (update of byte-identical content for another '
    'target / author / run / value version), mutate = load + in-place change of the loaded value objects, (reopen), load]; the '
    'random histories also contain mutate operations'
)

CLAUSES = [
    'C06.intact',  # what comes back is the stored content, unaltered
    'C06.run.exact',  # entry of the requested run when present
    'C06.run.latest',  # otherwise the one of the highest run
    'C06.isolation',  # never data of another target / author / version
    'C06.untouched',  # nothing matches -> the value is left untouched
]

TARGETS = ['tgtA', 'tgtB', 'tgtC']  # tgtC is only ever added, never written
AUTHOR_PAIRS = [
    [['tk', 'al'], ['tk', 'al2']],  # same task, alg names share a prefix
    [['tk', 'al'], ['tk2', 'al']],  # same alg name under two tasks
    [['tk', 'al'], ['tk2', 'bl']],  # unrelated
]
SVN = ['sv', 'svx']
VN = ['v', 'vx']
RUNS = [1, 2, 3]
FRESH_RUN = 7  # a run id that never has an entry
V0 = (1, 1, 0)

# --------------------------------------------------------------------------
# contents: deterministic "arbitrary picklable" payloads, each carrying its id
# --------------------------------------------------------------------------


def _build(r, depth):
    k = r.randrange(16 if depth < 3 else 9)
    if k == 0:
        return None
    if k == 1:
        return r.choice([True, False])
    if k == 2:
        return r.choice([0, -1, 2**70, -(2**40), r.randrange(1000)])
    if k == 3:
        return r.choice([0.0, -1.5, 1e300, float('inf'), float('nan')])
    if k == 4:
        return r.choice(['', 'x', 'a.b.c', 'é中\U0001f600', 'nul\x00'])
    if k == 5:
        return r.choice([b'', b'\x00\xff', bytes(range(256)) * r.choice([1, 300])])
    if k == 6:
        return complex(r.randrange(5), -r.randrange(5))
    if k == 7:
        return frozenset(r.sample(range(20), r.randrange(4)))
    if k == 8:
        return bytearray(b'ba' * r.randrange(3))
    if k in (9, 10):
        return [_build(r, depth + 1) for _ in range(r.randrange(4))]
    if k in (11, 12):
        return tuple(_build(r, depth + 1) for _ in range(r.randrange(4)))
    if k in (13, 14):
        keys = [r.choice(['k', 'q', 1, (1, 'a'), None, 2.5]) for _ in range(r.randrange(4))]
        return {key: _build(r, depth + 1) for key in keys}
    shared = [_build(r, depth + 1)]
    return [shared, shared, {'alias': shared}]


def payload(n, salt=0):
    '''content number n (n identifies it; the rest is generated from n)

    salt: a number derived from the history the content belongs to.  It makes the
    stored bytes of one history different from those of every other history run in
    the same process, so that whatever a history observes is caused by its own
    operations and a reported input replays on its own.'''
    r = random.Random(n * 7919 + 13)
    return {'id': n, 'salt': salt, 'data': _build(r, 0), 'tail': (n, _build(r, 1))}


def salt_of(case):
    import zlib

    return zlib.crc32(repr((case['authors'], case['ops'], bool(case.get('audit_each')))).encode('utf-8'))


def extra(n):
    return None if n % 3 else ['extra', n]


MARK = '__changed_in_place__'


def mutate_in_place(value, mark):
    '''what an algorithm working on its input does: change the loaded object itself'''
    p = value.payload
    if isinstance(p, dict):
        p[MARK] = mark  # new key
        p['tail'] = ('overwritten', mark)  # replaced item
        if isinstance(p.get('data'), list):
            p['data'].append(mark)  # grown list
        elif isinstance(p.get('data'), dict):
            p['data'][MARK] = mark
        elif isinstance(p.get('data'), bytearray):
            p['data'].extend(b'!')
        else:
            p['data'] = [mark]
    if isinstance(getattr(value, 'extra', None), list):
        value.extra.append(mark)
    value.scratch = mark  # new attribute of the value object


def is_marked(value):
    p = getattr(value, 'payload', None)
    return hasattr(value, 'scratch') or (isinstance(p, dict) and MARK in p)


def payload_id(p):
    try:
        return p['id']
    except Exception:  # pylint: disable=broad-except
        return None


# --------------------------------------------------------------------------
# one case = one history on a fresh store
# --------------------------------------------------------------------------


class _Sentinel:  # payload of the placeholders that a load may replace
    def __init__(self, slot):
        self.slot = slot

    def __eq__(self, other):
        return isinstance(other, _Sentinel) and other.slot == self.slot

    def __hash__(self):
        return hash(self.slot)


class Runner:
    def __init__(self, case):
        self.case = case
        self.authors = [tuple(a) for a in case['authors']]
        self.ver = [
            {
                'alg': V0,
                'sv': [V0, V0],
                'val': [[V0, V0], [V0, V0]],
            }
            for _ in self.authors
        ]
        self.model = {}  # identity -> {run: content id}
        self.origin = {}  # content id -> (identity, run)
        self.configs = [[self.config(a)] for a in range(len(self.authors))]
        self.execs = 0
        self.found = []
        self.step = -1
        self.mutations = 0
        self.kept = []
        self.salt = salt_of(case)

    # ---- bookkeeping written from the property statement --------------------
    def config(self, a):
        v = self.ver[a]
        return (v['alg'], tuple(v['sv']), tuple(tuple(x) for x in v['val']))

    def ident(self, a, t, cfg, i, j):
        task, alg = self.authors[a]
        return (TARGETS[t], task, alg, cfg[0], SVN[i], cfg[1][i], VN[j], cfg[2][i][j])

    def expected(self, a, t, run, cfg, i, j):
        '''content id a load must deliver, or None = leave untouched'''
        entries = self.model.get(self.ident(a, t, cfg, i, j), {})
        if not entries:
            return None, None
        if run in entries:
            return entries[run], 'C06.run.exact'
        return entries[max(entries)], 'C06.run.latest'

    def relation(self, n, want_ident):
        '''how does content n relate to the identity that was asked for'''
        if n not in self.origin:
            return 'unknown-content'
        ident, run = self.origin[n]
        if ident == want_ident:
            return f'same-identity-run'
        diffs = []
        names = ['target', 'task', 'alg', 'alg-version', 'sv', 'sv-version', 'value', 'value-version']
        for name, x, y in zip(names, ident, want_ident):
            if x != y:
                diffs.append(name)
        return 'other-' + '+'.join(diffs)

    def flag(self, clause, signature, observed, expected):
        self.found.append(
            {
                'clause': clause,
                'signature': signature,
                'observed': observed,
                'expected': expected,
                'step': self.step,
            }
        )

    # ---- driving the real code ----------------------------------------------
    def algorithm(self, a, cfg, contents):
        '''contents: {(i,j): payload object}'''
        spec = []
        for i in range(2):
            vals = [
                (VN[j], cfg[2][i][j], contents[(i, j)])
                for j in range(2)
                if (i, j) in contents
            ]
            if vals:
                spec.append((SVN[i], cfg[1][i], vals))
        return sc.make_alg(self.authors[a][1], cfg[0], spec)

    def do_update(self, a, t, run, slots, cids):
        cfg = self.config(a)
        contents = {}
        for s, n in zip(slots, cids):
            contents[(s // 2, s % 2)] = payload(n, self.salt)
        alg = self.algorithm(a, cfg, contents)
        for sv in alg.state_vectors():
            for vn in sv:
                n = payload_id(sv[vn].payload)
                if extra(n) is not None:
                    sv[vn].extra = extra(n)
        self.execs += 1
        try:
            sc.dataset(alg, self.authors[a][0], run, TARGETS[t]).update()
        except Exception as e:  # pylint: disable=broad-except
            self.flag('C06.intact', f'update-raised-{type(e).__name__}', repr(e), 'value stored')
            return
        for s, n in zip(slots, cids):
            ident = self.ident(a, t, cfg, s // 2, s % 2)
            self.model.setdefault(ident, {})[run] = n
            self.origin[n] = (ident, run)

    def do_load(self, a, t, run, cfg, why):
        sent = {(i, j): _Sentinel((i, j)) for i in range(2) for j in range(2)}
        alg = self.algorithm(a, cfg, sent)
        before = {
            (i, j): alg.state_vectors()[i][VN[j]] for i in range(2) for j in range(2)
        }
        self.execs += 1
        ask = {'author': list(self.authors[a]), 'target': TARGETS[t], 'run': run, 'versions': cfg, 'at': why}
        try:
            sc.dataset(alg, self.authors[a][0], run, TARGETS[t]).load()
        except Exception as e:  # pylint: disable=broad-except
            self.flag('C06.intact', f'load-raised-{type(e).__name__}', {'load': ask, 'error': repr(e)}, 'load completes')
            return []
        loaded = []
        for (i, j), placeholder in before.items():
            got = alg.state_vectors()[i][VN[j]]
            want, clause = self.expected(a, t, run, cfg, i, j)
            want_ident = self.ident(a, t, cfg, i, j)
            where = dict(ask, sv=SVN[i], value=VN[j])
            if got is not placeholder:
                loaded.append(got)
            if want is None:
                if got is placeholder:
                    continue
                n = payload_id(getattr(got, 'payload', None))
                rel = self.relation(n, want_ident)
                cl = 'C06.isolation' if rel.startswith('other-') else 'C06.untouched'
                self.flag(cl, f'nothing-matches:got-{rel}', {'load': where, 'got_content': n, 'stored_as': self.origin.get(n)}, 'value left untouched')
                continue
            if got is placeholder:
                self.flag(clause, 'left-untouched', {'load': where, 'got': 'untouched'}, {'content': want, 'stored_as': self.origin.get(want)})
                continue
            n = payload_id(getattr(got, 'payload', None))
            if n != want:
                rel = self.relation(n, want_ident)
                cl = 'C06.isolation' if rel.startswith('other-') else clause
                self.flag(cl, f'wrong-entry:got-{rel}', {'load': where, 'got_content': n, 'stored_as': self.origin.get(n)}, {'content': want, 'stored_as': self.origin.get(want)})
                continue
            ref = sc.HValue(payload(want, self.salt), (0, 0, 0), extra(want))
            if type(got) is not sc.HValue or not sc.deep_eq(got, ref):
                sig = 'content-altered'
                if self.mutations and is_marked(got):
                    # the change a consumer made to an EARLIER loaded object, never stored
                    sig = 'aliasing:later-load-sees-in-place-change'
                self.flag('C06.intact', sig, {'load': where, 'got': repr(getattr(got, '__dict__', got))[:300], 'in_place_changes_so_far': self.mutations}, {'content': want, 'stored': repr(ref.__dict__)[:300]})
        return loaded

    def do_mutate(self, a, t, run, cfg):
        '''load (checked like every load), then work on the loaded objects in place; nothing is stored'''
        loaded = self.do_load(a, t, run, cfg, 'mutate')
        for k, value in enumerate(loaded):
            self.mutations += 1
            mutate_in_place(value, ('mark', self.step, k))
        # the consumer keeps its objects as long as it likes
        self.kept.append(loaded)

    def do_remove(self, run, t, a, i, j):
        task, alg = self.authors[a]
        self.execs += 1
        try:
            dawgie.db.remove(run, TARGETS[t], task, alg, SVN[i], VN[j])
        except KeyError:
            return  # names never registered: nothing to remove, statement silent
        for ident, entries in self.model.items():
            if (ident[0], ident[1], ident[2], ident[4], ident[6]) == (TARGETS[t], task, alg, SVN[i], VN[j]):
                entries.pop(run, None)

    def do_bump(self, a, level, comp):
        v = self.ver[a]
        if level == 'alg':
            v['alg'] = sc.bump(v['alg'], comp)
        elif level.startswith('sv'):
            i = int(level[2])
            v['sv'][i] = sc.bump(v['sv'][i], comp)
        else:
            i, j = int(level[3]), int(level[4])
            v['val'][i][j] = sc.bump(v['val'][i][j], comp)
        cfg = self.config(a)
        if cfg not in self.configs[a]:
            self.configs[a].append(cfg)

    def audit(self, why):
        '''load every identity seen so far: each author under every version
        configuration it ever had, on every target and run the history names
        (plus a run that has no entry), and once on a target never written'''
        runs, tgts = set(), set()
        for op in self.case['ops']:
            if op[0] == 'update':
                tgts.add(op[2])
                runs.add(op[3])
            elif op[0] == 'remove':
                tgts.add(op[2])
                runs.add(op[1])
            elif op[0] == 'loadrun':
                runs.add(op[3])
            elif op[0] == 'mutate' and op[3] is not None:
                runs.add(op[3])
        unused = [t for t in range(len(TARGETS)) if t not in tgts]
        for a in range(len(self.authors)):
            for cfg in self.configs[a]:
                for t in sorted(tgts):
                    for run in sorted(runs) + [FRESH_RUN]:
                        self.do_load(a, t, run, cfg, why)
            if unused:
                self.do_load(a, unused[-1], FRESH_RUN, self.config(a), why)

    def run(self):
        store = sc.Store(prefix='verif_c06_')
        try:
            store.open()
            for self.step, op in enumerate(self.case['ops']):
                kind = op[0]
                if kind == 'update':
                    self.do_update(op[1], op[2], op[3], op[4], op[5])
                elif kind == 'load':
                    self.do_load(op[1], op[2], FRESH_RUN, self.config(op[1]), 'op')
                elif kind == 'loadrun':
                    self.do_load(op[1], op[2], op[3], self.config(op[1]), 'op')
                elif kind == 'mutate':
                    # ['mutate', author, target, run or None (= a run without entry: the latest is delivered)]
                    self.do_mutate(op[1], op[2], FRESH_RUN if op[3] is None else op[3], self.config(op[1]))
                elif kind == 'bump':
                    self.do_bump(op[1], op[2], op[3])
                elif kind == 'add':
                    self.execs += 1
                    dawgie.db.add(TARGETS[op[1]])
                elif kind == 'remove':
                    self.do_remove(op[1], op[2], op[3], op[4], op[5])
                elif kind == 'reopen':
                    self.execs += 1
                    store.reopen()
                else:
                    raise ValueError(kind)
                if self.case.get('audit_each'):
                    self.audit('audit-after-step')
            self.step = len(self.case['ops'])
            self.audit('final-audit')
        finally:
            store.destroy()
        return self.found, self.execs


def run_case(case):
    return Runner(case).run()


# --------------------------------------------------------------------------
# case generation
# --------------------------------------------------------------------------


def core_alphabet():
    ops = []
    for a in (0, 1):
        for t in (0, 1):
            for r in (1, 2):
                ops.append(['update', a, t, r, [0, 1, 2, 3], None])
    for a in (0, 1):
        for level in ('alg', 'sv0', 'val00'):
            ops.append(['bump', a, level, 2])
    for r in (1, 2):
        for t in (0, 1):
            for a in (0, 1):
                ops.append(['remove', r, t, a, 0, 0])
    ops.append(['reopen'])
    ops.append(['add', 1])
    return ops


def _number(ops):
    '''give every written value a fresh content id'''
    n = 100
    out = []
    for op in ops:
        op = list(op)
        if op[0] == 'update' and op[5] is None:
            op[5] = list(range(n, n + len(op[4])))
            n += len(op[4])
        out.append(op)
    return out


def core_cases(maxlen, pairs):
    alpha = core_alphabet()
    for pi in pairs:
        for length in range(1, maxlen + 1):
            for hist in itertools.product(alpha, repeat=length):
                if not any(op[0] == 'update' for op in hist):
                    continue  # trivial: nothing is ever stored
                yield {'authors': AUTHOR_PAIRS[pi], 'ops': _number(hist), 'audit_each': False}


def random_case(rng, idx):
    length = rng.randrange(3, 7)
    ops = []
    n = 1000
    for _ in range(length):
        k = rng.random()
        a, t = rng.randrange(2), rng.randrange(2)
        if k < 0.40 or not ops:
            slots = sorted(rng.sample(range(4), rng.choice([1, 2, 4, 4])))
            ops.append(['update', a, t, rng.choice(RUNS), slots, list(range(n, n + len(slots)))])
            n += len(slots)
        elif k < 0.48:
            ops.append(['load', a, t])
        elif k < 0.56:
            ops.append(['loadrun', a, t, rng.choice(RUNS)])
        elif k < 0.76:
            level = rng.choice(['alg', 'sv0', 'sv1', 'val00', 'val01', 'val10', 'val11'])
            ops.append(['bump', a, level, rng.randrange(3)])
        elif k < 0.80:
            ops.append(['add', rng.choice([1, 2])])
        elif k < 0.92:
            ops.append(['remove', rng.choice(RUNS), t, a, rng.randrange(2), rng.randrange(2)])
        else:
            ops.append(['reopen'])
    return {
        'authors': AUTHOR_PAIRS[idx % len(AUTHOR_PAIRS)],
        'ops': ops,
        'audit_each': idx % 5 == 0,
    }


def aliasing_cases(pairs):
    '''enumerated, seed independent: in-place work on a loaded value between two loads that resolve to the same stored bytes'''
    S = [0, 1, 2, 3]
    C = [500, 501, 502, 503]
    D = [510, 511, 512, 513]
    first = ['update', 0, 0, 1, S, C]
    variants = [
        ('same-identity', [first, ['mutate', 0, 0, None], ['load', 0, 0]]),
        ('same-identity-by-run', [first, ['mutate', 0, 0, 1], ['loadrun', 0, 0, 1]]),
        ('same-identity-reopen', [first, ['mutate', 0, 0, None], ['reopen'], ['load', 0, 0]]),
        ('twice', [first, ['mutate', 0, 0, None], ['mutate', 0, 0, 1], ['load', 0, 0]]),
        ('other-target', [first, ['update', 0, 1, 1, S, C], ['mutate', 0, 0, None], ['load', 0, 1]]),
        ('other-target-reverse', [first, ['update', 0, 1, 1, S, C], ['mutate', 0, 1, None], ['load', 0, 0]]),
        ('other-target-reopen', [first, ['update', 0, 1, 1, S, C], ['mutate', 0, 0, None], ['reopen'], ['load', 0, 1]]),
        ('other-author', [first, ['update', 1, 0, 1, S, C], ['mutate', 1, 0, None], ['load', 0, 0]]),
        ('other-author-target-run', [first, ['update', 1, 1, 2, S, C], ['mutate', 0, 0, None], ['loadrun', 1, 1, 2]]),
        ('other-run', [first, ['update', 0, 0, 2, S, C], ['mutate', 0, 0, 1], ['loadrun', 0, 0, 2]]),
        ('other-run-other-content', [first, ['update', 0, 0, 2, S, D], ['mutate', 0, 0, 2], ['loadrun', 0, 0, 1], ['loadrun', 0, 0, 2]]),
        ('other-value-version', [first, ['bump', 0, 'val00', 2], ['update', 0, 0, 1, S, C], ['mutate', 0, 0, None]]),
        ('other-alg-version', [first, ['bump', 0, 'alg', 0], ['update', 0, 0, 2, S, C], ['mutate', 0, 0, None]]),
        ('other-slot', [['update', 0, 0, 1, [0], [500]], ['update', 0, 1, 1, [3], [500]], ['mutate', 0, 0, None], ['load', 0, 1]]),
        ('swapped-slots', [first, ['update', 0, 1, 1, S, C[::-1]], ['mutate', 0, 1, None], ['load', 0, 0]]),
        ('then-overwritten', [first, ['mutate', 0, 0, None], ['update', 0, 0, 1, S, D], ['load', 0, 0]]),
        ('then-stored-again-elsewhere', [first, ['mutate', 0, 0, None], ['update', 0, 1, 1, S, C], ['load', 0, 1], ['load', 0, 0]]),
        ('then-removed', [first, ['update', 0, 1, 1, S, C], ['mutate', 0, 0, None], ['remove', 1, 0, 0, 0, 0], ['load', 0, 1]]),
    ]
    for i, (name, ops) in enumerate(variants):
        for pi in pairs if pairs is not None else [i % len(AUTHOR_PAIRS)]:
            yield {'authors': AUTHOR_PAIRS[pi], 'ops': [list(op) for op in ops], 'audit_each': False, 'what': 'aliasing:' + name}


def add_mutations(case, mrng):
    '''seeded: put in-place work (and sometimes a second copy of stored content) into a random history'''
    ops = case['ops']
    updates = [op for op in ops if op[0] == 'update']
    if updates and mrng.random() < 0.25:
        u = mrng.choice(updates)
        # byte-identical content for another target / author / run
        ops.insert(mrng.randrange(ops.index(u) + 1, len(ops) + 1), ['update', mrng.randrange(2), mrng.randrange(2), mrng.choice(RUNS), list(u[4]), list(u[5])])
    for _ in range(mrng.choice([0, 1, 1, 2])):
        ops.insert(mrng.randrange(1, len(ops) + 1), ['mutate', mrng.randrange(2), mrng.randrange(2), mrng.choice([None, None] + RUNS)])
    return case


def signature_of(case):
    return repr((case['authors'], case['ops'], case.get('audit_each')))


# --------------------------------------------------------------------------
# entry points
# --------------------------------------------------------------------------


def _work(args):
    cases, deadline = args
    sc.install()
    sc.fast_digest(True)
    out = []
    for case in cases:
        if sc.expired(deadline):
            break
        found, execs = run_case(case)
        out.append((case, found, execs))
    return out


def _chunks(seq, n):
    k = max(1, (len(seq) + n - 1) // n)
    return [seq[i : i + k] for i in range(0, len(seq), k)]


def run(tier: str, seed: int) -> dict:
    t0 = time.time()
    rng = random.Random(seed)
    if tier == 'quick':
        core = list(core_cases(1, [0])) + list(_pairs_core())
        nrand, procs = 24, 1
        exhaustive_note = 'the length-1 core histories and every length-2 core history that contains one fixed update, author pairing rotating'
    else:
        core = list(core_cases(2, [0, 1, 2]))
        nrand, procs = 6000, min(16, os.cpu_count() or 1)
        exhaustive_note = 'all core histories of length <= 2 for the 3 author pairings'
    rand = [random_case(rng, i) for i in range(nrand)]
    mrng = random.Random(seed * 7919 + 5)  # own stream: the histories drawn from rng stay what they were
    rand = [add_mutations(c, mrng) for c in rand]
    alias = list(aliasing_cases(None if tier == 'quick' else [0, 1, 2]))  # seed independent
    core = alias + core
    cases = core + rand
    deadline = t0 + sc.BUDGET_S[tier]
    if procs > 1:
        import multiprocessing

        ctx = multiprocessing.get_context('fork')
        # interleave so that every chunk holds core and random histories
        chunks = [cases[i :: procs * 8] for i in range(procs * 8)]
        with ctx.Pool(procs) as pool:
            parts = pool.map(_work, [(c, deadline) for c in chunks], chunksize=1)
        results = [r for part in parts for r in part]
    else:
        results = _work((cases, deadline))
    skipped = len(cases) - len(results)
    viol = sc.Violations()
    execs = 0
    sigs = set()
    for case, found, n in results:
        execs += n
        sigs.add(signature_of(case))
        for f in found:
            inp = {'authors': case['authors'], 'ops': case['ops'][: f['step'] + 1], 'audit_each': case.get('audit_each', False)}
            if case.get('what'):
                inp['what'] = case['what']
            viol.add(f['clause'], f['signature'], inp, f['observed'], f['expected'])
    return {
        'cases': execs,
        'distinct': len(sigs),
        'rule': (
            f'{len(alias)} enumerated aliasing histories (update, optionally the byte-identical content stored again for another target / '
            'author / run / version / slot, mutate = load and change the loaded value objects in place, optionally reopen, load again) + '
            f'{len(core) - len(alias)} enumerated core histories ({exhaustive_note}; histories without any update are '
            f'skipped as trivial) + {nrand} seeded random histories of 3..6 operations (+ up to 3 seeded inserted operations: in-place '
            'work on loaded values, a second copy of stored content); every history runs on a '
            'fresh store and ends with an audit that loads every (author, version configuration seen, target, '
            'run in {1,2,3,7}); "cases" counts executions of update/load/remove/add/reopen on the real code, '
            '"distinct" counts distinct histories; md5sum/sha1sum are replaced by an in-process equivalent '
            'printing the same text (C07 runs the real ones)'
        ),
        'exhaustive': False,
        'samples': [rand[0], rand[1], core[-1], alias[4]] if rand else core[:3],
        'violations': viol.as_list(),
        'clauses': CLAUSES,
        'histories': len(results),
        'skipped_for_time': skipped,
        'wall_s': round(time.time() - t0, 2),
    }


def _pairs_core():
    '''quick tier: the length-2 core histories that start with one fixed update'''
    alpha = core_alphabet()
    first = alpha[0]
    for i, op in enumerate(alpha):
        pair = AUTHOR_PAIRS[i % len(AUTHOR_PAIRS)]
        yield {'authors': pair, 'ops': _number([first, op]), 'audit_each': False}
        if op[0] != 'update':
            yield {'authors': pair, 'ops': _number([op, first]), 'audit_each': False}


def replay(case: dict) -> dict:
    case = case.get('input', case)      # the violation as reported (./check --replay) or its input
    sc.install()
    sc.fast_digest(True)
    found, _ = run_case(case)
    return {
        'reproduced': bool(found),
        'observed': sc.jsonable([f['observed'] for f in found[:3]]),
        'expected': sc.jsonable([f['expected'] for f in found[:3]]),
        'clauses': sorted({f['clause'] for f in found}),
    }
