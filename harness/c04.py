'''C04  Idle means idle: runnable work is released and the pipeline quiesces  (bounded run-time harness).

* C04.idle-empty  after EVERY event: if nothing is pending or in flight - computed from the raw state: every
                  node's todo/doing/do empty, farm._jobs/_cluster/_cloud/_busy empty, no simulated worker holds
                  a unit - then schedule.que == [], schedule.view_todo() == [], schedule.view_doing() == {} and
                  farm.crew()['busy'] == [];
* C04.release     before every dispatch the oracle computes, from the declared inputs of the synthetic engine,
                  the pending units (X, T) (T in todo, X not already executing T) all of whose transitive
                  upstream algorithms are idle for T (no T and no '__all__' pending/executing; for an
                  all-targets unit: nothing at all pending/executing upstream); each must be released by that
                  dispatch (moved todo -> doing and put as a task message);
* C04.quiesce     with workers that always answer (any mix of success/failure/invalid, any order) and no further
                  external event, the run reaches the idle state within 400 events.

Beyond the common plan the harness adds universes with an EMPTY target list and with algorithms that have a
new version at load (schedule.build), and offers run requests with an empty target list.
'''

import time

from . import _sched_sim as X

PROPERTY = 'C04'
BOUND = (
    X.BOUND_TEXT
    + '; plus, for every curated graph, load with a new version of {first algorithm, all algorithms} on target '
    'lists [] and [T1] and run requests with an empty target list; every random history is then run to '
    'quiescence with randomly ordered success/failure/invalid replies (<= 400 events)'
)
CLAUSES = ['C04.idle-empty', 'C04.release', 'C04.quiesce']


def runnable(spec, nodes):
    '''pending units whose upstream algorithms are all idle for the unit's target (independent oracle)'''

    def pend(tag):
        return set(nodes[tag]['todo']) | set(nodes[tag]['doing'])

    res = []
    for j, tag in enumerate(spec.tags):
        for t in nodes[tag]['todo']:
            if t in nodes[tag]['doing'] or X.ALL in nodes[tag]['doing']:
                continue  # the unit itself is executing: C03 forbids a second release, C04 is silent
            ok = True
            for i in spec.upstream(j):
                p = pend(spec.tags[i])
                if t == X.ALL:
                    ok &= not p
                else:
                    ok &= t not in p and X.ALL not in p
            if ok:
                res.append((tag, t))
    return res


class Mon(X.Monitor):
    def after(self, sim, ev, rec):
        out = X.common_violations(PROPERTY, rec)
        if ev[0] == 'tick':
            want = runnable(self.spec, rec['pre']['nodes'])
            released = set()
            for b in rec['trace']['njb']:
                released.update(b['released'])
            puts = {(tag, tgt if tgt else X.ALL) for tag, _rid, tgt in rec['trace']['put']}
            post = rec['post']['nodes']
            missing = [
                u for u in want
                if u not in released or u not in puts or u[1] not in post[u[0]]['doing']
            ]  # fmt: skip
            if missing:
                out.append(
                    {
                        'clause': 'C04.release',
                        'signature': 'runnable-unit-not-released'
                        + ('-analysis' if any(t == X.ALL for _n, t in missing) else ''),
                        'observed': {'not_released': sorted(missing), 'released': sorted(released),
                                     'que_before': rec['pre']['que'],
                                     'state_before': {k: v for k, v in rec['pre']['nodes'].items()
                                                      if v['todo'] or v['doing']}},
                        'expected': 'every pending unit whose upstream algorithms are idle for its target is '
                        'released by the dispatch',
                    }
                )  # fmt: skip
        if ev[0] == 'expect-idle' and not sim.is_idle():
            a = rec['post']
            out.append(
                {
                    'clause': 'C04.quiesce',
                    'signature': 'no-quiescence-with-answering-workers',
                    'observed': {'nodes': {k: v for k, v in a['nodes'].items() if v['todo'] or v['doing']},
                                 'que': a['que'], 'cluster': a['cluster'], 'running': a['running']},
                    'expected': 'idle state reached once every worker has answered',
                }
            )  # fmt: skip
        if sim.is_idle():
            v = sim.views()
            bad = {}
            if v['que'] != []:
                bad['schedule.que'] = v['que']
            if v['view_todo'] != []:
                bad['view_todo'] = v['view_todo']
            if v['view_doing'] != {}:
                bad['view_doing'] = v['view_doing']
            if v['crew_busy'] != []:
                bad['crew.busy'] = v['crew_busy']
            if bad:
                out.append(
                    {
                        'clause': 'C04.idle-empty',
                        'signature': 'idle-but-%s-not-empty@%s'
                        % ('+'.join(sorted(bad)), ev[0] if ev[0] != 'reply' else 'reply-' + ev[4][0]),
                        'observed': bad,
                        'expected': 'que == [], view_todo() == [], view_doing() == {}, crew busy == [] when '
                        'nothing is pending or in flight',
                    }
                )  # fmt: skip
        return out


def _job(job):
    res = X.explore_job(job, Mon)
    # the load itself (schedule.build with new versions / no targets) is an event of the property too:
    # look at the state right after it
    u = X.Universe.from_json(job['universe'])
    sim = X.Sim(u)
    try:
        mon = Mon(u)
        mon.reset()
        rec = sim.step(['noop'])
        res.cases += 1
        for v in mon.after(sim, ['noop'], rec):
            res.add_violation(u, [['noop']], v)
    finally:
        sim.close()
    return res


CFG = {'run_empty': True}
WALK_CFG = {'run_all': True, 'timers': True, 'run_empty': True}
OUTCOMES = ['S', 'Sp', 'Sq', 'Spq', 'F', 'I']


def _extra(tier, seed, deadline):
    jobs = []
    for k, spec in enumerate(X.curated_specs()):
        for targets in ([], ['T1']):
            for init in ((0,), tuple(range(spec.n))):
                u = X.Universe(spec, targets, 2, init)
                cfg = {'run_empty': True, 'run_all': True}
                jobs.append(
                    {
                        'universe': u.to_json(), 'cfg': cfg, 'walk_cfg': dict(cfg, timers=True),
                        'depth': (3 if tier == 'quick' else 6) if targets else (2 if tier == 'quick' else 5),
                        'cap': 10**9 if tier == 'quick' else 3000,
                        'walks': 2 if tier == 'quick' else 12, 'walk_len': 6 if tier == 'quick' else 12,
                        'seed': seed, 'deadline': deadline, 'drain': OUTCOMES,
                    }
                )  # fmt: skip
    return jobs


def _fault_jobs(tier, seed, deadline):
    '''one faulty dispatch tick per history (dawgie.db.next() raising while a released job asks for a run id): the units
    of that dispatch must still be handed out by a later one, or the queue never empties although every worker answers'''
    jobs = []
    cfg = {'run_empty': True, 'db_faults': 1}
    wcfg = {'run_all': True, 'timers': True, 'run_empty': True, 'db_faults': 1}
    for k, spec in enumerate(X.curated_specs()):
        big = spec.n >= 4
        if tier == 'quick':
            plan = ((['T1'], 1, 3 if big else 4, 10**9, 3, 8), (['T1', 'T2'], 2, 3, 10**9, 3, 9))
        else:
            plan = tuple((t, w, 6, 4000, 10, 14) for t in (['T1'], ['T1', 'T2']) for w in (1, 2))
        for targets, workers, depth, cap, walks, walk_len in plan:
            jobs.append(
                {
                    'universe': X.Universe(spec, targets, workers).to_json(), 'cfg': cfg, 'walk_cfg': wcfg,
                    'depth': depth, 'cap': cap, 'walks': walks, 'walk_len': walk_len + k % 3, 'seed': seed,
                    'deadline': deadline, 'drain': OUTCOMES, 'bias': {'tick-dbfault': 2.0, 'timer': 1.0},
                }
            )  # fmt: skip
    return jobs


def run(tier, seed):
    t0 = time.time()
    deadline = t0 + (18 if tier == 'quick' else 230)
    jobs = X.tier_jobs(
        tier, seed, deadline, CFG, WALK_CFG, drain=OUTCOMES, depth_delta=-1 if tier == 'quick' else 0,
        walks_quick=6, walks_thorough=10,
    )  # fmt: skip
    jobs += _extra(tier, seed, deadline)
    jobs += _fault_jobs(tier, seed, deadline)
    return X.run_tier(PROPERTY, tier, seed, jobs, _job, Mon, X.RULE, CLAUSES, t0)


def replay(case):
    r = X.generic_replay(case, Mon)
    # a quiescence witness is a history in which every worker answered (the exploration drains adaptively).  Replayed on
    # another tree the same fixed replies may leave a unit in flight: then the premise of the clause is not met there and
    # the recorded violation is not reproduced
    if (r.get('reproduced') and r.get('signature') == 'no-quiescence-with-answering-workers'
            and (r.get('observed') or {}).get('running') and not ((case.get('observed') or {}).get('running'))):
        return {'reproduced': False, 'observed': r['observed'],
                'expected': 'a history in which every worker has answered (a unit is still in flight on this tree: premise not met)'}
    return r
