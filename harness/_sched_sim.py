'''Deterministic simulation of the DAWGIE scheduler + worker farm on the REAL functions.

Shared by harness/c01.py .. c05.py (bounded layer of DESIGN.md section 2.7).

What is real
------------
* the task graph: ``dawgie.pl.schedule.build`` -> ``dawgie.pl.dag.Construct`` on synthetic algorithm engines
  (in-memory modules ``synae<k>.<a|b|c|d>`` holding genuine ``dawgie.Task/Analysis/Algorithm/Analyzer/
  StateVector/Value`` subclasses; value level input declarations through V_REF / SV_REF / ALG_REF);
* every scheduler step: ``schedule.organize`` (called exactly like ``fe.api.cmd_run``), ``schedule.defer``
  (timer), ``schedule.build`` (new versions at load), ``schedule.next_job_batch / complete / update / purge /
  find / view_todo / view_doing``;
* every farm step: ``farm.dispatch`` (``rerunid``, ``_put``, ``_cluster_sort``, ``_workers_sort``,
  ``notify_all``), ``farm.Hand`` protocol objects fed *bytes* through ``dataReceived`` (register + response
  messages, framed and pickled by ``dawgie.pl.message``), ``Hand.do`` writing framed task messages to the fake
  transports, ``Hand._res``, ``farm.crew``;
* the chronicle: ``dawgie.pl.logger.chronicle.append`` writing JSON under a temp ``dawgie.context.data_dbs``.

What is fake (process-wide monkey patches, harness process only)
----------------------------------------------------------------
* ``dawgie.db`` back end: module ``dawgie.db.simfake`` (``targets()``, ``next()``), selected through
  ``dawgie.context.db_impl`` so the real ``dawgie.db.targets/next`` wrappers still run;
* ``dawgie.context.fsm``: ``is_pipeline_active() -> True``, ``waiting_on_crew() -> False``;
* ``dawgie.security.use_tls -> True`` so a ``Hand`` is created without the PGP handshake wrapper (C14's domain);
* ``pydot.Dot.create`` returns a constant (no graphviz subprocess); the rest of ``Construct.graph`` (which
  assigns the node levels) runs and writes its svg files into the temp ``fe_path``;
* workers: a fake worker is (Hand, FakeTransport); it registers, receives framed ``wait``/``task`` messages,
  closes the connection on a task, and later answers on a *new* Hand exactly like
  ``dawgie.pl.worker.cluster.execute`` does, then a fresh worker registers (pool size constant);
* monitors: thin recording wrappers around ``schedule.next_job_batch/complete/update/purge/organize``,
  ``chronicle.append``, ``farm._put`` and ``promotion.Engine.__call__`` (they delegate to the real function).

Assumption A2 (promotion off) is *checked*: every no-argument ``schedule.promote()`` must return falsy;
otherwise the step record carries ``assumption_failures``.

Events (JSON lists)
-------------------
``['run', i, [targets]]``   run request for algorithm i (``organize`` as ``cmd_run`` does; [] = no targets)
``['timer', i]``            periodic event for algorithm i fires (``schedule.defer`` with a boot moment)
``['tick']``                one ``farm.dispatch()``
``['tick-dbfault']``        one ``farm.dispatch()`` during which the data base is down: every ``dawgie.db.next()``
                            raises (fault injection; offered only when EventCfg.db_faults allows it and a job
                            may ask for a run id; the step record carries ``db_fault_hits``)
``['reload']``              the pipeline reloads in the same process: ``schedule.build`` is called again with the
                            factories / version tables of the initial load, exactly the call ``Sim.reset`` makes
                            (what ``FSM.load -> FSM._pipeline`` does after an update).  A new task graph replaces
                            the old one; the farm is left as it is.  Offered only when EventCfg.reloads allows it
                            and the farm is quiet - nothing handed to a worker, nothing queued for one - which is
                            what the FSM waits for before it reloads (``wait_for_crew``; in such a state the
                            ``farm.clear()`` of ``FSM.load`` changes nothing but the idle workers, who register
                            again).  Disabled by default (reloads=0: c01, c02, c04, c05 never see it).
``['noop']``                nothing happens (lets an oracle look at the state right after the load)
``['expect-idle']``         nothing happens; marks the end of a history that was run to quiescence (workers
                            always answered, no further external event) so the oracle can check the end state
``['reply', tag, target, k, outcome]``  the k-th worker holding unit tag[target] answers; outcome is
                            ``'S' + subset of 'pq'`` (success, those values new), ``'F'`` failure, ``'I'`` invalid
'''

import collections
import datetime
import itertools
import json
import logging
import os
import random
import shutil
import struct
import sys
import tempfile
import time
import types
import warnings

REPO = os.environ.get('VERIF_REPO', '/repo').rstrip('/')

warnings.filterwarnings('ignore')
logging.disable(logging.CRITICAL)

import dawgie  # noqa: E402

assert dawgie.__file__.startswith(REPO + '/Python/'), (
    'wrong dawgie imported: %s (expected under %s/Python/)' % (dawgie.__file__, REPO)
)

import dawgie.context  # noqa: E402
import dawgie.db  # noqa: E402
import dawgie.pl.dag  # noqa: E402
import dawgie.pl.farm as F  # noqa: E402
import dawgie.pl.logger.chronicle as CH  # noqa: E402
import dawgie.pl.message as M  # noqa: E402
import dawgie.pl.promotion  # noqa: E402
import dawgie.pl.schedule as S  # noqa: E402
import dawgie.security  # noqa: E402
import pydot  # noqa: E402


for _m in (S, F, dawgie.pl.dag, CH, M):
    assert _m.__file__.startswith(REPO + '/Python/'), _m.__file__


def _containers(mod):
    '''the module-level builtin containers of `mod` (name -> shallow copy), taken at import time'''
    return {
        k: type(v)(v)
        for k, v in vars(mod).items()
        if type(v) in (dict, list, set) and not k.startswith('__')
    }


# Sim.reset() stands for the first load of a NEW pipeline process: whatever schedule / farm keep in module
# level containers goes back to its import-time content (on the reference tree this is exactly what reset()
# clears by hand; the point is that nothing survives from the universe simulated before in this process,
# so that a violation found here reproduces in a fresh process).  A 'reload' event does NOT do this.
_PRISTINE = {S: _containers(S), F: _containers(F)}


def _fresh_process_state():
    for mod, table in _PRISTINE.items():
        for name, val in table.items():
            cur = getattr(mod, name, None)
            if type(cur) is not type(val):
                setattr(mod, name, type(val)(val))
            elif cur != val:
                cur.clear()
                (cur.extend if isinstance(cur, list) else cur.update)(val)
        for name, cur in list(vars(mod).items()):
            # containers bound after import (not known at import time): empty them
            if name not in table and type(cur) in (dict, list, set) and not name.startswith('__') and cur:
                cur.clear()


ALL = '__all__'
VALUES = ('p', 'q')
SVN = 'sv'
ALGN = 'x'
NAMES = 'abcd'
GIT_REV = 'simrev'

# --------------------------------------------------------------------------------------------------------------
# process-wide fakes
# --------------------------------------------------------------------------------------------------------------


class FakeFSM:
    '''stands in for dawgie.pl.state.FSM: pipeline active, nobody waiting on the crew'''

    archived = 0

    def is_pipeline_active(self):
        return True

    def waiting_on_crew(self):
        return False

    def archiving_trigger(self):
        FakeFSM.archived += 1
        return


_CUR = [None]  # the Sim currently driving the real modules

_fake_db = types.ModuleType('dawgie.db.simfake')


def _fake_targets():
    return list(_CUR[0].targets) if _CUR[0] is not None else []


class SimulatedDbFailure(RuntimeError):
    pass


def _fake_next():
    sim = _CUR[0]
    if sim.db_fault:
        if getattr(sim, 'db_fault_after', 0) > 0:
            sim.db_fault_after -= 1  # the data base goes down in the middle of the dispatch: the first requests are served
            sim.runid_counter += 1
            return sim.runid_counter
        sim.db_fault_hits += 1
        raise SimulatedDbFailure('simulated data base failure in db.next()')
    sim.runid_counter += 1
    return sim.runid_counter


_fake_db.targets = _fake_targets
_fake_db.next = _fake_next
sys.modules['dawgie.db.simfake'] = _fake_db
dawgie.db.simfake = _fake_db
dawgie.context.db_impl = 'simfake'
dawgie.context.fsm = FakeFSM()
dawgie.context.git_rev = GIT_REV
dawgie.context.allow_promotion = dawgie.context.allow_promotion  # default False; asserted per Sim
dawgie.security.use_tls = lambda: True
pydot.Dot.create = lambda self, *a, **k: b'<svg/>'

# ---- monitors ------------------------------------------------------------------------------------------------

_TRACE = [None]


def _tr(key, item):
    if _TRACE[0] is not None:
        _TRACE[0][key].append(item)


def _install_monitors():
    if getattr(S, '_verif_monitored', False):
        return
    S._verif_monitored = True

    real_njb = S.next_job_batch

    def next_job_batch():
        sim = _CUR[0]
        pre = {t: set(n.get('todo')) for t, n in sim.nodes.items()} if sim else {}
        pre_doing = (
            {t: set(n.get('doing')) for t, n in sim.nodes.items()} if sim else {}
        )
        result = real_njb()
        if sim:
            released = []
            for t, n in sim.nodes.items():
                for x in sorted(pre[t] - set(n.get('todo'))):
                    released.append((t, x))
            _tr(
                'njb',
                {
                    'released': released,
                    'ret': [j.tag for j in result],
                    'do': {j.tag: sorted(j.get('do')) for j in result},
                    'pre_doing': {t: sorted(v) for t, v in pre_doing.items()},
                },
            )
        return result

    S.next_job_batch = next_job_batch

    real_complete = S.complete

    def complete(job, runid, target, timing, status):
        _tr('complete', (job.tag, runid, target, status.name))
        return real_complete(job, runid, target, timing, status)

    S.complete = complete

    real_update = S.update

    def update(values, original, rid):
        _tr('update', (original.tag, rid, [tuple(v) for v in (values or [])]))
        return real_update(values, original, rid)

    S.update = update

    real_purge = S.purge
    depth = [0]

    def purge(node, target):
        if depth[0] == 0:
            _tr('purge', (node.tag, target))
        depth[0] += 1
        try:
            return real_purge(node, target)
        finally:
            depth[0] -= 1

    S.purge = purge

    real_organize = S.organize

    def organize(task_names, runid=None, targets=None, event=None):
        _tr(
            'organize',
            (sorted(task_names), runid, sorted(targets) if targets else [], event),
        )
        return real_organize(task_names, runid, targets, event)

    S.organize = organize
    S.promote.organize = organize

    real_append = CH.append

    def append(entry):
        _tr(
            'chron',
            (entry.get('runid'), entry.get('task'), entry.get('target'), entry.get('status')),
        )
        if _CUR[0] is not None:
            _CUR[0].chron_dirty = True
        return real_append(entry)

    CH.append = append

    real_put = F._put

    def _put(job, runid, target, where):
        _tr('put', (job.tag, runid, target))
        return real_put(job=job, runid=runid, target=target, where=where)

    F._put = _put

    real_call = dawgie.pl.promotion.Engine.__call__

    def __call__(self, values=None, original=None, rid=None):
        result = real_call(self, values, original, rid)
        _tr('promote', (values is None and original is None and rid is None, bool(result)))
        return result

    dawgie.pl.promotion.Engine.__call__ = __call__
    return


_install_monitors()

# --------------------------------------------------------------------------------------------------------------
# graph specifications (the independent source of truth for the oracles)
# --------------------------------------------------------------------------------------------------------------

FEATS = ('p', 'q', 'sv', 'alg')  # V_REF p / V_REF q / SV_REF (both values) / ALG_REF (both values)


class Spec:
    '''n algorithms named a.x .. d.x; kinds[i] in 'T' (task) / 'A' (analysis); edges (i, j, feat) with i < j
    meaning algorithm j declares value(s) of algorithm i as input.'''

    def __init__(self, n, kinds, edges):
        self.n = n
        self.kinds = str(kinds)
        self.edges = tuple(sorted((int(i), int(j), str(f)) for i, j, f in edges))
        assert len(self.kinds) == n and n <= len(NAMES)
        for i, j, f in self.edges:
            assert 0 <= i < j < n and f in FEATS
        self.tags = ['%s.%s' % (NAMES[i], ALGN) for i in range(n)]
        self.index = {t: i for i, t in enumerate(self.tags)}
        self._up = {j: {i for i, jj, _f in self.edges if jj == j} for j in range(n)}
        self._down = {i: {j for ii, j, _f in self.edges if ii == i} for i in range(n)}

    def key(self):
        return (self.n, self.kinds, self.edges)

    def to_json(self):
        return {'n': self.n, 'kinds': self.kinds, 'edges': [list(e) for e in self.edges]}

    @staticmethod
    def from_json(d):
        return Spec(d['n'], d['kinds'], [tuple(e) for e in d['edges']])

    def is_analysis(self, i):
        return self.kinds[i] == 'A'

    def inputs(self, j):
        '''declared inputs of j as value names 'a.x.sv.p' '''
        res = set()
        for i, jj, f in self.edges:
            if jj == j:
                for v in VALUES if f in ('sv', 'alg') else (f,):
                    res.add('.'.join([self.tags[i], SVN, v]))
        return res

    def upstream(self, j):
        '''transitive upstream algorithms of j (indices), from the declared inputs only'''
        res, todo = set(), list(self._up[j])
        while todo:
            i = todo.pop()
            if i not in res:
                res.add(i)
                todo.extend(self._up[i])
        return res

    def downstream(self, i):
        '''transitive dependents of i (indices)'''
        res, todo = set(), list(self._down[i])
        while todo:
            j = todo.pop()
            if j not in res:
                res.add(j)
                todo.extend(self._down[j])
        return res

    def direct_dependents(self, i, newvals):
        '''algorithms declaring one of the values `newvals` (subset of VALUES) of i as input'''
        names = {'.'.join([self.tags[i], SVN, v]) for v in newvals}
        return {j for j in self._down[i] if self.inputs(j) & names}

    def depth(self):
        lv = {}
        for j in range(self.n):
            lv[j] = 1 + max([lv[i] for i in self._up[j]], default=-1)
        return 1 + max(lv.values(), default=0)


def feat_for(mask, i, j):
    return FEATS[(mask + 3 * i + j) % len(FEATS)]


def all_specs(max_n=4, min_n=1):
    '''every DAG on <= max_n topologically numbered algorithms x every task/analysis assignment'''
    res = []
    for n in range(min_n, max_n + 1):
        pairs = [(i, j) for j in range(n) for i in range(j)]
        for mask in range(2 ** len(pairs)):
            edges = [
                (i, j, feat_for(mask, i, j))
                for b, (i, j) in enumerate(pairs)
                if mask >> b & 1
            ]
            for kinds in itertools.product('TA', repeat=n):
                res.append(Spec(n, ''.join(kinds), edges))
    return res


def curated_specs():
    '''small hand-picked family used by the quick tier (chains, diamonds, task/analysis mixes)'''
    C = []
    C.append(Spec(2, 'TT', [(0, 1, 'p')]))  # chain of two tasks
    C.append(Spec(3, 'TTT', [(0, 1, 'p'), (1, 2, 'sv')]))  # chain of three
    C.append(Spec(3, 'TAT', [(0, 1, 'q'), (1, 2, 'p')]))  # task -> analysis -> task
    C.append(Spec(2, 'TA', [(0, 1, 'alg')]))  # task -> analysis
    C.append(Spec(2, 'AT', [(0, 1, 'p')]))  # analysis -> task
    C.append(
        Spec(4, 'TTTT', [(0, 1, 'p'), (0, 2, 'q'), (1, 3, 'p'), (2, 3, 'sv')])
    )  # diamond
    C.append(
        Spec(4, 'TTTA', [(0, 1, 'p'), (0, 2, 'q'), (1, 3, 'p'), (2, 3, 'p')])
    )  # diamond, analysis sink
    C.append(Spec(3, 'TTA', [(0, 2, 'p'), (1, 2, 'q')]))  # join into an analysis
    C.append(
        Spec(3, 'TTT', [(0, 1, 'p'), (0, 2, 'q'), (1, 2, 'p')])
    )  # chain with skip edge
    C.append(
        Spec(4, 'TTAT', [(0, 1, 'sv'), (1, 2, 'p'), (2, 3, 'q'), (0, 3, 'p')])
    )  # chain through analysis + skip
    C.append(Spec(3, 'TTT', [(0, 2, 'p')]))  # one independent algorithm (frame)
    # an analysis and a task that do not depend on one another: both can be in one released batch, in either order
    C.append(Spec(2, 'AT', []))
    C.append(Spec(2, 'TA', []))
    return C


# --------------------------------------------------------------------------------------------------------------
# synthetic algorithm engines (in-memory modules)
# --------------------------------------------------------------------------------------------------------------


class SimValue(dawgie.Value):
    def __init__(self):
        dawgie.Value.__init__(self)
        self._version_ = dawgie.VERSION(1, 0, 0)

    def features(self):
        return []


class SimStateVector(dawgie.StateVector):
    def __init__(self):
        dawgie.StateVector.__init__(self)
        self._version_ = dawgie.VERSION(1, 0, 0)
        for v in VALUES:
            self[v] = SimValue()

    def name(self):
        return SVN

    def view(self, caller, visitor):
        return


_ENGINES = {}


def _refs(mods, deps):
    res = []
    for d, f in deps:
        mod = mods[d]
        fac = getattr(mod, mod.KIND)
        alg = mod.ALG
        sv = alg.state_vectors()[0]
        if f == 'alg':
            res.append(dawgie.ALG_REF(factory=fac, impl=alg))
        elif f == 'sv':
            res.append(dawgie.SV_REF(factory=fac, impl=alg, item=sv))
        else:
            res.append(dawgie.V_REF(factory=fac, impl=alg, item=sv, feat=f))
    return res


def make_engine(spec):
    '''build (once per process) the in-memory AE package for `spec`; returns (base package name, factories)'''
    if spec.key() in _ENGINES:
        return _ENGINES[spec.key()]
    base = 'synae%d' % len(_ENGINES)
    pkg = types.ModuleType(base)
    pkg.__path__ = []
    sys.modules[base] = pkg
    mods = {}
    for i in range(spec.n):
        name = NAMES[i]
        mod = types.ModuleType(base + '.' + name)
        sys.modules[mod.__name__] = mod
        setattr(pkg, name, mod)
        deps = [(ii, f) for ii, j, f in spec.edges if j == i]
        if spec.kinds[i] == 'T':

            class Alg(dawgie.Algorithm):
                def __init__(self, deps=deps):
                    self._version_ = dawgie.VERSION(1, 0, 0)
                    self._sv = SimStateVector()
                    self._deps = deps

                def name(self):
                    return ALGN

                def previous(self):
                    return _refs(mods, self._deps)

                def run(self, ds, ps):
                    raise RuntimeError('never executed: the simulated worker answers instead')

                def state_vectors(self):
                    return [self._sv]

            class Bot(dawgie.Task):
                _mod = mod

                def list(self):
                    return [self._mod.ALG]

            def task(prefix, ps_hint=0, runid=-1, target='__none__', _bot=Bot):
                return _bot(prefix, ps_hint, runid, target)

            task.__module__ = mod.__name__
            mod.task = task
            mod.KIND = 'task'
        else:

            class Alg(dawgie.Analyzer):
                def __init__(self, deps=deps):
                    self._version_ = dawgie.VERSION(1, 0, 0)
                    self._sv = SimStateVector()
                    self._deps = deps

                def name(self):
                    return ALGN

                def traits(self):
                    return _refs(mods, self._deps)

                def run(self, aspects):
                    raise RuntimeError('never executed: the simulated worker answers instead')

                def state_vectors(self):
                    return [self._sv]

            class Bot(dawgie.Analysis):
                _mod = mod

                def list(self):
                    return [self._mod.ALG]

            def analysis(prefix, ps_hint=0, runid=-1, _bot=Bot):
                return _bot(prefix, ps_hint, runid)

            analysis.__module__ = mod.__name__
            mod.analysis = analysis
            mod.KIND = 'analysis'
        Alg.__module__ = mod.__name__
        Bot.__module__ = mod.__name__
        mod.Alg = Alg
        mod.Bot = Bot
        mod.ALG = Alg()
        mods[i] = mod
    facs = {
        dawgie.Factories.analysis: [
            mods[i].analysis for i in range(spec.n) if spec.kinds[i] == 'A'
        ],
        dawgie.Factories.events: [],
        dawgie.Factories.regress: [],
        dawgie.Factories.task: [
            mods[i].task for i in range(spec.n) if spec.kinds[i] == 'T'
        ],
    }
    _ENGINES[spec.key()] = (base, facs, mods)
    return _ENGINES[spec.key()]


# --------------------------------------------------------------------------------------------------------------
# fake transport / framing
# --------------------------------------------------------------------------------------------------------------

IPV4 = collections.namedtuple('IPV4', ['host', 'port'])


class FakeTransport:
    def __init__(self):
        self.buf = []
        self.closed = False

    def write(self, b):
        self.buf.append(bytes(b))

    def loseConnection(self):
        self.closed = True

    def take(self):
        data, self.buf = b''.join(self.buf), []
        return data


def frame(msg):
    b = M.dumps(msg)
    return struct.pack('>I', len(b)) + b


def unframe(data):
    res = []
    while data:
        ln = struct.unpack('>I', data[:4])[0]
        res.append(M.loads(data[4 : 4 + ln]))
        data = data[4 + ln :]
    return res


def unit_of(msg):
    return (msg.jobid, msg.target if msg.target else ALL)


# --------------------------------------------------------------------------------------------------------------
# the simulation
# --------------------------------------------------------------------------------------------------------------


class Universe:
    '''one bounded world: graph spec x target list x worker pool size x algorithms with a new version at load'''

    def __init__(self, spec, targets, workers, init=()):
        self.spec = spec
        self.targets = list(targets)
        self.workers = int(workers)
        self.init = tuple(sorted(init))

    def to_json(self):
        return {
            'spec': self.spec.to_json(),
            'targets': list(self.targets),
            'workers': self.workers,
            'init': list(self.init),
        }

    @staticmethod
    def from_json(d):
        return Universe(Spec.from_json(d['spec']), d['targets'], d['workers'], d.get('init', ()))

    def label(self):
        return '%s:%s|T%d|W%d|I%s' % (
            self.spec.kinds,
            ','.join('%d%d%s' % e for e in self.spec.edges),
            len(self.targets),
            self.workers,
            ''.join(str(i) for i in self.init),
        )


class EventCfg:
    '''which events are offered in a state'''

    def __init__(
        self,
        run_targets=(('T1',), ('T2',)),
        run_nodes=None,
        run_all=False,
        run_empty=False,
        timers=False,
        outcomes=('S', 'Sp', 'Sq', 'Spq', 'F', 'I'),
        db_faults=0,
        reloads=0,
    ):
        self.run_targets = [list(t) for t in run_targets]
        self.run_nodes = run_nodes
        self.run_all = run_all
        self.run_empty = run_empty
        self.timers = timers
        self.outcomes = list(outcomes)
        self.db_faults = int(db_faults)  # faulty dispatch ticks offered per history
        self.reloads = int(reloads)  # reloads (schedule.build again in the same process) offered per history


class Sim:
    def __init__(self, universe, tmp=None):
        self.u = universe
        self.spec = universe.spec
        self.targets = list(universe.targets)
        self.own_tmp = tmp is None
        self.tmp = tmp if tmp else tempfile.mkdtemp(prefix='verif_sched_')
        self.fe = os.path.join(self.tmp, 'fe')
        self.dbs = os.path.join(self.tmp, 'dbs')
        os.makedirs(self.fe, exist_ok=True)
        os.makedirs(self.dbs, exist_ok=True)
        self.base, self.facs, self.mods = make_engine(self.spec)
        self.nodes = {}
        self.running = []
        self.runid_counter = 0
        self.incarnation = 0
        self.chron_dirty = False
        self.steps = 0
        self.db_fault = False
        self.db_fault_hits = 0
        self.faults_used = 0
        self.reloads_used = 0
        self.reset()

    # ---- life cycle -------------------------------------------------------------------------------------
    def close(self):
        if _CUR[0] is self:
            _CUR[0] = None
        if self.own_tmp:
            shutil.rmtree(self.tmp, ignore_errors=True)

    def _activate(self):
        _CUR[0] = self
        dawgie.context.ae_base_package = self.base
        dawgie.context.fe_path = self.fe
        dawgie.context.site_path = ''
        dawgie.context.data_dbs = self.dbs
        dawgie.context.git_rev = GIT_REV
        dawgie.context.db_impl = 'simfake'
        assert not dawgie.context.allow_promotion, 'assumption A2: promotion must be off'

    def reset(self):
        self._activate()
        _fresh_process_state()
        F.clear()
        F._reject.clear()
        F._repeat.clear()
        F.ARCHIVE = False
        F.insights = {}
        del S.err[:]
        del S.suc[:]
        del S.booted[:]
        S.pipeline_paused = False
        S.promote.clear()
        self._wipe_chron()
        self.runid_counter = 0
        self.incarnation = 0
        self.running = []
        self.db_fault = False
        self.db_fault_hits = 0
        self.faults_used = 0
        self.reloads_used = 0
        self._load()
        for _ in range(self.u.workers):
            self._register()
        return

    def _load(self):
        '''schedule.build with this universe's factories and version tables (initial load and every reload)'''
        latest = [{self.spec.tags[i]: '1.0.0' for i in self.u.init}, {}, {}]
        S.build(self.facs, latest, [{}, {}, {}, {}])
        self.nodes = {}
        for r in S.ae.at:
            self._walk(r)
        # the task tree the scheduler walks must hold every algorithm, each consumer as a child of its producers
        self.tree_defects = []
        for t in sorted(set(self.spec.tags) - set(self.nodes)):
            self.tree_defects.append('algorithm %s is not reachable from the roots of the task tree' % t)
        for i, j, f in self.spec.edges:
            a, b = self.nodes.get(self.spec.tags[i]), self.nodes.get(self.spec.tags[j])
            if a is not None and b is not None and not any(c is b for c in a):
                self.tree_defects.append('%s declares %s of %s but is not its child in the task tree' % (
                    self.spec.tags[j], f, self.spec.tags[i]))
        assert not set(self.nodes) - set(self.spec.tags), (sorted(self.nodes), self.spec.tags)

    def farm_quiet(self):
        '''nothing handed to a worker and nothing queued for one (what FSM.wait_for_crew waits for)'''
        return not (F._busy or F._cluster or F._cloud or F._jobs or F._reject or F._repeat or self.running)

    def _walk(self, n):
        if n.tag in self.nodes:
            assert self.nodes[n.tag] is n, 'assumption A4: one node per tag'
            return
        self.nodes[n.tag] = n
        for c in n:
            self._walk(c)

    def _register(self):
        self.incarnation += 1
        h = F.Hand(IPV4('simhost', self.incarnation))
        h.transport = FakeTransport()
        h.dataReceived(
            frame(M.make(typ=M.Type.register, inc=self.incarnation, rev=GIT_REV))
        )
        return h

    def _wipe_chron(self):
        # remove the journal files only (rmdir is slow); the checks on the chronicle are before/after deltas
        for dp, _dn, fns in os.walk(os.path.join(self.dbs, 'chronicles')):
            for fn in fns:
                os.unlink(os.path.join(dp, fn))
        self.chron_dirty = False

    def chron_entries(self):
        res = []
        root = os.path.join(self.dbs, 'chronicles')
        for dp, _dn, fns in os.walk(root):
            for fn in fns:
                if fn.endswith('.json'):
                    with open(os.path.join(dp, fn), 'rt', encoding='utf-8') as f:
                        for e in json.load(f):
                            res.append(
                                (e.get('runid'), e.get('task'), e.get('target'), e.get('status'))
                            )
        return res

    # ---- state access -----------------------------------------------------------------------------------
    def node(self, i):
        return self.nodes[self.spec.tags[i]]

    def todo(self, tag):
        return set(self.nodes[tag].get('todo'))

    def doing(self, tag):
        return set(self.nodes[tag].get('doing'))

    def pending(self, tag):
        n = self.nodes[tag]
        return set(n.get('todo')) | set(n.get('doing'))

    def abstract(self):
        nodes = {}
        for t in self.spec.tags:
            n = self.nodes[t]
            nodes[t] = {
                'todo': sorted(n.get('todo')),
                'doing': sorted(n.get('doing')),
                'do': sorted(n.get('do')),
                'status': n.get('status').name,
            }
        return {
            'nodes': nodes,
            'que': [j.tag for j in S.que],
            'cluster': [unit_of(m) for m in F._cluster],
            'cloud': [unit_of(m) for m in F._cloud],
            'jobs': [j.tag for j in F._jobs],
            'busy': list(F._busy),
            'idle_workers': len(F._workers),
            'running': [unit_of(m) for m in self.running],
        }

    def views(self):
        '''the pipeline's own reports (used by C03/C04)'''
        try:
            crew = F.crew()
            busy = [b.split(' duration:')[0] for b in crew['busy']]
            idle = crew['idle']
        except Exception as e:  # crew() itself blew up
            busy, idle = 'EXC ' + repr(e), None
        return {
            'que': [j.tag for j in S.que],
            'view_todo': S.view_todo(),
            'view_doing': S.view_doing(),
            'crew_busy': busy,
            'crew_idle': idle,
        }

    def is_idle(self):
        '''nothing pending or in flight, computed from the raw state (not from que)'''
        for n in self.nodes.values():
            if n.get('todo') or n.get('doing') or n.get('do'):
                return False
        return not (F._jobs or F._cluster or F._cloud or F._busy or self.running)

    def key(self):
        '''concrete scheduler + farm state; run ids by rank, time stamps dropped; the insertion order of
        `todo` and the order of `que` among equal levels are dropped too because they depend on the
        interpreter's string hash seed (set iteration in organize/update), which would make counts irreproducible'''
        rids = set()
        for n in self.nodes.values():
            if n.get('runid') is not None:
                rids.add(n.get('runid'))
        for m in itertools.chain(F._cluster, self.running):
            if m.runid is not None:
                rids.add(m.runid)
        rank = {r: k for k, r in enumerate(sorted(rids))}
        rank[None] = -1
        nodes = tuple(
            (
                frozenset(self.nodes[t].get('todo')),
                frozenset(self.nodes[t].get('doing')),
                frozenset(self.nodes[t].get('do')),
                self.nodes[t].get('status').name,
                rank[self.nodes[t].get('runid')],
            )
            for t in self.spec.tags
        )
        return (
            nodes,
            tuple(sorted(j.tag for j in S.que)),
            tuple((m.jobid, m.target, rank[m.runid]) for m in F._cluster),
            tuple(j.tag for j in F._jobs),
            tuple(sorted(F._busy)),
            tuple(sorted((m.jobid, m.target or ALL, rank[m.runid]) for m in self.running)),
            len(F._workers),
            self.faults_used,
            self.reloads_used,
        )

    # ---- snapshot / restore -----------------------------------------------------------------------------
    def snapshot(self):
        nodes = {}
        for t, n in self.nodes.items():
            nodes[t] = (
                list(n.get('todo')),
                set(n.get('doing')),
                set(n.get('do')),
                n.get('status'),
                n.get('runid'),
                n.get('event'),
            )
        return {
            'nodes': nodes,
            'que': [j.tag for j in S.que],
            'busy': list(F._busy),
            'time': dict(F._time),
            'cluster': list(F._cluster),
            'cloud': list(F._cloud),
            'jobs': [j.tag for j in F._jobs],
            'workers': list(F._workers),
            'reject': list(F._reject),
            'repeat': list(F._repeat),
            'archive': F.ARCHIVE,
            'promote': {
                k: (v[0], list(v[1]), v[2], list(v[3])) for k, v in S.promote._todo.items()
            },
            'running': list(self.running),
            'runid_counter': self.runid_counter,
            'incarnation': self.incarnation,
            'faults_used': self.faults_used,
            'reloads_used': self.reloads_used,
        }

    def restore(self, s):
        self._activate()
        for t, (todo, doing, do, status, runid, event) in s['nodes'].items():
            n = self.nodes[t]
            n.set('todo', dawgie.util.fifo.Unique(list(todo)))
            n.set('doing', set(doing))
            n.set('do', set(do))
            n.set('status', status)
            n.set('runid', runid)
            if event is None:
                n.attrib.pop('event', None)
            else:
                n.set('event', event)
            n.attrib.pop('period', None)
        S.que = [self.nodes[t] for t in s['que']]
        S.per = []
        del S.booted[:]
        del S.err[:]
        del S.suc[:]
        F._busy[:] = s['busy']
        F._time.clear()
        F._time.update(s['time'])
        F._cluster[:] = s['cluster']
        F._cloud[:] = s['cloud']
        F._jobs[:] = [self.nodes[t] for t in s['jobs']]
        F._workers[:] = s['workers']
        for h in F._workers:
            h.transport.buf = []
            h.transport.closed = False
        F._reject[:] = s['reject']
        F._repeat[:] = s['repeat']
        F.ARCHIVE = s['archive']
        S.promote._todo.clear()
        S.promote._todo.update(
            {k: (v[0], list(v[1]), v[2], list(v[3])) for k, v in s['promote'].items()}
        )
        self.running = list(s['running'])
        self.runid_counter = s['runid_counter']
        self.incarnation = s['incarnation']
        self.faults_used = s.get('faults_used', 0)
        self.reloads_used = s.get('reloads_used', 0)
        self.db_fault = False
        if self.chron_dirty:
            self._wipe_chron()

    # ---- events -----------------------------------------------------------------------------------------
    def events(self, cfg):
        evs = []
        run_nodes = range(self.spec.n) if cfg.run_nodes is None else cfg.run_nodes
        for i in run_nodes:
            if self.spec.is_analysis(i):
                evs.append(['run', i, [ALL]])
            else:
                for ts in cfg.run_targets:
                    if all(t in self.targets for t in ts) and ts:
                        evs.append(['run', i, list(ts)])
                if cfg.run_all:
                    evs.append(['run', i, [ALL]])
                if cfg.run_empty:
                    evs.append(['run', i, []])
            if cfg.timers:
                evs.append(['timer', i])
        evs.append(['tick'])
        if self.faults_used < cfg.db_faults and (
            F._jobs or any(n.get('todo') for n in self.nodes.values())
        ):
            evs.append(['tick-dbfault'])
            if len(F._jobs) + sum(1 for n in self.nodes.values() if n.get('todo')) > 1:
                evs.append(['tick-dbfault', 1])  # ... going down after the first run id of this dispatch was handed out
        if self.reloads_used < cfg.reloads and self.farm_quiet():
            evs.append(['reload'])
        seen = collections.Counter()
        for m in sorted(self.running, key=lambda m: (m.jobid, m.target or ALL, m.runid)):
            u = unit_of(m)
            k = seen[u]
            seen[u] += 1
            for o in cfg.outcomes:
                evs.append(['reply', u[0], u[1], k, o])
        return evs

    def step(self, ev):
        '''apply one event to the real code; returns the step record'''
        self._activate()
        self.steps += 1
        trace = {
            k: []
            for k in ['njb', 'put', 'complete', 'update', 'purge', 'chron', 'organize', 'promote']
        }
        rec = {'ev': ev, 'pre': self.abstract(), 'trace': trace, 'exception': None}
        _TRACE[0] = trace
        try:
            kind = ev[0]
            if kind == 'run':
                # exactly what dawgie.fe.api.cmd_run does
                S.organize(
                    task_names={self.spec.tags[ev[1]]},
                    targets=set(ev[2]),
                    event='command-run requested by user',
                )
            elif kind == 'timer':
                self._timer(ev[1])
            elif kind == 'tick':
                self._tick(rec)
            elif kind == 'tick-dbfault':
                self.faults_used += 1
                self.db_fault_hits = 0
                self.db_fault = True
                self.db_fault_after = int(ev[1]) if len(ev) > 1 else 0
                try:
                    self._tick(rec)
                finally:
                    self.db_fault = False
                    self.db_fault_after = 0
                    rec['db_fault_hits'] = self.db_fault_hits
            elif kind == 'reply':
                self._reply(ev, rec)
            elif kind == 'reload':
                self.reloads_used += 1
                rec['farm_quiet'] = self.farm_quiet()
                self._load()  # the live graph is the new one from here on (self.nodes follows it)
            elif kind in ('noop', 'expect-idle'):
                pass  # observe the state as it is (used to look at the state right after the load)
            else:
                raise ValueError('unknown event %r' % (ev,))
        except Exception as e:  # an exception escaping a reactor callback
            rec['exception'] = '%s: %s' % (type(e).__name__, e)
        finally:
            _TRACE[0] = None
        rec['post'] = self.abstract()
        rec['assumption_failures'] = [
            'A2: schedule.promote() returned truthy with promotion off'
            for noarg, res in trace['promote']
            if noarg and res
        ]
        return rec

    def _timer(self, i):
        n = self.node(i)
        mod = self.mods[i]
        ev = dawgie.schedule(getattr(mod, mod.KIND), mod.ALG, boot=True)
        S.per = [n]
        n.set('period', [ev])
        del S.booted[:]
        try:
            S.defer()
        finally:
            S.per = []
            del S.booted[:]
            n.attrib.pop('period', None)

    def _tick(self, rec):
        idle = list(F._workers)
        for h in idle:
            h.transport.take()
        rec['cluster_pre'] = [(m.jobid, m.target or ALL, m.runid) for m in F._cluster]
        F.dispatch()
        handed = []
        per_worker = []
        for h in idle:
            msgs = unframe(h.transport.take())
            tasks = [m for m in msgs if m.type == M.Type.task]
            if tasks:
                per_worker.append(len(tasks))
                for m in tasks:
                    handed.append(m)
                    self.running.append(m)
                # the worker closes its connection once it has a task (worker.cluster.execute)
                h.connectionLost(None)
        rec['handed'] = [(m.jobid, m.target or ALL, m.runid) for m in handed]
        rec['handed_types'] = [
            (m.type.name, tuple(m.factory) if m.factory else None) for m in handed
        ]
        rec['per_worker'] = per_worker
        rec['cluster_post'] = [(m.jobid, m.target or ALL, m.runid) for m in F._cluster]
        return

    def reply_values(self, msg, outcome):
        tgt = msg.target if msg.target else ALL
        new = set(outcome[1:])
        return [
            ('.'.join([str(msg.runid), tgt, msg.jobid, SVN, v]), v in new) for v in VALUES
        ]

    def _reply(self, ev, rec):
        _kind, tag, target, k, outcome = ev
        cands = sorted(
            [m for m in self.running if unit_of(m) == (tag, target)],
            key=lambda m: (m.jobid, m.target or ALL, m.runid),
        )
        m = cands[k]
        self.running.remove(m)
        timing = dict(m.timing)
        timing['started'] = datetime.datetime.now(datetime.UTC)
        if outcome.startswith('S'):
            values = self.reply_values(m, outcome)
            resp = M.make(
                typ=M.Type.response, inc=m.target, jid=m.jobid, rid=m.runid,
                suc=True, tim=timing, val=values,
            )  # fmt: skip
        else:
            values = None
            resp = M.make(
                typ=M.Type.response, inc=m.target, jid=m.jobid, rid=m.runid,
                suc=(False if outcome == 'F' else None), tim=timing,
            )  # fmt: skip
        rec['reply'] = {
            'unit': (tag, target),
            'runid': m.runid,
            'outcome': outcome,
            'values': values,
            'state': {'S': 'success', 'F': 'failure', 'I': 'invalid'}[outcome[0]],
        }
        before = collections.Counter(self.chron_entries())
        # the worker answers on a NEW connection (worker.cluster.execute), bytes through dataReceived
        self.incarnation += 1
        h = F.Hand(IPV4('simhost', self.incarnation))
        h.transport = FakeTransport()
        try:
            h.dataReceived(frame(resp))
        finally:
            h.connectionLost(None)
            after = collections.Counter(self.chron_entries())
            rec['chron_disk_delta'] = sorted((after - before).elements(), key=repr)
            rec['chron_disk_lost'] = sorted((before - after).elements(), key=repr)
            # a fresh worker takes the place of the one that answered
            self._register()
        return


# --------------------------------------------------------------------------------------------------------------
# monitors (oracles) plug in here
# --------------------------------------------------------------------------------------------------------------


class Monitor:
    '''base class of the per-property oracles; ghost state must be copyable and hashable via key()'''

    def __init__(self, universe):
        self.u = universe
        self.spec = universe.spec

    def reset(self):
        return

    def state(self):
        return None

    def restore(self, st):
        return

    def key(self):
        return None

    def after(self, sim, ev, rec):
        '''returns a list of violations {'clause','signature','observed','expected'}'''
        return []


def purged_in_flight(rec, purged):
    '''ghost shared by C02/C03/C05: the in-flight units whose target was removed from their node's `doing` by
    the failure/invalid reply of ANOTHER unit while they were executing.  Only used to give a dropped reply a
    stable signature (the KNOWN finding 'reply-after-purge-of-executing-dependent').  Returns the new set.'''
    if rec['ev'][0] != 'reply':
        return purged
    r = rec['reply']
    unit = tuple(r['unit'])
    pre, post = rec['pre'], rec['post']
    cur = set(purged)
    cur.discard(unit)
    if r['state'] != 'success':
        for tag, tgt in set(post['running']):
            if (tag, tgt) != unit and tgt in pre['nodes'][tag]['doing'] and (
                tgt not in post['nodes'][tag]['doing']
            ):
                cur.add((tag, tgt))
    return frozenset(u for u in cur if u in set(post['running']))


def dropped_signature(rec, purged, otherwise):
    '''signature for a reply that never reached schedule.complete'''
    unit = tuple(rec['reply']['unit'])
    if not rec['trace']['complete']:
        return (
            'reply-after-purge-of-executing-dependent'
            if unit in purged
            else 'reply-dropped-job-not-in-queue'
        )
    return otherwise


def common_violations(prop, rec):
    '''things every harness reports: broken assumption A2 or an exception escaping a callback'''
    res = []
    for a in rec.get('assumption_failures', []):
        res.append(
            {
                'clause': prop + '.assume-A2',
                'signature': 'promotion-not-off',
                'observed': a,
                'expected': 'schedule.promote() falsy when dawgie.context.allow_promotion is False',
            }
        )
    if rec.get('exception'):
        res.append(
            {
                'clause': prop + '.no-exception',
                'signature': 'exception@%s:%s' % (rec['ev'][0], rec['exception'].split(':')[0]),
                'observed': rec['exception'],
                'expected': 'the event is handled (no exception escapes the reactor callback)',
            }
        )
    return res


# --------------------------------------------------------------------------------------------------------------
# exploration drivers
# --------------------------------------------------------------------------------------------------------------


class Result:
    def __init__(self):
        self.cases = 0  # events executed on the real code
        self.distinct = set()  # hashes of (state key, event)
        self.found = {}  # (clause, signature) -> violation dict with input
        self.samples = []
        self.truncated = False
        self.max_depth = 0
        self.states = 0
        self.walks = 0
        self.scripts = 0  # scripted (enumerated, seed independent) linear histories run
        self.unconfirmed = 0
        self.unconfirmed_list = []

    def add_violation(self, u, hist, v, extra=None):
        k = (v['clause'], v['signature'])
        cur = self.found.get(k)
        size = (len(hist), u.spec.n, len(u.targets), u.workers)
        if cur is None or size < cur['_size']:
            nv = dict(v)
            nv['input'] = {'universe': u.to_json(), 'history': [list(e) for e in hist]}
            if extra:
                nv['input'].update(extra)
            nv['_size'] = size
            self.found[k] = nv

    def merge(self, other):
        self.cases += other.cases
        self.distinct |= other.distinct
        for k, v in other.found.items():
            cur = self.found.get(k)
            if cur is None or tuple(v['_size']) < tuple(cur['_size']):
                self.found[k] = v
        self.samples.extend(other.samples)
        self.truncated |= other.truncated
        self.max_depth = max(self.max_depth, other.max_depth)
        self.states += other.states
        self.walks += other.walks
        self.scripts += other.scripts
        self.unconfirmed += other.unconfirmed


def _h(x):
    return hash(x)


def bfs(sim, monitor, cfg, depth, cap, deadline, result, frontier_hook=None):
    '''breadth-first exploration of all event sequences of length <= depth from the universe's initial state;
    states whose concrete scheduler+farm+ghost state coincide (run ids compared by rank, time stamps ignored)
    are merged.  Every reachable (state, event) transition within the depth is executed once.'''
    u = sim.u
    sim.reset()
    monitor.reset()
    root = (sim.snapshot(), monitor.state(), [])
    seen = {(sim.key(), monitor.key())}
    frontier = [root]
    ulabel = u.label()
    cap = result.cases + cap  # cap counts the events of this call only
    for d in range(depth):
        nxt = []
        for snap, mst, hist in frontier:
            sim.restore(snap)
            evs = sim.events(cfg)
            skey = (sim.key(), monitor.key())
            for ev in evs:
                if result.cases >= cap or time.time() > deadline:
                    result.truncated = True
                    result.states += len(seen)
                    return frontier
                sim.restore(snap)
                monitor.restore(mst)
                rec = sim.step(ev)
                result.cases += 1
                result.distinct.add(_h((ulabel, skey, json.dumps(ev))))
                vs = monitor.after(sim, ev, rec)
                h2 = hist + [ev]
                for v in vs:
                    result.add_violation(u, h2, v)
                k = (sim.key(), monitor.key())
                if k not in seen:
                    seen.add(k)
                    nxt.append((sim.snapshot(), monitor.state(), h2))
                    result.max_depth = max(result.max_depth, d + 1)
        frontier = nxt
        if frontier_hook is not None:
            frontier_hook(sim, monitor, frontier, d + 1)
        if not frontier:
            break
    result.states += len(seen)
    return frontier


def choose_event(sim, cfg, rng, bias=None):
    evs = sim.events(cfg)
    bias = bias or {'run': 1.0, 'timer': 0.5, 'tick': 3.0, 'reply': 1.0}
    groups = collections.OrderedDict()
    for e in evs:
        groups.setdefault(e[0], []).append(e)
    kinds = list(groups)
    weights = [bias.get(k, 1.0) * (1 if k != 'reply' else 2) for k in kinds]
    kind = rng.choices(kinds, weights=weights)[0]
    return rng.choice(groups[kind])


def drain(sim, monitor, rng, result, hist, outcomes, max_steps=400):
    '''workers always answer, no further external events: run to quiescence.
    returns (quiescent, history)'''
    u = sim.u
    cfg = EventCfg(run_nodes=[], outcomes=outcomes)
    steps = 0
    stale_ticks = 0
    while not sim.is_idle() and steps < max_steps:
        evs = sim.events(cfg)
        replies = [e for e in evs if e[0] == 'reply']
        if replies and (stale_ticks > 0 or rng.random() < 0.6):
            ev = rng.choice(replies)
        else:
            ev = ['tick']
        key0 = sim.key()
        rec = sim.step(ev)
        result.cases += 1
        steps += 1
        hist = hist + [ev]
        for v in monitor.after(sim, ev, rec):
            result.add_violation(u, hist, v)
        if ev[0] == 'tick' and sim.key() == key0:
            stale_ticks += 1
            if stale_ticks > 2 and not sim.running:
                break  # stuck: ticks change nothing and nobody is working
        else:
            stale_ticks = 0
    return sim.is_idle(), hist


def walk(sim, monitor, cfg, rng, length, result, bias=None, drain_outcomes=None):
    '''one seeded random history of `length` events from the initial state (optionally run to quiescence)'''
    u = sim.u
    sim.reset()
    monitor.reset()
    hist = []
    ulabel = u.label()
    for _ in range(length):
        ev = choose_event(sim, cfg, rng, bias)
        skey = (sim.key(), monitor.key())
        rec = sim.step(ev)
        result.cases += 1
        result.distinct.add(_h((ulabel, skey, json.dumps(ev))))
        hist.append(ev)
        for v in monitor.after(sim, ev, rec):
            result.add_violation(u, list(hist), v)
    quiescent = None
    if drain_outcomes is not None:
        quiescent, hist = drain(sim, monitor, rng, result, hist, drain_outcomes)
    result.walks += 1
    return hist, quiescent


def run_scripts(job, monitor_factory):
    '''one universe, a list of scripted histories; each is run linearly from the initial state (Sim.reset, no
    snapshot/restore, so what a history shows does not depend on the histories run before it) and is fully
    determined by the script - no seed.  `job`: universe, cfg (EventCfg kwargs: which optional events are
    enabled), scripts, deadline, sample.  A script is a list of steps:

    * a concrete event (['run', i, [targets]], ['tick'], ['reload'], ['noop'] ...): executed if it is enabled in
      the current state (Sim.events), otherwise the rest of the script is dropped;
    * ['reply*', outcome]: the first in-flight unit (sorted) answers with `outcome`; skipped if nobody works;
    * ['drain', outcome, n]: workers always answer `outcome`, no external event, at most n events: reply of the
      first in-flight unit, else a dispatch tick while something is pending; ends at quiescence or when a tick
      changes nothing.

    The concrete events really executed are the history recorded with a violation (generic_replay re-runs it).'''
    u = Universe.from_json(job['universe'])
    cfg = EventCfg(**job.get('cfg', {}))
    res = Result()
    sim = Sim(u)
    ulabel = u.label()
    try:
        mon = monitor_factory(u)

        def do(ev, hist):
            skey = (sim.key(), mon.key())
            rec = sim.step(ev)
            res.cases += 1
            res.distinct.add(_h((ulabel, skey, json.dumps(ev))))
            hist.append(ev)
            for v in mon.after(sim, ev, rec):
                res.add_violation(u, list(hist), v)

        def first_reply(outcome):
            ms = sorted(sim.running, key=lambda m: (m.jobid, m.target or ALL, m.runid))
            return ['reply', ms[0].jobid, ms[0].target or ALL, 0, outcome] if ms else None

        for k, script in enumerate(job['scripts']):
            if time.time() > job['deadline']:
                res.truncated = True
                break
            sim.reset()
            mon.reset()
            hist = []
            for stp in script:
                if stp[0] == 'reply*':
                    ev = first_reply(stp[1])
                    if ev is not None:
                        do(ev, hist)
                elif stp[0] == 'drain':
                    for _ in range(stp[2]):
                        ev = first_reply(stp[1])
                        if ev is None:
                            if sim.is_idle():
                                break
                            ev = ['tick']
                        key0 = sim.key()
                        do(ev, hist)
                        if ev[0] == 'tick' and sim.key() == key0 and not sim.running:
                            break  # stuck: the tick changed nothing and nobody is working
                else:
                    ev = [list(x) if isinstance(x, (list, tuple)) else x for x in stp]
                    if ev[0] not in ('noop', 'expect-idle') and ev not in sim.events(cfg):
                        break
                    do(ev, hist)
            res.scripts += 1
            if k == 0 and job.get('sample'):
                res.samples.append({'universe': u.to_json(), 'history': hist})
    finally:
        sim.close()
    return res


def tree_violation(sim, mon):
    '''the engine's task tree disagrees with the declared inputs: a violation for the harness whose monitor names
    the clause it breaks (TREE_CLAUSE), otherwise the simulation cannot be set up (machinery error)'''
    if not sim.tree_defects:
        return None
    clause = getattr(mon, 'TREE_CLAUSE', None)
    if clause is None:
        raise AssertionError('task tree of the synthetic engine is not what its inputs declare: %s' % sim.tree_defects[:3])
    return {'clause': clause, 'signature': 'consumer-not-in-task-tree', 'observed': {'task_tree': sim.tree_defects[:6]},
            'expected': 'every algorithm is in the task tree and is a child of each algorithm whose values it declares '
                        'as input (schedule.update organises children of the reporting node only)'}


def replay_history(universe, history, monitor_factory, tmp=None):
    '''fresh simulation, linear replay; returns (violations found with index, records)'''
    sim = Sim(universe, tmp)
    try:
        mon = monitor_factory(universe)
        mon.reset()
        out = []
        tv = tree_violation(sim, mon)
        if tv is not None:
            return [(0, tv)]
        for idx, ev in enumerate(history):
            ev = list(ev)
            if ev[0] == 'reply':
                cands = [m for m in sim.running if unit_of(m) == (ev[1], ev[2])]
                if len(cands) <= ev[3]:
                    out.append(
                        (idx, {'clause': 'replay', 'signature': 'event-not-enabled',
                               'observed': ev, 'expected': 'unit in flight'})
                    )  # fmt: skip
                    break
            rec = sim.step(ev)
            for v in mon.after(sim, ev, rec):
                out.append((idx, v))
        return out
    finally:
        sim.close()


def confirm(result, monitor_factory, tmp=None, special=None):
    '''keep only violations that reproduce on a fresh linear replay of their history (`special(input)` re-runs
    inputs that are not plain event histories and returns the violations it saw)'''
    final = []
    for k in sorted(result.found):
        v = result.found[k]
        u = Universe.from_json(v['input']['universe'])
        if special is not None and v['input'].get('special'):
            got = [(0, x) for x in special(v['input'])]
        else:
            got = replay_history(u, v['input']['history'], monitor_factory, tmp)
        if any((x['clause'], x['signature']) == k for _i, x in got):
            nv = {kk: vv for kk, vv in v.items() if not kk.startswith('_')}
            final.append(nv)
        else:
            result.unconfirmed += 1
            result.unconfirmed_list.append(
                {'clause': k[0], 'signature': k[1], 'input': v['input'], 'replay_saw': [x for _i, x in got][:3]}
            )
    return final


def generic_replay(case, monitor_factory):
    '''implementation of harness.replay(): case is a violation's 'input' (or the violation itself)'''
    inp = case.get('input', case)
    u = Universe.from_json(inp['universe'])
    got = replay_history(u, inp['history'], monitor_factory)
    want = (case.get('clause'), case.get('signature')) if 'clause' in case else None
    hits = [
        (i, x)
        for i, x in got
        if x['clause'] != 'replay' and (want is None or (x['clause'], x['signature']) == want)
    ]
    if hits:
        i, x = hits[0]
        return {
            'reproduced': True,
            'observed': x['observed'],
            'expected': x['expected'],
            'clause': x['clause'],
            'signature': x['signature'],
            'at_event': i,
        }
    return {
        'reproduced': False,
        'observed': [dict(x, at_event=i) for i, x in got][:5],
        'expected': 'violation %r' % (want,),
    }


def explore_job(job, monitor_factory, frontier_hook=None):
    '''one universe: BFS (seed independent) then seeded random walks.  `job` is a JSON-able dict:
    universe, cfg (EventCfg kwargs), depth, cap, walks, walk_len, seed, deadline, drain (outcomes or None),
    sample (bool).'''
    u = Universe.from_json(job['universe'])
    cfg = EventCfg(**job.get('cfg', {}))
    res = Result()
    sim = Sim(u)
    try:
        mon = monitor_factory(u)
        tv = tree_violation(sim, mon)
        if tv is not None:
            res.add_violation(u, [], tv)
            res.cases += 1
            return res
        if job.get('depth', 0) > 0:
            hook = None
            if frontier_hook is not None:
                hook = lambda s, m, fr, d: frontier_hook(s, m, fr, d, job, res)  # noqa: E731
            bfs(sim, mon, cfg, job['depth'], job.get('cap', 10**9), job['deadline'], res, hook)
        rng = random.Random('%s|%s' % (job.get('seed', 0), u.label()))
        wcfg = EventCfg(**job.get('walk_cfg', job.get('cfg', {})))
        for w in range(job.get('walks', 0)):
            if time.time() > job['deadline']:
                res.truncated = True
                break
            hist, quiescent = walk(
                sim, mon, wcfg, rng, job.get('walk_len', 7), res,
                bias=job.get('bias'), drain_outcomes=job.get('drain'),
            )  # fmt: skip
            if job.get('drain') is not None:
                # end of a drained history: the oracle may now state what must hold at quiescence
                ev = ['expect-idle']
                rec = sim.step(ev)
                hist = hist + [ev]
                for v in mon.after(sim, ev, rec):
                    res.add_violation(u, hist, v)
            if w == 0 and job.get('sample'):
                res.samples.append({'universe': u.to_json(), 'history': hist})
    finally:
        sim.close()
    return res


def tier_jobs(tier, seed, deadline, cfg, walk_cfg, drain=None, bias=None, depth_delta=0,
              thorough_cap=600, walks_quick=5, walks_thorough=10):
    '''the common plan of universes / bounds used by c01..c05 (each harness may append its own jobs)'''
    jobs = []

    def job(u, depth, cap, walks, walk_len, sample=False):
        jobs.append(
            {
                'universe': u.to_json(), 'cfg': cfg, 'walk_cfg': walk_cfg, 'depth': depth, 'cap': cap,
                'walks': walks, 'walk_len': walk_len, 'seed': seed, 'deadline': deadline, 'drain': drain,
                'bias': bias, 'sample': sample,
            }
        )  # fmt: skip

    if tier == 'quick':
        for k, spec in enumerate(curated_specs()):
            big = spec.n >= 4
            for targets, workers, depth in (
                (['T1'], 1, 4 if big else 5),
                (['T1'], 2, 5 if big else 6),
                (['T1', 'T2'], 2, 3 if big else 4),
            ):
                job(
                    Universe(spec, targets, workers), max(1, depth + depth_delta), 10**9,
                    walks_quick, 7 + (k + workers) % 6, sample=(k in (1, 5) and len(targets) == 2),
                )  # fmt: skip
    else:
        # the long jobs first (no tail when they are spread over the 16 processes)
        for k, spec in enumerate(curated_specs()):
            for targets, workers in ((['T1'], 1), (['T1'], 2), (['T1', 'T2'], 1), (['T1', 'T2'], 3)):
                job(
                    Universe(spec, targets, workers), 8 + depth_delta, 10 * thorough_cap,
                    2 * walks_thorough, 18,
                )  # fmt: skip
        for k, spec in enumerate(all_specs(4)):
            job(
                Universe(spec, ['T1', 'T2'], 2), 7 + depth_delta, thorough_cap,
                walks_thorough, 14, sample=k in (40, 700),
            )  # fmt: skip
    return jobs


def run_tier(prop, tier, seed, jobs, job_fn, monitor_factory, rule, clauses, t0, special=None):
    parts = run_parallel(job_fn, jobs, 1 if tier == 'quick' else 16)
    res = Result()
    for p in parts:
        res.merge(p)
    # "exhaustive" is claimed for the BFS part only: every reachable (state, event) transition within the
    # stated depth of every universe of the tier was executed (no cap / deadline truncation)
    out = finish(prop, res, monitor_factory, rule, True, clauses, special=special)
    out['wall_s'] = round(time.time() - t0, 2)
    out['universes'] = len(jobs)
    out['bfs_depths'] = sorted({j['depth'] for j in jobs if 'scripts' not in j})
    return out


BOUND_TEXT = (
    'real schedule/farm code on synthetic engines.  quick: 11 curated DAGs (<= 4 algorithms; chains, diamonds, '
    'task/analysis mixes) x {1 target/1 worker, 1 target/2 workers, 2 targets/2 workers}: ALL event sequences '
    'of length <= 4..6 (3..5 for the 4-node graphs) with equal states merged, plus 4..6 seeded random histories '
    'of length 7..12 per universe.  thorough: every DAG on <= 4 topologically numbered algorithms x every '
    'task/analysis assignment (1098 graphs) x 2 targets x 2 workers: breadth-first event sequences of length '
    '<= 7 cut at 600 transitions per graph (so NOT exhaustive), the curated graphs x {1,2 targets} x {1,2,3 '
    'workers} to length 8 cut at 6000 transitions, plus 10..20 seeded random histories of length 14..18 per '
    'universe (16 processes; a wall-clock guard may cut further on a loaded machine and is reported as '
    'truncated)'
)

RULE = (
    'a case is one event applied to the real schedule/farm code.  Part 1 (seed independent): per universe '
    '(graph x targets x workers) breadth-first over all event sequences up to the stated depth - run request '
    'per algorithm and target, dispatch tick, reply of any in-flight unit with success{},{p},{q},{p,q} new / '
    'failure / invalid - merging states whose concrete scheduler+farm(+ghost) state coincide (run ids by rank; '
    'time stamps, todo insertion order and que order dropped); "exhaustive" refers to this part: every '
    'reachable (state,event) transition within the depth was executed.  Part 2: seeded random histories '
    '(also timer events, all-target and empty requests).  distinct = distinct (universe, state, event) '
    'triples; non-trivial = the event was enabled in a state reached on the real code.'
)


# ---- parallel helper ---------------------------------------------------------------------------------------


def run_parallel(fn, jobs, procs):
    '''map fn over jobs; results in job order.  fn must be a module level function; each job runs in a forked
    child (own monkey patches, own temp dir).  No process outlives this call.'''
    if procs <= 1 or len(jobs) <= 1:
        return [fn(j) for j in jobs]
    import multiprocessing

    ctx = multiprocessing.get_context('fork')
    with ctx.Pool(processes=min(procs, len(jobs))) as pool:
        res = pool.map(fn, jobs, chunksize=1)
        pool.close()
        pool.join()
    return res


def finish(prop, result, monitor_factory, rule, exhaustive, clauses, bound_note='', special=None):
    viol = confirm(result, monitor_factory, special=special)
    out = {
        'cases': result.cases,
        'distinct': len(result.distinct),
        'rule': rule,
        'exhaustive': bool(exhaustive and not result.truncated),
        'samples': result.samples[:5],
        'violations': viol,
        'clauses': clauses,
        'states': result.states,
        'walks': result.walks,
        'max_depth': result.max_depth,
        'truncated': result.truncated,
        'unconfirmed': result.unconfirmed,
        'unconfirmed_list': result.unconfirmed_list[:5],
    }
    if bound_note:
        out['bound_note'] = bound_note
    if result.scripts:
        out['scripts'] = result.scripts
    return out
