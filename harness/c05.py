'''C05  A failed run is contained to its own target and its dependents  (bounded run-time harness).

A failure / invalid reply is injected at every in-flight unit (X, T) of every state reached by the common
exploration; all todo/doing sets are compared before and after farm.Hand._res (bytes through dataReceived):

* C05.withdrawn   T is in the todo of NO transitive dependent of X afterwards (dependents computed from the
                  declared inputs of the synthetic engine, not from the node tree);
* C05.frame       for every algorithm and every target t != T membership of t in todo/doing is unchanged, and
                  for every algorithm that is neither X nor a transitive dependent of X todo and doing are
                  unchanged altogether (X's own sets are not judged beyond the other targets: the statement
                  is silent about them);
* C05.no-trigger  no node's todo grows, and neither schedule.update nor schedule.organize is called;
* C05.recorded    exactly one chronicle entry (monitor on chronicle.append and the json file on disk) with
                  task X, target T, the unit's run id and status 'failure' / 'invalid'.
'''

import time

from . import _sched_sim as X

PROPERTY = 'C05'
BOUND = X.BOUND_TEXT + '; failure and invalid replies are offered for every in-flight unit of every state reached'
CLAUSES = ['C05.withdrawn', 'C05.frame', 'C05.no-trigger', 'C05.recorded']


class Mon(X.Monitor):
    def reset(self):
        self.purged = frozenset()

    def state(self):
        return self.purged

    def restore(self, st):
        self.purged = st

    def key(self):
        return self.purged

    def after(self, sim, ev, rec):
        out = X.common_violations(PROPERTY, rec)
        if ev[0] == 'reply' and rec['reply']['state'] != 'success':
            spec = self.spec
            r = rec['reply']
            xtag, T = r['unit']
            x = spec.index[xtag]
            deps = {spec.tags[j] for j in spec.downstream(x)}
            pre, post = rec['pre']['nodes'], rec['post']['nodes']
            left = [d for d in sorted(deps) if T in post[d]['todo']]
            if left:
                out.append(
                    {
                        'clause': 'C05.withdrawn',
                        'signature': X.dropped_signature(rec, self.purged, 'target-still-pending-in-dependent'),
                        'observed': {'failed': [xtag, T, r['state']],
                                     'dependents_still_pending': {d: post[d]['todo'] for d in left}},
                        'expected': '%s not in the todo of any transitive dependent of %s' % (T, xtag),
                    }
                )  # fmt: skip
            changed = {}
            for tag in spec.tags:
                for fld in ('todo', 'doing'):
                    a, b = set(pre[tag][fld]), set(post[tag][fld])
                    if tag != xtag and tag not in deps:
                        if a != b:
                            changed['%s.%s' % (tag, fld)] = [sorted(a), sorted(b)]
                    else:
                        if a - {T} != b - {T}:
                            changed['%s.%s(other targets)' % (tag, fld)] = [sorted(a), sorted(b)]
            if changed:
                out.append(
                    {
                        'clause': 'C05.frame',
                        'signature': 'unrelated-work-changed-by-failure',
                        'observed': {'failed': [xtag, T, r['state']], 'changed': changed},
                        'expected': 'other targets and algorithms not depending on %s unchanged' % xtag,
                    }
                )
            grown = {
                tag: [pre[tag]['todo'], post[tag]['todo']]
                for tag in spec.tags
                if set(post[tag]['todo']) - set(pre[tag]['todo'])
            }
            tr = rec['trace']
            if grown or tr['update'] or tr['organize']:
                out.append(
                    {
                        'clause': 'C05.no-trigger',
                        'signature': 'failed-run-triggered-work',
                        'observed': {'failed': [xtag, T, r['state']], 'todo_grown': grown,
                                     'update_calls': tr['update'], 'organize_calls': tr['organize']},
                        'expected': 'no todo grows; update/organize not called for a failed run',
                    }
                )  # fmt: skip
            want = (r['runid'], xtag, T, r['state'])
            if tr['chron'] != [want] or rec['chron_disk_delta'] != [want] or rec['chron_disk_lost']:
                out.append(
                    {
                        'clause': 'C05.recorded',
                        'signature': X.dropped_signature(rec, self.purged, 'outcome-not-recorded-once'),
                        'observed': {'failed': [xtag, T, r['state']], 'chronicle.append': tr['chron'],
                                     'on_disk_new': rec['chron_disk_delta'], 'que_before': rec['pre']['que']},
                        'expected': 'one history entry (runid, task, target, status) = %r' % (want,),
                    }
                )  # fmt: skip
        self.purged = X.purged_in_flight(rec, self.purged)
        return out


def _job(job):
    return X.explore_job(job, Mon)


CFG = {}
WALK_CFG = {'run_all': True, 'timers': True, 'run_empty': True}
BIAS = {'run': 1.5, 'timer': 0.3, 'tick': 2.5, 'reply': 1.2}


def run(tier, seed):
    t0 = time.time()
    deadline = t0 + (14 if tier == 'quick' else 230)
    jobs = X.tier_jobs(tier, seed, deadline, CFG, WALK_CFG, bias=BIAS)
    return X.run_tier(PROPERTY, tier, seed, jobs, _job, Mon, X.RULE, CLAUSES, t0)


def replay(case):
    return X.generic_replay(case, Mon)
