'''Bounded run-time harness for C19 (front-end static files and access control).

Static files: real temp directory trees (two site roots, files outside them,
symlinks inside pointing outside, sibling directories of the roots whose names
extend a root's name (fe_old, site_old: a string-prefix containment test accepts
them), directories inside the roots whose index.html is a symlink to an outside
file) and request paths from a segment grammar are given to the real dawgie.fe._static / StaticContent.render_GET; every file that
lies outside both roots carries a unique marker in its *content* only, and the
returned bytes must never contain such a marker.

Access control: every DynamicContent registered in the routing tree of
dawgie.fe.basis._root is rendered through the real Resource.render /
render_<METHOD> with a fake twisted request; the handler is replaced by a
recorder so that "was the handler invoked" is observable and nothing acts.
'''

import itertools
import logging
import os
import random
import re
import shutil
import tempfile
import zlib

PROPERTY = 'C19'
BOUND = (
    'static: 2 root configurations (plain; fe root given through a symlink and site root through a dotted path) '
    'x request paths over an 18-symbol segment alphabet {.., ., empty, %2e%2e, absolute path of an outside '
    'file, names of inside files/dirs, of outside files/dirs, of the roots, of 3 symlinks leaving the roots '
    'and 1 staying inside}, each run with (leading slashes, isdep, request) variants; quick: all paths of 1-2 '
    'segments x 4 variants (+ StaticContent.render_GET), all of 3 segments x 1 rotating variant, 3000 seeded '
    'paths of 4-5 segments; thorough (the space reported as exhaustive): all paths of 1-4 segments x 4 '
    'variants and all paths of 5 segments over the 12-symbol sub-alphabet x 1 rotating variant, plus 100000 '
    'seeded 5-segment paths over the full alphabet; access: every registered endpoint x '
    '{GET,POST,PUT,DELETE,HEAD} x {no client certs, certs + anonymous (TLS without cert / plain transport), '
    'certs + certificate} x {default hook, hook raising Exception, hook raising BaseException, hook that '
    'cannot be imported} x {Resource.render, render_<METHOD>} (always exhaustive); static, directed part (both '
    'tiers, same 2 root configurations): all paths over the 9-symbol alphabet {.., ., empty, sub, secret.txt, '
    'index.html, fe_old, site_old (sibling directories of the roots whose names have the root name as a string '
    'prefix, holding outside files and an index.html), docs (a directory inside each root whose index.html is '
    'a symlink to an outside file)}: quick 1-3 segments x 4 variants (+ render_GET for <= 2 segments); '
    'thorough 1-4 segments x 4 variants and 5 segments x 1 rotating variant'
)

REPO = os.environ.get('VERIF_REPO', '/repo')

import dawgie  # noqa: E402

assert dawgie.__file__.startswith(REPO + '/Python/'), dawgie.__file__

import dawgie.context  # noqa: E402
import dawgie.fe  # noqa: E402  (imports dawgie.fe.api and dawgie.fe.app: the registrations)
import dawgie.fe.api  # noqa: E402
import dawgie.fe.app  # noqa: E402
import dawgie.fe.basis  # noqa: E402
import dawgie.security  # noqa: E402

logging.disable(logging.CRITICAL)

CLAUSES = ['C19.static.contain', 'C19.access.anonymous', 'C19.access.hook-error']
MARK = b'OUTSIDE-CONTENT-'
INSIDE = b'inside-content-'


# ======================================================================= static
class _Fsm:
    @staticmethod
    def is_pipeline_active():
        return True


class _Req:
    '''the little of twisted.web.server.Request that the front end touches'''

    def __init__(self, uri=b'/', method=b'GET', args=None, transport=None):
        self.uri = uri
        self.path = uri.split(b'?')[0]
        self.method = method
        self.args = args if args is not None else {}
        self.transport = transport
        self.headers = {}
        self.code = 200
        self.written = []
        self.finished = False
        self.prepath = []
        self.postpath = []

    def setHeader(self, k, v):  # pylint: disable=invalid-name
        self.headers[k] = v

    def setResponseCode(self, code, message=None):  # pylint: disable=invalid-name,unused-argument
        self.code = code

    def write(self, data):
        self.written.append(data)

    def finish(self):
        self.finished = True

    def redirect(self, url):
        self.headers[b'location'] = url

    def getHeader(self, _k):  # pylint: disable=invalid-name
        return None


def _write(path, content: bytes):
    os.makedirs(os.path.dirname(path), exist_ok=True)
    with open(path, 'wb') as f:
        f.write(content)


def _mktree(base: str) -> dict:
    '''two roots, files outside them, links out of them; returns the facts the oracle needs'''
    outside = {}
    n = [0]

    def out(rel):
        n[0] += 1
        content = b'<html>' + MARK + str(n[0]).encode() + b'</html>'
        _write(os.path.join(base, rel), content)
        outside[rel] = content

    def ins(rel, extra=b''):
        _write(os.path.join(base, rel), b'<html>' + INSIDE + rel.encode() + extra + b'</html>')

    out('secret.txt')
    out('index.html')
    out('outer/index.html')
    out('outer/o.txt')
    out('outer/secret.txt')
    out('outer/sub/index.html')
    ins('fe/index.html')
    ins('fe/a.txt')
    ins('fe/sub/index.html')
    ins('fe/sub/b.txt')
    ins('fe/%2e%2e/a.txt')
    ins('site/index.html', b"<link href='/stylesheets/s.css' rel='stylesheet'>")
    ins('site/o.txt')
    ins('site/pages/index.html', b'<a href="/app/versions">dynamic</a>')
    ins('site/pages/a.txt')
    ins('site/stylesheets/s.css')
    ins('site/sub/c.js')
    ins('site/sub/d.svg')
    os.symlink('../outer', os.path.join(base, 'fe', 'lnk_dir'))
    os.symlink('../secret.txt', os.path.join(base, 'fe', 'lnk_file'))
    os.symlink('..', os.path.join(base, 'fe', 'sub', 'lnk_up'))
    os.symlink('sub', os.path.join(base, 'fe', 'lnk_in'))
    os.symlink('../site/pages', os.path.join(base, 'fe', 'lnk_site'))
    os.symlink(os.path.join(base, 'outer'), os.path.join(base, 'site', 'lnk_dir'))
    os.symlink(os.path.join(base, 'secret.txt'), os.path.join(base, 'site', 'lnk_file'))
    os.symlink('../..', os.path.join(base, 'site', 'sub', 'lnk_up'))
    os.symlink('fe', os.path.join(base, 'fe_link'))
    # siblings of the roots whose names extend the root's name (string-prefix containment accepts them)
    out('fe_old/secret.txt')
    out('fe_old/index.html')
    out('site_old/secret.txt')
    out('site_old/index.html')
    out('fe_old/sub/secret.txt')
    # directories inside the roots whose index.html leaves the roots
    os.makedirs(os.path.join(base, 'fe', 'docs'))
    os.symlink('../../secret.txt', os.path.join(base, 'fe', 'docs', 'index.html'))
    os.makedirs(os.path.join(base, 'site', 'docs'))
    os.symlink(os.path.join(base, 'outer', 'secret.txt'), os.path.join(base, 'site', 'docs', 'index.html'))
    os.makedirs(os.path.join(base, 'site', 'sub', 'docs'))
    os.symlink('../../../outer/o.txt', os.path.join(base, 'site', 'sub', 'docs', 'index.html'))
    return {
        'outside': outside,
        'cfg': {
            'A': (os.path.join(base, 'fe'), os.path.join(base, 'site')),
            'B': (os.path.join(base, 'fe_link'), os.path.join(base, 'site', '.', 'pages', '..')),
        },
        'abs': os.path.join(base, 'secret.txt'),
    }


ALPHABET = [
    '..', '.', '', '%2e%2e', '<ABS>',
    'sub', 'index.html', 'a.txt', 'pages',
    'secret.txt', 'outer', 'o.txt',
    'fe', 'site',
    'lnk_dir', 'lnk_file', 'lnk_up', 'lnk_in',
]
# directed part: prefix-named siblings of the roots and directories whose index.html is a link leaving the roots
SIBLINGS = ('fe_old', 'site_old')
DIRECTED = ['..', '.', '', 'sub', 'secret.txt', 'index.html', 'fe_old', 'site_old', 'docs']
VARIANTS = [('/', False, False), ('', True, True), ('//', False, True), ('/', True, False)]


def _path(segs, tree) -> str:
    return '/'.join(tree['abs'] if s == '<ABS>' else s for s in segs)


def _kind(segs) -> str:
    if any(s in SIBLINGS for s in segs):
        return 'sibling-prefix'
    if 'docs' in segs:
        return 'index-symlink'
    if any(s.startswith('lnk_') for s in segs):
        return 'symlink'
    if '<ABS>' in segs:
        return 'absolute'
    if '..' in segs:
        return 'dotdot'
    if '%2e%2e' in segs:
        return 'encoded'
    return 'plain'


def _static_call(tree, cfg, segs, variant, via='_static'):
    '''one execution of the real static file service; returns (bytes or exception repr, leaked markers)'''
    lead, isdep, with_req = variant
    fe_path, bdir = tree['cfg'][cfg]
    dawgie.context.fe_path = fe_path
    dawgie.context.fsm = _Fsm()
    fn = lead + _path(segs, tree)
    req = _Req(uri=fn.encode()) if (with_req or via != '_static') else None
    try:
        if via == '_static':
            got = dawgie.fe._static(fn, bdir, isdep, req)  # pylint: disable=protected-access
        else:
            dawgie.context.site_path = bdir
            got = dawgie.fe.StaticContent().render_GET(req)
    except Exception as e:  # pylint: disable=broad-exception-caught
        return repr(e), [], False
    data = got if isinstance(got, bytes) else repr(got).encode()
    if req is not None:
        data += b''.join(req.written)
    leaked = sorted(
        rel for rel, content in tree['outside'].items() if content in data or content[6:-7] in data
    )
    return data, leaked, INSIDE in data


def _classify(tree, cfg, segs) -> str:
    '''statistics only (not the oracle): what the path designates, per root'''
    what = set()
    fn = _path(segs, tree).lstrip('/')
    roots = [os.path.realpath(r) for r in tree['cfg'][cfg]]
    for r in roots:
        p = os.path.realpath(os.path.join(r, fn))
        inside = any(p == q or p.startswith(q + os.sep) for q in roots)
        if os.path.exists(p):
            what.add('in' if inside else 'out')
    return '+'.join(sorted(what)) or 'none'


REDUCED = [x for x in ALPHABET if x not in ('a.txt', 'o.txt', 'pages', 'site', 'fe', 'lnk_in')]
ALPHABETS = {'full': ALPHABET, 'reduced': REDUCED, 'directed': DIRECTED}


def _only_old(segs) -> bool:
    '''paths of the directed alphabet that the main alphabet already enumerates (skipped: no double counting)'''
    return all(s in ALPHABET for s in segs)


def _units(tier: str, rng: random.Random) -> list:
    '''work units: ('prod', n, prefix, alphabet, variants) or ('list', tuples, variants)'''
    if tier == 'quick':
        sampled = [tuple(rng.choice(ALPHABET) for _ in range(rng.choice([4, 5]))) for _ in range(3000)]
        return [[('prod', 1, (), 'full', 'all'), ('prod', 2, (), 'full', 'all'), ('prod', 3, (), 'full', 'one'),
                 ('list', sampled, 'one'),
                 ('prod', 1, (), 'directed', 'all'), ('prod', 2, (), 'directed', 'all'),
                 ('prod', 3, (), 'directed', 'all')]]
    units = [[('prod', 1, (), 'full', 'all'), ('prod', 2, (), 'full', 'all'), ('prod', 3, (), 'full', 'all')]]
    units += [[('prod', 4, (a,), 'full', 'all')] for a in ALPHABET]
    units += [[('prod', 5, (a,), 'reduced', 'one')] for a in REDUCED]
    units.append([('prod', n, (), 'directed', 'all') for n in (1, 2, 3, 4)])
    units += [[('prod', 5, (a,), 'directed', 'one')] for a in DIRECTED]
    for _ in range(10):
        units.append([('list', [tuple(rng.choice(ALPHABET) for _ in range(5)) for _ in range(10000)], 'one')])
    return units


def _expand(unit):
    if unit[0] == 'list':
        for segs in unit[1]:
            yield segs, unit[2]
    else:
        _p, n, prefix, alpha, variants = unit
        for rest in itertools.product(ALPHABETS[alpha], repeat=n - len(prefix)):
            if alpha == 'directed' and _only_old(prefix + rest):
                continue
            yield prefix + rest, variants


def _static_chunk(args):
    '''run a list of segment tuples against both configurations in a private tree'''
    units = args
    base = tempfile.mkdtemp(prefix='c19_')
    out = {'cases': 0, 'paths': 0, 'reach_out': 0, 'served_in': 0, 'distinct': 0, 'violations': {}, 'errors': {}}
    try:
        tree = _mktree(base)
        for segs, variants in itertools.chain.from_iterable(_expand(u) for u in units):
            out['paths'] += 1
            for cfg in ('A', 'B'):
                klass = _classify(tree, cfg, segs)
                out['distinct'] += 1 if klass != 'none' else 0
                out['reach_out'] += 1 if 'out' in klass else 0
                if variants == 'all':
                    calls = [(v, '_static') for v in VARIANTS]
                else:
                    calls = [(VARIANTS[zlib.crc32(repr((cfg, segs)).encode()) % 4], '_static')]
                if len(segs) <= 2:
                    calls.append((('/', False, True), 'StaticContent'))
                served = False
                for variant, via in calls:
                    data, leaked, inside = _static_call(tree, cfg, segs, variant, via)
                    out['cases'] += 1
                    served |= inside
                    if isinstance(data, str):
                        out['errors'].setdefault(data[:80], _case(cfg, segs, variant, via))
                    if leaked:
                        sig = f'served-outside:{_kind(segs)}:{via}'
                        slot = out['violations'].setdefault(sig, {'count': 0, 'len': 99})
                        slot['count'] += 1
                        if len(segs) < slot['len']:
                            slot.update(
                                {'len': len(segs), 'input': _case(cfg, segs, variant, via),
                                 'observed': {'returned_content_of': leaked, 'bytes': data[:80].decode('latin1')},
                                 'expected': 'no bytes of a file outside both roots'}
                            )
                out['served_in'] += 1 if served else 0
    finally:
        shutil.rmtree(base, ignore_errors=True)
    return out


def _case(cfg, segs, variant, via) -> dict:
    return {'kind': 'static', 'cfg': cfg, 'segments': list(segs), 'lead': variant[0], 'isdep': variant[1],
            'request': variant[2], 'via': via}


# ======================================================================= access
class _Cert:
    @staticmethod
    def get_serial_number():
        return 0xC19


class _TlsTransport:
    def __init__(self, cert):
        self._cert = cert

    def getPeerCertificate(self):  # pylint: disable=invalid-name
        return self._cert


class _PlainTransport:
    pass


class _HookFailure(BaseException):
    pass


def _hook_raises(endpoint, cert):
    raise RuntimeError('hook failed for ' + str(endpoint) + str(cert))


def _hook_raises_base(endpoint, cert):
    raise _HookFailure('hook failed for ' + str(endpoint) + str(cert))


HOOKS = {
    'default': 'dawgie.security.is_sanctioned',
    'raises-exception': __name__ + '._hook_raises',
    'raises-baseexception': __name__ + '._hook_raises_base',
    'not-importable': 'no_such_package_c19.no_such_hook',
}
CALLERS = {  # name -> (certs configured, transport factory, anonymous?)
    'no-certs/anonymous': (False, lambda: _TlsTransport(None), True),
    'certs/anonymous-tls': (True, lambda: _TlsTransport(None), True),
    'certs/anonymous-plain': (True, _PlainTransport, True),
    'certs/with-cert': (True, lambda: _TlsTransport(_Cert()), False),
}
METHODS = [b'GET', b'POST', b'PUT', b'DELETE', b'HEAD']
COMMAND_WORDS = ('run', 'reset', 'submit', 'snapshot')
ARGS = {
    b'runnables': [b'disk.engine'], b'targets': [b'T'], b'tasks': [b'disk.engine'], b'archive': [b'true'],
    b'changeset': [b'0123abc'], b'submission': [b'now'], b'kw': [b'x'], b'key': [b''], b'path': [b'a.b.c'],
}


def _endpoints():
    '''the DynamicContent resources reachable from the real routing tree: [(uri from the tree, resource)]'''
    found = []

    def walk(point, prefix):
        for name, child in point.children.items():
            uri = prefix + '/' + name.decode()
            if isinstance(child, dawgie.fe.basis.DynamicContent):
                found.append((uri, child))
            elif hasattr(child, 'children'):
                walk(child, uri)

    walk(dawgie.fe.basis._root, '')  # pylint: disable=protected-access
    return sorted(found, key=lambda t: t[0])


def _handler_name(fnc) -> str:
    if hasattr(fnc, '__name__'):
        return f'{fnc.__module__}.{fnc.__name__}'
    return f'{type(fnc).__module__}.{type(fnc).__name__}'


def _is_command(uri: str, name: str) -> bool:
    '''run / reset / submit / snapshot, recognised from the URI or the handler (module) name'''
    words = set(re.split(r'[^a-z]+', uri.lower())) | set(re.split(r'[^a-z]+', name.lower()))
    return any(w in words for w in COMMAND_WORDS)


def _access_case(uri, res, original, method, caller, hook, via):
    '''render one request on the real resource; True iff the handler was invoked'''
    certs, transport, _anon = CALLERS[caller]
    dawgie.security._certs[:] = [_Cert()] if certs else []  # pylint: disable=protected-access
    dawgie.context.sanction_override = HOOKS[hook]
    ran = []

    def recorder(**_kw):
        ran.append(True)
        return b'{"recorded": true}'

    res._DynamicContent__fnc = recorder  # pylint: disable=protected-access
    req = _Req(uri=uri.encode(), method=method, args=dict(ARGS), transport=transport())
    try:
        if via == 'render':
            res.render(req)
        else:
            fn = getattr(res, 'render_' + method.decode(), None)
            if fn is not None:
                fn(req)
    except BaseException:  # pylint: disable=broad-exception-caught
        pass
    finally:
        res._DynamicContent__fnc = original  # pylint: disable=protected-access
        dawgie.security._certs[:] = []  # pylint: disable=protected-access
        dawgie.context.sanction_override = HOOKS['default']
    return bool(ran)


def _access(out):
    eps = _endpoints()
    table = []
    for uri, res in eps:
        original = res._DynamicContent__fnc  # pylint: disable=protected-access
        registered = res._DynamicContent__uri  # pylint: disable=protected-access
        name = _handler_name(original)
        table.append((uri, res, original, registered, name, _is_command(uri + ' ' + registered, name)))
    out['endpoints'] = len(table)
    out['commands'] = sorted(t[0] for t in table if t[5])
    ran_somewhere = 0
    for uri, res, original, registered, name, command in table:
        for method, caller, hook, via in itertools.product(METHODS, CALLERS, HOOKS, ('render', 'render_METHOD')):
            ran = _access_case(uri, res, original, method, caller, hook, via)
            out['cases'] += 1
            out['distinct'] += 1
            ran_somewhere += 1 if ran else 0
            case = {'kind': 'access', 'uri': uri, 'method': method.decode(), 'caller': caller, 'hook': hook,
                    'via': via}
            certs, _t, anon = CALLERS[caller]
            if ran and hook != 'default':
                _add(out, 'C19.access.hook-error', f'handler-ran-after-hook-error:{hook}', case,
                     {'handler_invoked': True, 'handler': name}, {'handler_invoked': False})
            elif ran and certs and anon and command:
                _add(out, 'C19.access.anonymous', f'anonymous-command:{registered}', case,
                     {'handler_invoked': True, 'handler': name}, {'handler_invoked': False})
    if len(out['samples']) < 5 and table:
        out['samples'].append({'kind': 'access', 'uri': table[0][0], 'method': 'GET',
                               'caller': 'certs/anonymous-tls', 'hook': 'default', 'via': 'render'})
    # the recorder must be able to observe an invocation, otherwise the check is vacuous
    if not table or not ran_somewhere:
        raise RuntimeError('C19 harness: no endpoint found or no handler invocation observable')
    out['handler_invocations'] = ran_somewhere


def _add(out, clause, sig, case, observed, expected):
    slot = out['violations'].setdefault((clause, sig), None)
    if slot is None:
        out['violations'][(clause, sig)] = {'clause': clause, 'signature': sig, 'count': 1, 'input': case,
                                            'observed': observed, 'expected': expected}
    else:
        slot['count'] += 1


# ======================================================================= entry points
def run(tier: str, seed: int) -> dict:
    rng = random.Random(seed)
    out = {'cases': 0, 'distinct': 0, 'violations': {}, 'samples': []}
    _access(out)
    access_cases = out['cases']
    units = _units(tier, rng)
    if tier == 'thorough':
        import multiprocessing

        with multiprocessing.get_context('fork').Pool(min(16, os.cpu_count() or 1)) as pool:
            results = pool.map(_static_chunk, units, chunksize=1)
    else:
        results = [_static_chunk(u) for u in units]
    errors = {}
    for res in results:
        out['cases'] += res['cases']
        out['distinct'] += res['distinct']
        errors.update(res['errors'])
        for sig, v in res['violations'].items():
            k = ('C19.static.contain', sig)
            cur = out['violations'].get(k)
            if cur is None:
                out['violations'][k] = {'clause': k[0], 'signature': sig, 'count': v['count'], 'len': v['len'],
                                        'input': v['input'], 'observed': v['observed'],
                                        'expected': v['expected']}
            else:
                cur['count'] += v['count']
                if v['len'] < cur['len']:
                    cur.update({'len': v['len'], 'input': v['input'], 'observed': v['observed']})
    violations = []
    for k in sorted(out['violations']):
        v = dict(out['violations'][k])
        v.pop('len', None)
        violations.append(v)
    samples = out['samples'] + [
        _case('A', ('..', 'secret.txt'), VARIANTS[0], '_static'),
        _case('B', ('sub', 'lnk_up', 'lnk_file'), VARIANTS[1], '_static'),
        _case('A', ('..', 'fe_old', 'secret.txt'), VARIANTS[0], '_static'),
        _case('B', ('docs',), VARIANTS[0], '_static'),
        _case('A', ('lnk_in', ''), VARIANTS[2], 'StaticContent'),
    ]
    return {
        'cases': out['cases'],
        'distinct': out['distinct'],
        'rule': (
            'static: every segment tuple of the grammar is one request path, run against both root '
            'configurations with 4 (leading slashes, isdep, request) variants through fe._static (+ once '
            'through StaticContent.render_GET for paths of <= 2 segments); a (configuration, path) is counted '
            'distinct/non-trivial when it designates something that exists (inside or outside the roots) for '
            'at least one root; the directed part adds every tuple over the 9-symbol alphabet that names a '
            'prefix-named sibling of a root or a directory whose index.html is a symlink leaving the roots '
            '(tuples already in the main grammar are skipped).  access: one case per (endpoint, method, caller, hook, entry point), all '
            'distinct'
        ),
        'exhaustive': tier == 'thorough',
        'samples': samples[:5],
        'violations': violations,
        'clauses': CLAUSES,
        'access_cases': access_cases,
        'endpoints': out['endpoints'],
        'commands': out['commands'],
        'handler_invocations': out['handler_invocations'],
        'paths': sum(r['paths'] for r in results),
        'paths_reaching_outside': sum(r['reach_out'] for r in results),
        'paths_served_inside': sum(r['served_in'] for r in results),
        'static_exceptions': errors,
    }


def replay(case: dict) -> dict:
    case = case.get('input', case)
    if case['kind'] == 'static':
        base = tempfile.mkdtemp(prefix='c19_')
        try:
            tree = _mktree(base)
            data, leaked, _ins = _static_call(
                tree, case['cfg'], tuple(case['segments']), (case['lead'], case['isdep'], case['request']),
                case['via'],
            )
        finally:
            shutil.rmtree(base, ignore_errors=True)
        shown = data[:80] if isinstance(data, str) else data[:80].decode('latin1')
        return {'reproduced': bool(leaked), 'observed': {'returned_content_of': leaked, 'bytes': shown},
                'expected': 'no bytes of a file outside both roots'}
    for uri, res in _endpoints():
        if uri == case['uri']:
            original = res._DynamicContent__fnc  # pylint: disable=protected-access
            ran = _access_case(uri, res, original, case['method'].encode(), case['caller'], case['hook'],
                               case['via'])
            return {'reproduced': ran, 'observed': {'handler_invoked': ran}, 'expected': {'handler_invoked': False}}
    return {'reproduced': False, 'observed': 'endpoint not registered', 'expected': {'handler_invoked': False}}
