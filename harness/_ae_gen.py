'''Generator of synthetic DAWGIE algorithm-engine (AE) packages.

Given a compact, JSON-serialisable *spec* (a dict) it writes real Python source
files into a temp directory and imports them under a unique package name, so
that several engines can coexist in one process.  Nothing here looks at the
code under test to decide what a spec *means*: `declared_graph` & friends are
pure functions of the spec and serve as the oracle of the C09/C15/C16 harnesses.

Spec
----
    {'style': 'classic' | 'base' | 'auto',
     'algs': [ {'pkg': 'p0', 'kind': 'task'|'analysis'|'regress', 'name': 'a0',
                'svs': [['s0', ['v0', 'v1']], ['s1', ['v0']]],
                'inputs':   [['alg','p0.a0'] | ['sv','p0.a0','s0'] | ['v','p0.a0','s0','v0'], ...],
                'feedback': [ ... same form ... ]}, ...],
     'events': [ {'pkg': 'p2', 'alg': 'p0.a0', 'moment': {'boot': True}
                                                       | {'day':[y,m,d],'time':[h,m,s]}
                                                       | {'dom': 3,'time':[h,m,s]} | {'dow': 1,'time':[h,m,s]}} ],
     'versions': {'p0.a0': [1,0,0], 'p0.a0.s0': [1,0,0], 'p0.a0.s0.v0': [1,0,0]},   # default 1.0.0
     'faults': [ {'kind': <fault>, 'at': [...position...]} ]}                         # C16 only

styles
    classic : explicit factory functions + bots extending the (deprecated) dawgie.Task/Analysis/Regress
              (what /repo/Test/ae does);  `events()` is an explicit function, so events-only packages exist.
    base    : explicit factory functions returning dawgie.base.Task/Analysis/Regress(..., [classes]).
    auto    : the registry pattern of /repo/Test/nae: typed placeholder factories that dawgie.pl.scan
              monkey-patches; events come from DAWGIE_SCHEDULE class attributes.

A sub-package offers the factory `task` / `analysis` / `regress` iff it has an algorithm of that kind and
`events` iff an event is attached to it.  Everything of a sub-package lives in its `__init__.py`.
Versions are read at construction time from `<root>.VERSIONS`, so a harness can bump a version in place
(`Engine.set_version`) instead of regenerating the package.
'''

import importlib
import itertools
import os
import shutil
import sys
import tempfile

KINDS = ('task', 'analysis', 'regress')
BASES = {'task': 'Algorithm', 'analysis': 'Analyzer', 'regress': 'Regression'}
BOTS = {'task': 'Task', 'analysis': 'Analysis', 'regress': 'Regress'}
INPUTS = {'task': 'previous', 'analysis': 'traits', 'regress': 'variables'}
SIGS = {
    'task': "prefix: str, ps_hint: int = 0, runid: int = -1, target: str = '__none__'",
    'analysis': 'prefix: str, ps_hint: int = 0, runid: int = -1',
    'regress': "prefix: str, ps_hint: int = 0, target: str = '__none__'",
}
PASS = {
    'task': 'prefix, ps_hint, runid, target',
    'analysis': 'prefix, ps_hint, runid',
    'regress': 'prefix, ps_hint, target',
}
RUNSIG = {'task': 'self, ds, ps', 'analysis': 'self, aspects', 'regress': 'self, ps, timeline'}

_COUNTER = itertools.count()

# ----------------------------------------------------------------------------
# pure functions of the spec (the oracle side)
# ----------------------------------------------------------------------------


def alg_id(a):
    return a['pkg'] + '.' + a['name']


def alg_index(spec):
    return {alg_id(a): a for a in spec['algs']}


def values_of(a, sv=None):
    '''full value names declared by algorithm a (optionally of one state vector)'''
    out = []
    for svn, vals in a['svs']:
        if sv is None or sv == svn:
            out.extend('.'.join([alg_id(a), svn, v]) for v in vals)
    return out


def expand(spec, refs):
    '''value-level names a list of references stands for (ALG_REF -> all values, SV_REF -> its values)'''
    idx = alg_index(spec)
    out = []
    for r in refs:
        tgt = idx[r[1]]
        if r[0] == 'alg':
            out.extend(values_of(tgt))
        elif r[0] == 'sv':
            out.extend(values_of(tgt, r[2]))
        else:
            out.append('.'.join([r[1], r[2], r[3]]))
    return out


def trim(name, k):
    return '.'.join(name.split('.')[:k])


def declared_graph(spec):
    '''The graph as declared, computed from the spec only.

    Returns a dict with, per granularity g in {4: value, 3: state vector, 2: algorithm, 1: task}:
       nodes[g] : set of names
       edges[g] : set of (parent, child)       (ordering edges; feedback never contributes)
    and  anc[g] : name -> set of ancestors (transitive closure of edges[g])
         fed    : fed-back value name -> set of algorithm ids that declare it as feedback
         fb[g]  : name -> set of names (same granularity) of the producers the node declares as feedback:
                  a node of granularity g stands for (part of) one or more algorithms; it carries the fed-back
                  values of exactly those algorithms, trimmed to g (nodes of other algorithms carry nothing)
    '''
    nodes = {4: set(), 3: set(), 2: set(), 1: set()}
    edges = {4: set(), 3: set(), 2: set(), 1: set()}
    fed = {}
    for a in spec['algs']:
        mine = values_of(a)
        nodes[4].update(mine)
        for p in expand(spec, a.get('inputs', [])):
            for c in mine:
                edges[4].add((p, c))
        for f in expand(spec, a.get('feedback', [])):
            fed.setdefault(f, set()).add(alg_id(a))
    for g in (3, 2, 1):
        nodes[g] = {trim(n, g) for n in nodes[4]}
        edges[g] = {(trim(p, g), trim(c, g)) for p, c in edges[4]}
    anc = {}
    for g in (4, 3, 2, 1):
        par = {n: set() for n in nodes[g]}
        for p, c in edges[g]:
            if p != c:
                par[c].add(p)
        clo = {}
        for n in nodes[g]:
            seen = set()
            todo = list(par[n])
            while todo:
                x = todo.pop()
                if x not in seen:
                    seen.add(x)
                    todo.extend(par[x])
            clo[n] = seen
        anc[g] = clo
    fb = {g: {n: set() for n in nodes[g]} for g in (4, 3, 2, 1)}
    for a in spec['algs']:
        theirs = expand(spec, a.get('feedback', []))
        for g in (4, 3, 2, 1):
            for m in values_of(a):
                fb[g][trim(m, g)].update(trim(v, g) for v in theirs)
    return {'nodes': nodes, 'edges': edges, 'anc': anc, 'fed': fed, 'fb': fb}


def is_acyclic(spec):
    g = declared_graph(spec)
    return all(n not in g['anc'][2][n] for n in g['nodes'][2]) and all(
        p != c for p, c in g['edges'][2]
    )


def offered(spec):
    '''sub-package -> sorted list of factory names it offers'''
    out = {}
    for a in spec['algs']:
        out.setdefault(a['pkg'], set()).add(a['kind'])
    for e in spec.get('events', []):
        out.setdefault(e['pkg'], set()).add('events')
    return {k: sorted(v) for k, v in out.items()}


def version_items(spec):
    '''all versioned names (algorithm, state vector, value) of a spec'''
    out = []
    for a in spec['algs']:
        out.append(alg_id(a))
        for svn, vals in a['svs']:
            if not vals:
                continue  # a state vector without keys (values named at run time) carries no version of its own
            out.append(alg_id(a) + '.' + svn)
            out.extend('.'.join([alg_id(a), svn, v]) for v in vals)
    return out


# ----------------------------------------------------------------------------
# source emission
# ----------------------------------------------------------------------------


class _Faults:
    def __init__(self, spec):
        self.items = [(f['kind'], tuple(f['at'])) for f in spec.get('faults', [])]

    def has(self, kind, *at):
        return (kind, tuple(at)) in self.items


def _root_source(spec):
    vers = {k: tuple(v) for k, v in spec.get('versions', {}).items()}
    return f'''
import dawgie

VERSIONS = {vers!r}
DEFAULT = (1, 0, 0)


def ver(key):
    return dawgie.VERSION(*VERSIONS.get(key, DEFAULT))


def svref(factory, impl, sv):
    return dawgie.SV_REF(factory=factory, impl=impl, item=impl.sv_as_dict()[sv])


class CallableFactory:
    # can be called like the factory it wraps, carries its name and module, but is not a function (fault ref_factory_object)
    def __init__(self, factory):
        self._factory = factory
        self.__module__ = factory.__module__
        self.__name__ = factory.__name__

    def __call__(self, *args, **kwds):
        return self._factory(*args, **kwds)


def vref(factory, impl, sv, feat):
    return dawgie.V_REF(factory=factory, impl=impl, item=impl.sv_as_dict()[sv], feat=feat)
'''


def _moment_expr(m):
    def t(x):
        return f'datetime.time({x[0]}, {x[1]}, {x[2]})'

    if 'boot' in m:
        return f'boot={m["boot"]!r}'
    if 'day' in m:
        d = m['day']
        return f'day=datetime.date({d[0]}, {d[1]}, {d[2]}), time={t(m["time"])}'
    if 'dom' in m:
        return f'dom={m["dom"]!r}, time={t(m["time"])}'
    return f'dow={m["dow"]!r}, time={t(m["time"])}'


_BAD_MOMENTS = {
    # fault kind -> MOMENT(boot, day, dom, dow, time) source
    'mom_two': 'dawgie.MOMENT(True, datetime.date(2031, 1, 2), None, None, datetime.time(1, 2, 3))',
    'mom_none': 'dawgie.MOMENT(None, None, None, None, datetime.time(1, 2, 3))',
    'mom_day_type': "dawgie.MOMENT(None, '2031-01-02', None, None, datetime.time(1, 2, 3))",
    'mom_dom_type': "dawgie.MOMENT(None, None, '3', None, datetime.time(1, 2, 3))",
    'mom_dow_type': "dawgie.MOMENT(None, None, None, '1', datetime.time(1, 2, 3))",
    'mom_no_time': 'dawgie.MOMENT(None, None, 3, None, None)',
    'mom_time_type': "dawgie.MOMENT(None, None, None, 1, '01:02:03')",
}
EVENT_FAULTS = tuple(_BAD_MOMENTS) + ('event_plain_tuple',)


class _Emitter:
    def __init__(self, root, spec):
        self.root = root
        self.spec = spec
        self.style = spec.get('style', 'classic')
        self.faults = _Faults(spec)
        self.idx = alg_index(spec)
        # class names are positional so that odd (dotted) names never reach an identifier
        self.cls = {}
        per_pkg = {}
        for a in spec['algs']:
            n = per_pkg.setdefault(a['pkg'], itertools.count())
            self.cls[alg_id(a)] = f'A{next(n)}'

    # -- names as emitted (dotted when the matching fault is injected) -------
    def _svname(self, aid, svn):
        return svn.replace('s', 's.', 1) if self.faults.has('dot_sv_name', aid, svn) else svn

    def _vname(self, aid, svn, vn):
        return vn.replace('v', 'v.', 1) if self.faults.has('dot_v_name', aid, svn, vn) else vn

    # -- references ---------------------------------------------------------
    def _factory_expr(self, aid):
        a = self.idx[aid]
        return f'{self.root}.{a["pkg"]}.{a["kind"]}'

    def _impl_expr(self, aid):
        a = self.idx[aid]
        return f'{self.root}.{a["pkg"]}.{self.cls[aid]}()'

    def _ref_expr(self, owner, which, i, r):
        f = self.faults
        at = (owner, which, i)
        fac = self._factory_expr(r[1])
        imp = self._impl_expr(r[1])
        if f.has('ref_factory_str', *at):
            fac = repr(self.idx[r[1]]['kind'])
        if f.has('ref_factory_object', *at):
            fac = f'{self.root}.CallableFactory({fac})'
        if f.has('ref_impl_class', *at):
            imp = imp[:-2]
        if f.has('ref_wrong_factory', *at):
            fac = self._factory_expr(self._other_alg(r[1]))
        if f.has('ref_missing_alg', *at):
            imp = f'{self.root}.{self.idx[r[1]]["pkg"]}.Ghost()'
        if f.has('ref_plain_tuple', *at):
            return f'({fac}, {imp})'
        if r[0] == 'alg':
            return f'dawgie.ALG_REF(factory={fac}, impl={imp})'
        sv = repr(self._svname(r[1], r[2]))
        if f.has('ref_item_str', *at):
            if r[0] == 'sv':
                return f'dawgie.SV_REF(factory={fac}, impl={imp}, item={sv})'
            return f'dawgie.V_REF(factory={fac}, impl={imp}, item={sv}, feat={r[3]!r})'
        if f.has('ref_missing_sv', *at):
            ghost = f'{self.root}.{self.idx[r[1]]["pkg"]}.GhostSV()'
            if r[0] == 'sv':
                return f'dawgie.SV_REF(factory={fac}, impl={imp}, item={ghost})'
            return f"dawgie.V_REF(factory={fac}, impl={imp}, item={ghost}, feat='g')"
        if r[0] == 'sv':
            return f'{self.root}.svref({fac}, {imp}, {sv})'
        feat = repr(self._vname(r[1], r[2], r[3]))
        if f.has('ref_missing_feat', *at):
            feat = "'nope'"
        if f.has('ref_feat_int', *at):
            return (
                f'(lambda i: dawgie.V_REF(factory={fac}, impl=i, '
                f'item=i.sv_as_dict()[{sv}], feat=0))({imp})'
            )
        return f'{self.root}.vref({fac}, {imp}, {sv}, {feat})'

    def _other_alg(self, aid):
        '''an algorithm whose factory differs from the one of aid (for ref_wrong_factory)'''
        a = self.idx[aid]
        for b in self.spec['algs']:
            if (b['pkg'], b['kind']) != (a['pkg'], a['kind']):
                return alg_id(b)
        raise ValueError('ref_wrong_factory needs a second factory in the engine')

    # -- classes ------------------------------------------------------------
    def _value_src(self, a, cn, svn, vn, k):
        f = self.faults
        aid = alg_id(a)
        at = (aid, svn, vn)
        base = 'dawgie.Version' if f.has('v_base', *at) else 'dawgie.Value'
        ctor = 'self, data' if f.has('unpicklable_ctor', *at) else 'self, data=None'
        extra = '        self.fn = lambda: 0\n' if f.has('unpicklable_lambda', *at) else ''
        feats = (
            ''
            if f.has('no_features', *at)
            else '''
    def features(self):
        return []
'''
        )
        return f'''
class {cn}({base}):
    def __init__({ctor}):
        self.data = data
{extra}        self._version_ = {self.root}.ver({'.'.join(at)!r})
{feats}'''

    def _sv_src(self, a, cn, svn, vals, vcls):
        f = self.faults
        aid = alg_id(a)
        at = (aid, svn)
        base = 'dawgie.Version, dict' if f.has('sv_base', *at) else 'dawgie.StateVector'
        name = self._svname(aid, svn)
        body = ''
        if not f.has('empty_sv', *at):
            for vn, vc in zip(vals, vcls):
                key = self._vname(aid, svn, vn)
                arg = '0' if f.has('unpicklable_ctor', aid, svn, vn) else ''
                body += f'        self[{key!r}] = {vc}({arg})\n'
        namedef = (
            ''
            if f.has('no_sv_name', *at)
            else f'''
    def name(self):
        return {name!r}
'''
        )
        viewdef = (
            ''
            if f.has('no_view', *at)
            else '''
    def view(self, caller, visitor):
        return
'''
        )
        return f'''
class {cn}({base}):
    def __init__(self):
        dict.__init__(self)
        self._version_ = {self.root}.ver({'.'.join(at)!r})
{body}{namedef}{viewdef}'''

    def _alg_src(self, a, events):
        f = self.faults
        aid = alg_id(a)
        cn = self.cls[aid]
        kind = a['kind']
        src = ''
        svcls = []
        for si, (svn, vals) in enumerate(a['svs']):
            vcls = []
            for vi, vn in enumerate(vals):
                vc = f'V{cn[1:]}_{si}_{vi}'
                vcls.append(vc)
                src += self._value_src(a, vc, svn, vn, vi)
            sc = f'S{cn[1:]}_{si}'
            svcls.append(sc)
            src += self._sv_src(a, sc, svn, vals, vcls)
        base = 'dawgie.Version' if f.has('alg_base', aid) else 'dawgie.' + BASES[kind]
        name = a['name'].replace('a', 'a.', 1) if f.has('dot_alg_name', aid) else a['name']
        svlist = '[]' if f.has('no_state_vectors', aid) else '[' + ', '.join(c + '()' for c in svcls) + ']'
        sched = ''
        if self.style == 'auto' and events:
            sched = '    DAWGIE_SCHEDULE = [' + ', '.join(self._event_expr(i, e, True) for i, e in events) + ']\n'
        src += f'''
class {cn}({base}):
{sched}    def __init__(self):
        self._version_ = {self.root}.ver({aid!r})
        self._svs = {svlist}
'''
        if base == 'dawgie.Version':
            # duck-typed stand-in: everything the pipeline calls, but not the base type
            src += '''
    def abort(self):
        return False

    def sv_as_dict(self):
        return {sv.name(): sv for sv in self.state_vectors()}
'''
        if not f.has('no_name', aid):
            src += f'''
    def name(self):
        return {name!r}
'''
        if not f.has('no_inputs', aid):
            refs = ', '.join(self._ref_expr(aid, 'inputs', i, r) for i, r in enumerate(a.get('inputs', [])))
            src += f'''
    def {INPUTS[kind]}(self):
        return [{refs}]
'''
        if a.get('feedback') or base == 'dawgie.Version':
            refs = ', '.join(self._ref_expr(aid, 'feedback', i, r) for i, r in enumerate(a.get('feedback', [])))
            src += f'''
    def feedback(self):
        return [{refs}]
'''
        if not f.has('no_run', aid):
            src += f'''
    def run({RUNSIG[kind]}):
        return
'''
        if not f.has('no_svs_method', aid):
            src += '''
    def state_vectors(self):
        return self._svs
'''
        return src

    def _event_expr(self, i, e, in_class):
        f = self.faults
        fac = 'None' if in_class else self._factory_expr(e['alg'])
        imp = 'None' if in_class else self._impl_expr(e['alg'])
        for k, mom in _BAD_MOMENTS.items():
            if f.has(k, 'ev', i):
                return f'dawgie.EVENT(dawgie.ALG_REF({fac}, {imp}), {mom})'
        if f.has('event_plain_tuple', 'ev', i):
            return f'(dawgie.ALG_REF({fac}, {imp}), dawgie.MOMENT(True, None, None, None, None))'
        return f'dawgie.schedule({fac}, {imp}, {_moment_expr(e["moment"])})'

    # -- a sub-package --------------------------------------------------------
    def package_source(self, pkg):
        f = self.faults
        spec = self.spec
        algs = [a for a in spec['algs'] if a['pkg'] == pkg]
        events = [(i, e) for i, e in enumerate(spec.get('events', [])) if e['pkg'] == pkg]
        others = set()
        for a in algs:
            for r in a.get('inputs', []) + a.get('feedback', []):
                others.add(self.idx[r[1]]['pkg'])
            for i, r in enumerate(a.get('inputs', [])):
                if f.has('ref_wrong_factory', alg_id(a), 'inputs', i):
                    others.add(self.idx[self._other_alg(r[1])]['pkg'])
            for i, r in enumerate(a.get('feedback', [])):
                if f.has('ref_wrong_factory', alg_id(a), 'feedback', i):
                    others.add(self.idx[self._other_alg(r[1])]['pkg'])
        for _i, e in events:
            others.add(self.idx[e['alg']]['pkg'])
        src = 'import datetime\nimport dawgie\nimport dawgie.base\n'
        src += f'import {self.root}\n'
        for o in sorted(others):
            src += f'import {self.root}.{o}\n'
        src += '\n'
        if self.style == 'auto':
            src += self._placeholders()
        for a in algs:
            mine = [(i, e) for i, e in events if e['alg'] == alg_id(a)]
            src += self._alg_src(a, mine)
        kinds_in = {k for k, _at in f.items}
        if 'ref_missing_sv' in kinds_in or 'ref_missing_alg' in kinds_in:
            # helpers for reference faults (never returned by a factory, hidden from the scanner)
            src += '''

class GhostV(dawgie.Value):
    def __init__(self, data=None):
        self.data = data
        self._version_ = dawgie.VERSION(1, 0, 0)

    def features(self):
        return []


class GhostSV(dawgie.StateVector):
    def __init__(self):
        dict.__init__(self)
        self._version_ = dawgie.VERSION(1, 0, 0)
        self['g'] = GhostV()

    def name(self):
        return 'ghost'

    def view(self, caller, visitor):
        return


class Ghost(dawgie.Algorithm):
    DAWGIE_IGNORE = True

    def __init__(self):
        self._version_ = dawgie.VERSION(1, 0, 0)
        self._svs = [GhostSV()]

    def name(self):
        return 'ghost'

    def previous(self):
        return []

    def run(self, ds, ps):
        return

    def state_vectors(self):
        return self._svs
'''
        if self.style != 'auto':
            for kind in KINDS:
                mine = [a for a in algs if a['kind'] == kind]
                if mine:
                    src += self._factory_src(pkg, kind, mine)
            if events:
                arg = 'extra' if f.has('sig_count', pkg, 'events') else ''
                evs = ', '.join(self._event_expr(i, e, False) for i, e in events)
                src += f'''

def events({arg}):
    return [{evs}]
'''
        return src

    def _placeholders(self):
        return '''
def analysis(
    prefix: str, ps_hint: int = 0, runid: int = -1
) -> dawgie.FactoryPlaceholder[dawgie.base.Analysis]:
    raise NotImplementedError('placeholder until dawgie monkey patches me')


def events() -> dawgie.FactoryPlaceholder[list[dawgie.EVENT]]:
    raise NotImplementedError('placeholder until dawgie monkey patches me')


def regress(
    prefix: str, ps_hint: int = 0, target: str = '__none__'
) -> dawgie.FactoryPlaceholder[dawgie.base.Regress]:
    raise NotImplementedError('placeholder until dawgie monkey patches me')


def task(
    prefix: str, ps_hint: int = 0, runid: int = -1, target: str = '__none__'
) -> dawgie.FactoryPlaceholder[dawgie.base.Task]:
    raise NotImplementedError('placeholder until dawgie monkey patches me')

'''

    def _factory_src(self, pkg, kind, algs):
        f = self.faults
        sig, args = SIGS[kind], PASS[kind]
        if f.has('sig_count', pkg, kind):
            last = sig.rsplit(', ', 1)[1].split(':')[0]
            sig = sig.rsplit(', ', 1)[0]
            args = args.replace(last, {'target': "'__none__'", 'runid': '-1'}[last])
        if f.has('sig_default', pkg, kind):
            sig = sig.replace('ps_hint: int = 0', 'ps_hint: int = 1')
        if f.has('sig_annot', pkg, kind):
            sig = sig.replace('prefix: str', 'prefix')
        classes = ', '.join(self.cls[alg_id(a)] for a in algs)
        insts = ', '.join(self.cls[alg_id(a)] + '()' for a in algs)
        bot = BOTS[kind]
        if self.style == 'base':
            return f'''

def {kind}({sig}):
    return dawgie.base.{bot}({args}, [{classes}])
'''
        if f.has('bot_base', pkg, kind):
            return f'''

class {bot}Bot:
    def __init__(self, name, *args):
        self._n = name

    def _name(self):
        return self._n

    def list(self):
        return [{insts}]

    def routines(self):
        return self.list()


def {kind}({sig}):
    return {bot}Bot({args})
'''
        listdef = (
            ''
            if f.has('no_list', pkg, kind)
            else f'''
    def list(self):
        return [{insts}]
'''
        )
        return f'''

class {bot}Bot(dawgie.{bot}):
{listdef}    pass


def {kind}({sig}):
    return {bot}Bot({args})
'''


# ----------------------------------------------------------------------------
# workshop: temp dir + unique package names + import/cleanup
# ----------------------------------------------------------------------------


class Engine:
    def __init__(self, shop, pkg, path, spec):
        self.shop = shop
        self.pkg = pkg  # unique root package name (== dawgie.context.ae_base_package)
        self.path = path  # directory of the root package (== dawgie.context.ae_base_path)
        self.spec = spec

    def activate(self):
        import dawgie.context

        dawgie.context.ae_base_path = self.path
        dawgie.context.ae_base_package = self.pkg
        return self

    def module(self, sub=None):
        self.activate()
        return importlib.import_module(self.pkg if sub is None else self.pkg + '.' + sub)

    def task_modules(self):
        return sorted(self.pkg + '.' + p for p in offered(self.spec))

    def scan(self):
        '''factories as the pipeline finds them (dawgie.pl.scan.for_factories)'''
        import dawgie.pl.scan

        self.activate()
        dawgie.pl.scan.REGISTRY.clear()
        dawgie.pl.scan.IGNORE.clear()
        importlib.invalidate_caches()
        return dawgie.pl.scan.for_factories(self.path, self.pkg)

    def direct(self):
        '''factories by importing each sub-package and reading its attributes (no scanner involved)'''
        import dawgie

        if self.spec.get('style') == 'auto':
            raise ValueError('auto style needs the scanner to patch the placeholders')
        out = {e: [] for e in dawgie.Factories}
        for sub, names in sorted(offered(self.spec).items()):
            m = self.module(sub)
            for n in names:
                out[dawgie.Factories[n]].append(getattr(m, n))
        return out

    def set_version(self, item, ver):
        self.module().VERSIONS[item] = tuple(ver)

    def set_versions(self, table):
        v = self.module().VERSIONS
        v.clear()
        v.update({k: tuple(x) for k, x in table.items()})

    def forget(self):
        '''drop this engine's modules from sys.modules and its files from disk'''
        for k in [k for k in sys.modules if k == self.pkg or k.startswith(self.pkg + '.')]:
            del sys.modules[k]
        shutil.rmtree(self.path, ignore_errors=True)


class Workshop:
    '''with Workshop() as shop: eng = shop.build(spec) ...   (everything is removed on exit)'''

    def __init__(self, tag='vae'):
        self.tag = tag
        self.tmp = None
        self.engines = []

    def __enter__(self):
        self.tmp = tempfile.mkdtemp(prefix='verif_ae_')
        sys.path.insert(0, self.tmp)
        sys.dont_write_bytecode = True
        return self

    def __exit__(self, *exc):
        self.close()
        return False

    def write(self, spec, name=None):
        '''write the sources only; returns (root package name, package dir)'''
        name = name or f'{self.tag}{os.getpid()}x{next(_COUNTER)}'
        path = os.path.join(self.tmp, name)
        os.mkdir(path)
        with open(os.path.join(path, '__init__.py'), 'w', encoding='utf-8') as fh:
            fh.write(_root_source(spec))
        em = _Emitter(name, spec)
        for sub in sorted(offered(spec)):
            os.mkdir(os.path.join(path, sub))
            with open(os.path.join(path, sub, '__init__.py'), 'w', encoding='utf-8') as fh:
                fh.write(em.package_source(sub))
        return name, path

    def build(self, spec, name=None):
        name, path = self.write(spec, name)
        importlib.invalidate_caches()
        eng = Engine(self, name, path, spec)
        self.engines.append(eng)
        return eng

    def close(self):
        for eng in self.engines:
            eng.forget()
        self.engines = []
        if self.tmp:
            if self.tmp in sys.path:
                sys.path.remove(self.tmp)
            shutil.rmtree(self.tmp, ignore_errors=True)
            self.tmp = None
        try:
            import dawgie.pl.scan

            dawgie.pl.scan.REGISTRY.clear()
            dawgie.pl.scan.IGNORE.clear()
        except ImportError:
            pass
        importlib.invalidate_caches()


# ----------------------------------------------------------------------------
# harness-side plumbing shared by c09 / c15 / c16
# ----------------------------------------------------------------------------


def quiet():
    '''silence the (expected) deprecation chatter of the classic pattern and compliance error logs'''
    import logging
    import warnings

    logging.disable(logging.CRITICAL)
    warnings.filterwarnings('ignore')


def stub_graphviz(fe_path):
    '''Construct.graph() renders four svg files through graphviz (~40 ms each).  Keep Node.graph (it sets the
    node levels the scheduler sorts by) but replace the rendering by writing the dot text.  Returns a function
    that restores the real renderer (used for a few samples to make sure the real path works).'''
    import dawgie.context
    import pydot

    dawgie.context.fe_path = fe_path
    dawgie.context.site_path = ''
    if not hasattr(pydot.Dot, '_verif_real_write'):  # survive being called twice in one process
        pydot.Dot._verif_real_write = pydot.Dot.write
    real = pydot.Dot._verif_real_write

    def fake(self, path, prog=None, format='raw', encoding=None):  # pylint: disable=redefined-builtin
        with open(path, 'w', encoding='utf-8') as fh:
            fh.write(self.to_string())
        return True

    pydot.Dot.write = fake

    def restore(on=True):
        pydot.Dot.write = real if on else fake

    return restore


# ----------------------------------------------------------------------------
# engine shapes (used by c09 / c15 / c16)
# ----------------------------------------------------------------------------

SV_LAYOUTS = ([1], [2], [1, 1], [2, 1], [1, 2], [2, 2])  # values per state vector
STYLES = ('classic', 'base', 'auto')


def partitions(n, blocks=3):
    '''restricted growth strings: every way to spread n algorithms over <= blocks packages, up to renaming'''
    out = []

    def rec(pre, used):
        if len(pre) == n:
            out.append(tuple(pre))
            return
        for b in range(min(used + 1, blocks)):
            rec(pre + [b], max(used, b + 1))

    rec([], 0)
    return out


def dags(n):
    '''every edge set over a fixed topological order a0 < a1 < ... (contains every DAG shape up to renaming)'''
    pairs = [(i, j) for j in range(n) for i in range(j)]
    out = []
    for mask in range(1 << len(pairs)):
        out.append(tuple(p for k, p in enumerate(pairs) if mask >> k & 1))
    return out


def _ref(target, level, a, b):
    '''a reference to algorithm spec `target` at level 0 (alg) / 1 (sv) / 2 (value); a, b pick sv / value'''
    tid = alg_id(target)
    if level == 0:
        return ['alg', tid]
    svn, vals = target['svs'][a % len(target['svs'])]
    if level == 1:
        return ['sv', tid, svn]
    return ['v', tid, svn, vals[b % len(vals)]]


# name tables for make_spec(names=...): names that are string prefixes of one another at one or at every level
NAMESETS = {
    'alg-prefix': {'alg': ['cal', 'cal_fit', 'cal_fit_x', 'ca']},
    'all-prefix': {
        'alg': ['cal', 'cal_fit', 'cal_fit_x', 'ca'],
        'pkg': ['t', 't1', 't12'],
        'sv': ['s', 's1'],
        'v': ['v', 'v1'],
    },
    # one algorithm name used by every package (only for partitions that put each algorithm in its own package)
    'same-alg': {'alg': ['cal', 'cal', 'cal', 'cal']},
}


def make_spec(edges, parts, kinds, layouts, picks, feedback=None, style='classic', double=(), names=None):
    '''assemble a spec from a skeleton
    edges   : [(i, j)] i < j : algorithm j declares (part of) algorithm i as input
    parts   : package index per algorithm;  kinds : 'task'/'analysis'/'regress' per algorithm
    layouts : index into SV_LAYOUTS per algorithm
    picks   : per edge (level, a, b) see _ref;  double : edges that carry a second, different reference
    feedback: None or (consumer i, producer j, level, a, b) or a list of such tuples
    names   : None (p<k>, a<i>, s<k>, v<k>) or a dict of name lists by level ('pkg', 'alg', 'sv', 'v'), see NAMESETS
    '''
    n = len(parts)
    names = names or {}

    def nm(level, k, default):
        return names[level][k] if level in names else default

    algs = []
    for i in range(n):
        lay = SV_LAYOUTS[layouts[i] % len(SV_LAYOUTS)]
        algs.append(
            {
                'pkg': nm('pkg', parts[i], f'p{parts[i]}'),
                'kind': kinds[i],
                'name': nm('alg', i, f'a{i}'),
                'svs': [
                    [nm('sv', s, f's{s}'), [nm('v', v, f'v{v}') for v in range(nv)]] for s, nv in enumerate(lay)
                ],
                'inputs': [],
                'feedback': [],
            }
        )
    for k, (i, j) in enumerate(edges):
        lvl, a, b = picks[k % len(picks)] if picks else (0, 0, 0)
        r = _ref(algs[i], lvl, a, b)
        algs[j]['inputs'].append(r)
        if k in double:
            r2 = _ref(algs[i], 2, a + 1, b + 1)
            if r2 != r:
                algs[j]['inputs'].append(r2)
    if feedback:
        for i, j, lvl, a, b in [feedback] if isinstance(feedback, tuple) else feedback:
            r = _ref(algs[j], lvl, a, b)
            if r not in algs[i]['feedback']:
                algs[i]['feedback'].append(r)
    return {'style': style, 'algs': algs, 'events': []}


def random_spec(rng, nmax=4, nmin=1, styles=STYLES, kinds=KINDS, levels=(0, 1, 2), feedback_p=0.4):
    n = rng.randint(nmin, nmax)
    edges = rng.choice(dags(n))
    parts = rng.choice(partitions(n))
    return make_spec(
        edges,
        parts,
        [rng.choice(kinds) for _ in range(n)],
        [rng.randrange(len(SV_LAYOUTS)) for _ in range(n)],
        [(rng.choice(levels), rng.randrange(2), rng.randrange(2)) for _ in edges] or [(0, 0, 0)],
        feedback=(
            (lambda i: (i, rng.randrange(i + 1, n), rng.choice(levels), rng.randrange(2), rng.randrange(2)))(
                rng.randrange(0, n - 1)
            )
            if n > 1 and rng.random() < feedback_p
            else None
        ),
        style=rng.choice(styles),
        double={k for k in range(len(edges)) if rng.random() < 0.2},
    )


def spec_key(spec):
    import json

    return json.dumps(spec, sort_keys=True)


def run_cases(worker, cases, procs):
    '''map worker over cases, in this process or in a fork pool; results come back in case order'''
    if procs <= 1 or len(cases) < 2 * procs:
        return worker(cases)
    import multiprocessing

    chunks = [cases[i::procs] for i in range(procs)]
    with multiprocessing.get_context('fork').Pool(procs) as pool:
        parts = pool.map(worker, chunks)
    out = [None] * len(cases)
    for k, part in enumerate(parts):
        out[k::procs] = part
    return out
