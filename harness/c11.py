'''C11 - work goes only to eligible workers, only while the pipeline is active.

Bounded run-time harness: the real ``dawgie.pl.farm`` (Hand, dispatch, _put,
notify_all, rerunid, clear) driven through fake transports.  What reaches a
worker is decoded from the bytes written to its transport.

Archive requests: the event ('arch',) sets farm.ARCHIVE; the fake life-cycle
machine's archiving_trigger() makes the pipeline inactive like the real one
(state archiving, transitioning entering) until ('life', 'on') ends the
archive.  A dispatch call that fires archiving_trigger() must not write a task
message to any worker (the pipeline is not active any more in that call).
'''

import collections
import os
import random
import shutil
import sys
import tempfile
import time

try:
    from . import _proto_common as pc
except ImportError:  # run as a plain script
    import _proto_common as pc  # type: ignore

import dawgie
import dawgie.context
import dawgie.db
import dawgie.pl.dag
import dawgie.pl.farm as farm
import dawgie.pl.message as message
import dawgie.pl.schedule
import dawgie.security

PROPERTY = 'C11'
BOUND = (
    'histories over {register k (matching|stale revision, also repeated on '
    'one connection), disconnect k, status poll (matching|stale), dispatch '
    'tick, life-cycle (deactivate, new revision, load = notify_all+clear, '
    'activate), archive request (farm.ARCHIVE = True; the fake '
    'fsm.archiving_trigger() makes the pipeline inactive as the real one '
    'does, activate stands for the end of the archive and clears the '
    'request), enqueue one of 6 job templates (task/analysis/regress, run '
    'id given or None)} with <= 3 worker slots and <= 3 queued task '
    'messages: every path up to depth 4 (quick) / 5 (thorough) over a '
    '2-slot, 3-template sub-alphabet; one shortest history per distinct '
    'state extended by every enabled event up to depth 5 (quick) / 8 '
    '(thorough) over the sub-alphabet and 4 (quick) / 7 (thorough) over the '
    'full alphabet; 5000 (quick) / 60000 (thorough) seed-sampled histories '
    'of length 7 / 10, two thirds of them with one register per connection'
)
CLAUSES = [
    'C11.revision',
    'C11.connected',
    'C11.holds-no-task',
    'C11.active',
    'C11.leave',
    'C11.queued',
    'C11.fields',
    'C11.runid',
]

pc.quiet()
pc.set_tls(True)

# ------------------------------------------------------- synthetic AE package

AE = 'c11ae'
_PK_SOURCE = '''
import dawgie


class _Alg:
    def __init__(self, name, where):
        self._name = name
        self._where = where

    def name(self):
        return self._name

    def where(self):
        return self._where


class _Unit:
    def __init__(self, *args, **kwds):
        self.args = args

    def routines(self):
        d = dawgie.Distribution
        return [
            _Alg('a', d.cluster),
            _Alg('b', d.auto),
            _Alg('c', d.cluster),
            _Alg('d', d.cloud),
            _Alg('e', d.auto),
            _Alg('f', d.cluster),
        ]


def analysis(prefix, ps_hint=0, runid=-1):
    return _Unit(prefix, ps_hint, runid)


def regress(prefix, ps_hint=0, target='__none__'):
    return _Unit(prefix, ps_hint, target)


def task(prefix, ps_hint=0, runid=-1, target='__none__'):
    return _Unit(prefix, ps_hint, runid, target)
'''


def _make_ae():
    if AE + '.pk' in sys.modules:
        return sys.modules[AE + '.pk']
    import importlib

    root = tempfile.mkdtemp(prefix='verif_c11_')
    try:
        os.makedirs(os.path.join(root, AE, 'pk'))
        with open(os.path.join(root, AE, '__init__.py'), 'w') as f:
            f.write('')
        with open(os.path.join(root, AE, 'pk', '__init__.py'), 'w') as f:
            f.write(_PK_SOURCE)
        sys.path.insert(0, root)
        try:
            sys.dont_write_bytecode, old = True, sys.dont_write_bytecode
            mod = importlib.import_module(AE + '.pk')
        finally:
            sys.dont_write_bytecode = old
            sys.path.remove(root)
    finally:
        shutil.rmtree(root, ignore_errors=True)
    return mod


PK = _make_ae()
dawgie.context.ae_base_package = AE

# (tag, factory name, targets released ('do'), run id carried by the event)
TEMPLATES = (
    ('pk.a', 'task', ('X',), None),
    ('pk.b', 'task', ('X', 'Y'), 7),
    ('pk.c', 'analysis', ('__all__',), None),
    ('pk.d', 'regress', ('X',), None),
    ('pk.e', 'regress', ('Y', 'Z'), 5),
    ('pk.f', 'analysis', ('__all__',), 3),
)
FIRST_NEW_RUNID = 100
HOSTS = ('a', 'a', 'b')
STALE = 'rev-stale'


class FSM:  # pylint: disable=too-few-public-methods
    '''the two questions the farm asks the life-cycle machine'''

    def __init__(self):
        self.active = True
        self.crew = False
        self.archived = 0
        self.archiving = False

    def is_pipeline_active(self):
        return self.active

    def waiting_on_crew(self):
        return self.crew

    def archiving_trigger(self):
        # the real machine enters 'archiving' (transitioning = entering):
        # is_pipeline_active() is False until the archive is done
        self.archived += 1
        self.archiving = True
        self.active = False


# dawgie.context.dumps() leaves the real FSM out by its type name
FSM.__module__ = 'dawgie.pl.state'


class Violation(Exception):
    def __init__(self, clause, signature, observed, expected, step):
        Exception.__init__(self, clause + ':' + signature)
        self.clause = clause
        self.signature = signature
        self.observed = observed
        self.expected = expected
        self.step = step


def _key(m):
    return (
        m.jobid,
        m.target,
        m.runid,
        tuple(m.factory) if m.factory is not None else None,
    )


class Peer:
    '''one connection to the foreman and its ghost'''

    # pylint: disable=too-many-instance-attributes
    def __init__(self, kind, slot, gen, host):
        self.kind = kind  # 'worker' | 'poll'
        self.slot = slot
        self.name = '%s%s.%d' % ('w' if kind == 'worker' else 'p', slot, gen)
        self.gen = gen
        self.hand = farm.Hand(pc.IPV4(host, 5000 + gen))
        self.transport = pc.FakeTransport(host, 5000 + gen)
        self.hand.transport = self.transport
        self.alive = True
        self.regs = []  # 'ok' / 'stale' per register message, in order
        self.reg_rev = None  # revision named by the latest register message
        self.tasks = []
        self.aborted = 0  # abort messages received
        self.waits = 0
        self.lost_seen = 0  # loseConnection() calls up to the previous event

    def closed_by_server(self):
        return self.transport.lost > 0

    def ghost(self):
        return (
            self.alive,
            self.closed_by_server(),
            min(self.regs.count('ok'), 2),
            self.regs[-1] if self.regs else None,
            self.reg_rev,
            len(self.tasks),
            self.aborted > 0,
        )


class World:
    # pylint: disable=too-many-instance-attributes
    def __init__(self, nslots=3):
        farm.clear()
        farm._reject.clear()  # pylint: disable=protected-access
        farm._repeat.clear()  # pylint: disable=protected-access
        farm.insights.clear()
        farm.ARCHIVE = False
        farm._agency[0] = None  # pylint: disable=protected-access
        self.fsm = FSM()
        dawgie.context.fsm = self.fsm
        self.revno = 1
        dawgie.context.git_rev = 'rev-1'
        self.need_load = False
        self.next_id = FIRST_NEW_RUNID
        self.drawn = []
        self.batches = []
        dawgie.db.next = self._next
        dawgie.pl.schedule.next_job_batch = self._batch
        self.slots = [None] * nslots
        self.peers = []
        self.polls = 0
        self.pending = []  # job nodes the scheduler will release next
        self.used = set()  # template indices already enqueued
        self.outstanding = collections.Counter()  # made, not yet sent
        self.max_runid = max(t[3] or 0 for t in TEMPLATES)
        self.step_no = -1
        self.archived_before = 0
        self.archive_req = False  # ghost of farm.ARCHIVE
        self.trace = []

    # ---- fakes the farm calls
    def _next(self):
        self.next_id += 1
        self.drawn.append(self.next_id)
        return self.next_id

    def _batch(self):
        jobs, self.pending = self.pending, []
        self.batches.append(jobs)
        return list(jobs)

    # ---- enabledness, from the ghost only
    def enabled(self, ev):
        # pylint: disable=too-many-return-statements
        kind = ev[0]
        if kind == 'reg':
            return ev[1] < len(self.slots)
        if kind == 'disc':
            p = self.slots[ev[1]] if ev[1] < len(self.slots) else None
            return p is not None and p.alive
        if kind in ('poll', 'tick'):
            return True
        if kind == 'arch':
            return not self.archive_req and not self.fsm.archiving
        if kind == 'life':
            what = ev[1]
            if what == 'off':
                return self.fsm.active
            if what == 'on':
                return not self.fsm.active and not self.need_load
            return not self.fsm.active  # newrev, load
        if kind == 'enq':
            tix = ev[1]
            if tix in self.used:
                return False
            tpl = TEMPLATES[tix]
            n = 1 if tpl[1] == 'analysis' else len(tpl[2])
            queued = sum(self.outstanding.values()) + sum(
                1 if j.get('factory').__name__ == 'analysis'
                else len(j.get('do'))
                for j in self.pending
            )
            return queued + n <= 3
        raise ValueError(kind)

    def fail(self, clause, signature, observed, expected):
        raise Violation(clause, signature, observed, expected, self.step_no)

    # ---- events
    def do(self, ev):
        # pylint: disable=too-many-branches,too-many-statements
        self.step_no += 1
        kind = ev[0]
        self.drawn = []
        self.batches = []
        waiting_before = None
        cluster_before = [_key(m) for m in farm._cluster]
        self.archived_before = self.fsm.archived
        if kind == 'reg':
            k, how = ev[1], ev[2]
            p = self.slots[k]
            if (
                p is None
                or not p.alive
                or p.closed_by_server()
                or p.tasks
            ):
                # the worker process (re)connects: a new connection
                if p is not None and p.alive:
                    p.alive = False
                    p.hand.connectionLost(None)
                p = Peer('worker', k, 0 if p is None else p.gen + 1, HOSTS[k])
                self.slots[k] = p
                self.peers.append(p)
            rev = dawgie.context.git_rev if how == 'ok' else STALE
            p.regs.append(how)
            p.reg_rev = rev
            p.hand.dataReceived(
                pc.frame(
                    message.dumps(
                        message.make(
                            typ=message.Type.register, inc=p.gen, rev=rev
                        )
                    )
                )
            )
        elif kind == 'disc':
            p = self.slots[ev[1]]
            p.alive = False
            p.hand.connectionLost(None)
        elif kind == 'poll':
            self.polls += 1
            p = Peer('poll', 'x', self.polls, 'a')
            self.peers.append(p)
            rev = dawgie.context.git_rev if ev[1] == 'ok' else STALE
            p.hand.dataReceived(
                pc.frame(
                    message.dumps(
                        message.make(typ=message.Type.status, rev=rev)
                    )
                )
            )
            # the foreman closes a status connection itself
            p.alive = False
            p.hand.connectionLost(None)
        elif kind == 'tick':
            farm.dispatch()
        elif kind == 'arch':
            # what Hand._res (new values) / the front end (run, reset with
            # archive) do: ask for an archive once the farm is idle
            farm.ARCHIVE = True
            self.archive_req = True
        elif kind == 'life':
            what = ev[1]
            if what == 'off':
                self.fsm.active = False
            elif what == 'on':
                if self.fsm.archiving:  # FSM._archive_done
                    farm.ARCHIVE = False
                    self.archive_req = False
                    self.fsm.archiving = False
                self.fsm.active = True
            elif what == 'newrev':  # FSM._reload, only while not active
                self.revno += 1
                dawgie.context.git_rev = 'rev-%d' % self.revno
                self.need_load = True
            elif what == 'load':  # FSM.load: notify_all() then clear()
                waiting_before = [p for p in self.peers if self._waiting(p)]
                farm.notify_all()
                farm.clear()
                self.need_load = False
            else:
                raise ValueError(what)
        elif kind == 'enq':
            tag, fname, targets, runid = TEMPLATES[ev[1]]
            node = dawgie.pl.dag.Node(tag)
            node.set('factory', getattr(PK, fname))
            node.set('do', set(targets))
            node.set('doing', set(targets))
            node.set('todo', set())
            node.set('runid', runid)
            node.set('level', ev[1])
            node.set('status', dawgie.pl.schedule.State.waiting)
            node.set('event', 'c11 harness')
            self.used.add(ev[1])
            self.pending.append(node)
        else:
            raise ValueError(kind)
        self._observe(ev, cluster_before, waiting_before)

    def _waiting(self, p):
        '''ghost: a worker that registered (latest word: the then current
        revision), is connected, was not told to go and holds no task'''
        return (
            p.kind == 'worker'
            and p.alive
            and not p.closed_by_server()
            and bool(p.regs)
            and p.regs[-1] == 'ok'
            and not p.tasks
        )

    # ---- the oracle
    def _observe(self, ev, cluster_before, waiting_before):
        # pylint: disable=too-many-branches,too-many-locals,too-many-statements
        sent = []
        for p in self.peers:
            # eligibility is judged on the state before this event's messages
            closed_before = p.lost_seen
            for m in p.transport.new_frames():
                self.trace.append(
                    (self.step_no, p.name, m.type.name, m.jobid, m.target)
                )
                if m.type == message.Type.task:
                    sent.append((p, m))
                    self._eligible(p, m, closed_before)
                    p.tasks.append(_key(m))
                elif m.type == message.Type.response and m.success is False:
                    p.aborted += 1
                elif m.type == message.Type.wait:
                    p.waits += 1
            p.lost_seen = p.transport.lost

        if self.fsm.archived != self.archived_before:
            if self.fsm.is_pipeline_active():
                raise RuntimeError('C11 harness: fake archiving_trigger() left the pipeline active')
            if sent:
                self.fail(
                    'C11.active',
                    'task-in-archiving-dispatch',
                    {
                        'sent': [(p.name, _key(m)) for p, m in sent],
                        'archiving_trigger_calls': self.fsm.archived
                        - self.archived_before,
                        'event': list(ev),
                    },
                    'no task message in a dispatch call that sent the '
                    'pipeline into archiving (it is not active any more)',
                )
        if sent and not self.fsm.active:
            self.fail(
                'C11.active',
                'task-while-inactive',
                [(p.name, _key(m)) for p, m in sent],
                'no task message while the pipeline is not active',
            )

        # what the dispatch made out of the released jobs
        if ev[0] == 'tick':
            self._made(sent)
        elif self.drawn:
            self.fail(
                'C11.runid',
                'run-id-drawn-outside-dispatch',
                self.drawn,
                'db.next() only for a released job without run id',
            )

        for p, m in sent:
            k = _key(m)
            if self.outstanding[k] <= 0:
                self.fail(
                    'C11.fields',
                    'task-not-made-for-any-unit',
                    {'to': p.name, 'message': k},
                    'each task message is one of the queued units, once: '
                    + repr(sorted(self.outstanding.elements())),
                )
            self.outstanding[k] -= 1
            if not self.outstanding[k]:
                del self.outstanding[k]

        if ev[0] == 'life' and ev[1] == 'load':
            self.outstanding.clear()  # farm.clear(): the schedule is rebuilt
            for p in waiting_before:
                if not (p.aborted and p.closed_by_server()):
                    self.fail(
                        'C11.leave',
                        'waiting-worker-not-told-to-leave',
                        {
                            'worker': p.name,
                            'abort_messages': p.aborted,
                            'loseConnection': p.transport.lost,
                        },
                        'abort message and loseConnection() for every '
                        'waiting worker while the pipeline is not active',
                    )

        queued = collections.Counter(_key(m) for m in farm._cluster)
        if queued != self.outstanding:
            lost = self.outstanding - queued
            extra = queued - self.outstanding
            self.fail(
                'C11.queued',
                'task-lost' if lost else 'task-duplicated',
                {
                    'queue': sorted(queued.elements(), key=repr),
                    'before': cluster_before,
                },
                {'queue': sorted(self.outstanding.elements(), key=repr)},
            )
            del extra

    def _eligible(self, p, m, closed_before):
        cur = dawgie.context.git_rev
        detail = {
            'to': p.name,
            'message': _key(m),
            'registrations': list(p.regs),
            'registered_revision': p.reg_rev,
            'current_revision': cur,
            'tasks_already_held': list(p.tasks),
        }
        if p.kind != 'worker' or not p.regs:
            self.fail(
                'C11.revision',
                'task-to-unregistered-connection',
                detail,
                'only registered workers get tasks',
            )
        if p.reg_rev != cur:
            sig = (
                'stale-reregistration'
                if 'ok' in p.regs and p.regs[-1] == 'stale'
                else (
                    'task-to-worker-of-old-revision'
                    if p.regs[-1] == 'ok'
                    else 'task-to-stale-worker'
                )
            )
            self.fail(
                'C11.revision',
                sig,
                detail,
                'the worker registered with the current revision',
            )
        if not p.alive:
            self.fail(
                'C11.connected',
                'task-to-disconnected-worker',
                detail,
                'the worker is still connected',
            )
        if closed_before:
            self.fail(
                'C11.connected',
                'task-after-the-foreman-closed-the-connection',
                detail,
                'the worker is still connected (not told to leave)',
            )
        if p.tasks:
            self.fail(
                'C11.holds-no-task',
                'double-registration'
                if p.regs.count('ok') >= 2
                else 'task-to-busy-worker',
                detail,
                'the worker holds no task',
            )

    def _made(self, sent):
        '''check the task messages made by this dispatch against the jobs the
        scheduler released in it'''
        # pylint: disable=too-many-branches,too-many-locals
        jobs = [j for b in self.batches for j in b]
        if not self.fsm.active:
            if jobs or self.drawn:
                self.fail(
                    'C11.active',
                    'jobs-taken-while-inactive',
                    [j.tag for j in jobs],
                    'nothing happens on a dispatch tick while not active',
                )
            return
        known = self.outstanding.copy()
        fresh = []
        for m in [m for _p, m in sent] + list(farm._cluster):
            k = _key(m)
            if known[k] > 0:
                known[k] -= 1
            else:
                fresh.append(m)
        want_draws = sum(1 for j in jobs if self._tpl(j)[3] is None)
        if len(self.drawn) != want_draws:
            self.fail(
                'C11.runid',
                'wrong-number-of-new-run-ids',
                {'drawn': self.drawn, 'jobs': [j.tag for j in jobs]},
                '%d (one per released job whose event carried no run id)'
                % want_draws,
            )
        taken = set()
        for j in jobs:
            tag, fname, targets, runid = self._tpl(j)
            mine = [m for m in fresh if m.jobid == tag]
            want_targets = [None] if fname == 'analysis' else sorted(targets)
            got_targets = sorted(
                (m.target for m in mine), key=lambda t: (t is not None, t)
            )
            if got_targets != want_targets:
                rest = list(want_targets)
                subset = True
                for t in got_targets:
                    if t in rest:
                        rest.remove(t)
                    else:
                        subset = False
                if subset:
                    self.fail(
                        'C11.queued',
                        'task-lost-in-dispatch',
                        {'job': tag, 'targets': got_targets},
                        {'targets': want_targets},
                    )
                self.fail(
                    'C11.fields',
                    'wrong-targets-for-' + fname,
                    {'job': tag, 'targets': got_targets},
                    {'targets': want_targets},
                )
            for m in mine:
                fac = tuple(m.factory) if m.factory else None
                if fac != (PK.__name__, fname):
                    self.fail(
                        'C11.fields',
                        'wrong-factory',
                        {'job': tag, 'factory': fac},
                        {'factory': (PK.__name__, fname)},
                    )
                if m.type != message.Type.task:
                    self.fail(
                        'C11.fields',
                        'not-a-task-message',
                        {'job': tag, 'type': m.type.name},
                        'task',
                    )
            rids = sorted(set(m.runid for m in mine), key=repr)
            if fname == 'regress':
                want = [0]
            elif runid is not None:
                want = [runid]
            else:
                want = None
            if want is not None:
                if rids != want:
                    self.fail(
                        'C11.runid',
                        'wrong-run-id-for-' + fname,
                        {'job': tag, 'runids': rids, 'event_runid': runid},
                        {'runids': want},
                    )
            else:
                if (
                    len(rids) != 1
                    or rids[0] not in self.drawn
                    or rids[0] in taken
                    or not rids[0] > self.max_runid
                ):
                    self.fail(
                        'C11.runid',
                        'no-fresh-run-id',
                        {
                            'job': tag,
                            'runids': rids,
                            'drawn': self.drawn,
                            'largest_before': self.max_runid,
                        },
                        'one new run id, larger than every earlier one',
                    )
                taken.add(rids[0])
            for m in mine:
                self.outstanding[_key(m)] += 1
                fresh.remove(m)
        if self.drawn:
            self.max_runid = max(self.max_runid, max(self.drawn))
        if fresh:
            self.fail(
                'C11.fields',
                'task-made-for-no-released-unit',
                [_key(m) for m in fresh],
                'task messages only for released units',
            )

    @staticmethod
    def _tpl(job):
        for t in TEMPLATES:
            if t[0] == job.tag:
                return t
        raise KeyError(job.tag)

    def signature(self):
        names = {id(p.hand): p.name for p in self.peers}
        return (
            self.fsm.active,
            bool(farm.ARCHIVE),
            self.fsm.archiving,
            self.revno,
            self.need_load,
            tuple(names.get(id(h), '?') for h in farm._workers),
            tuple(_key(m) for m in farm._cluster),
            tuple(j.tag for j in farm._jobs),
            tuple(j.tag for j in self.pending),
            tuple(sorted(self.used)),
            tuple(
                None if p is None else (p.gen > 0,) + p.ghost()
                for p in self.slots
            ),
        )


def run_history(history, nslots=3):
    w = World(nslots)
    done = []
    try:
        for ev in history:
            ev = tuple(ev)
            if not w.enabled(ev):
                continue
            done.append(ev)
            w.do(ev)
    except Violation as v:
        return v, done, w
    return None, done, w


# ---------------------------------------------------------------- generators


def alphabet(nslots, templates):
    evs = []
    for k in range(nslots):
        evs.append(('reg', k, 'ok'))
        evs.append(('reg', k, 'stale'))
        evs.append(('disc', k))
    evs.append(('poll', 'ok'))
    evs.append(('poll', 'stale'))
    evs.append(('tick',))
    evs.append(('arch',))
    for what in ('off', 'on', 'newrev', 'load'):
        evs.append(('life', what))
    for t in templates:
        evs.append(('enq', t))
    return evs


FULL = alphabet(3, range(len(TEMPLATES)))
SMALL = [
    e
    for e in alphabet(2, (1, 0, 3))
    if e != ('poll', 'stale')
]


def _replay(hist, nslots):
    w = World(nslots)
    try:
        for ev in hist:
            w.do(ev)
    except Violation as v:
        return w, v
    return w, None


def _explore(depth, nslots, alpha, prefix, deadline):
    cases = 0
    sigs = set()
    found = {}
    samples = []
    complete = True
    stack = [list(prefix)]
    while stack:
        if time.time() > deadline:
            complete = False
            break
        hist = stack.pop()
        w, vio = _replay(hist, nslots)
        cases += 1
        sigs.add(w.signature())
        if vio is not None:
            key = (vio.clause, vio.signature)
            if key not in found or len(hist) < len(found[key]['history']):
                found[key] = {
                    'history': hist,
                    'observed': vio.observed,
                    'expected': vio.expected,
                    'step': vio.step,
                }
            continue
        if len(hist) < depth:
            for ev in reversed(alpha):
                if w.enabled(ev):
                    stack.append(hist + [ev])
        elif cases % 1499 == 0 and len(samples) < 2:
            samples.append(hist)
    return cases, sigs, found, samples, complete


def _explore_job(args):
    depth, nslots, alpha, prefix, budget = args
    return _explore(depth, nslots, alpha, prefix, time.time() + budget)


def _expand_chunk(args):
    '''extend each history by every enabled event; -> (cases, new, found)'''
    hists, nslots, alpha, deadline = args
    cases = 0
    out = []
    found = {}
    complete = True
    for hist in hists:
        if time.time() > deadline:
            complete = False
            break
        w, _v = _replay(hist, nslots)
        for ev in alpha:
            if not w.enabled(ev):
                continue
            cand = hist + [ev]
            w2, vio = _replay(cand, nslots)
            cases += 1
            if vio is not None:
                key = (vio.clause, vio.signature)
                if key not in found:
                    found[key] = {
                        'history': cand,
                        'observed': pc.jsonable(vio.observed),
                        'expected': pc.jsonable(vio.expected),
                        'step': vio.step,
                    }
                continue
            out.append((w2.signature(), cand))
    return cases, out, found, complete


def _merged_bfs(depth, nslots, alpha, deadline, pool=None, nproc=1):
    '''breadth-first over distinct states: one shortest history per state
    signature is kept and extended by every enabled event'''
    cases = 0
    found = {}
    w0 = World(nslots)
    seen = {w0.signature()}
    frontier = [[]]
    complete = True
    reached = 0
    for level in range(depth):
        if time.time() > deadline:
            complete = False
            break
        if pool is not None and len(frontier) > 4 * nproc:
            size = max(1, len(frontier) // (8 * nproc))
            chunks = [
                (frontier[i : i + size], nslots, alpha, deadline)
                for i in range(0, len(frontier), size)
            ]
            results = pool.map(_expand_chunk, chunks, chunksize=1)
        else:
            results = [_expand_chunk((frontier, nslots, alpha, deadline))]
        nxt = []
        for cs, out, fd, done in results:
            complete = complete and done
            cases += cs
            for key, rec in fd.items():
                found.setdefault(key, rec)
            for sig, cand in out:
                if sig not in seen:
                    seen.add(sig)
                    nxt.append(cand)
        if not complete:
            break
        reached = level + 1
        frontier = nxt
        if not frontier:
            break
    return cases, seen, found, complete, reached


def _random_history(rng, length, nslots, strict):
    '''strict: every connection sends one register message at most (a
    worker that registers again has dropped its old connection first)'''
    w = World(nslots)
    hist = []
    vio = None
    weights = {
        'reg': 3,
        'disc': 1,
        'poll': 1,
        'tick': 4,
        'arch': 1,
        'life': 1,
        'enq': 3,
    }
    try:
        while len(hist) < length:
            evs = [e for e in FULL if w.enabled(e)]
            ev = rng.choices(evs, [weights[e[0]] for e in evs])[0]
            if strict and ev[0] == 'reg':
                p = w.slots[ev[1]]
                if p is not None and p.alive and p.regs:
                    hist.append(('disc', ev[1]))
                    w.do(('disc', ev[1]))
            hist.append(ev)
            w.do(ev)
    except Violation as v:
        vio = v
    return hist, vio, w.signature()


def _shrink(history, clause, signature, nslots=3):
    hist = [tuple(e) for e in history]
    changed = True
    while changed:
        changed = False
        for i in range(len(hist)):
            cand = hist[:i] + hist[i + 1 :]
            v = run_history(cand, nslots)[0]
            if v is not None and (v.clause, v.signature) == (clause, signature):
                hist = cand
                changed = True
                break
    return hist


# ----------------------------------------------------------------- interface


NOTES = {
    'double-registration': (
        'needs a client that sends two register messages on one connection '
        '(dawgie.pl.worker.cluster.execute sends one): Hand._reg appends the '
        'connection to farm._workers once per message, dispatch pops it '
        'twice, so the second task goes to a worker that already holds one '
        '(present on the pinned tree; gone once _reg appends only when the '
        'connection is not listed yet)'
    ),
    'stale-reregistration': (
        'same root cause, weaker reading: the connection registered with '
        'the current revision, then registered again naming another '
        'revision; Hand._reg answers abort + loseConnection() but leaves the '
        'first entry in farm._workers, and the next dispatch sends a task to '
        'the connection it just told to leave.  It is a violation if the '
        'latest register message counts as the registration / a closed '
        'connection does not count as connected; under the most literal '
        'reading (registered once with the current revision, connectionLost '
        'not yet delivered) it is not'
    ),
}


def _record(key, rec):
    if key[1] in NOTES:
        rec = dict(rec, note=NOTES[key[1]])
    return {
        'clause': key[0],
        'signature': key[1],
        'input': {
            'history': [list(e) for e in rec['history']],
            'nslots': 3,
        },
        'observed': pc.jsonable(rec['observed']),
        'expected': pc.jsonable(rec['expected']),
        'step': rec['step'],
        **({'note': rec['note']} if 'note' in rec else {}),
    }


def run(tier: str, seed: int) -> dict:
    # pylint: disable=too-many-locals,too-many-branches,too-many-statements
    t0 = time.time()
    thorough = tier == 'thorough'
    nslots = 3
    cases = 0
    sigs = set()
    found = {}
    samples = []

    def merge(fd):
        for key, rec in fd.items():
            if key not in found or len(rec['history']) < len(
                found[key]['history']
            ):
                found[key] = rec

    pool = None
    nproc = 1
    if thorough:
        import multiprocessing

        nproc = min(16, os.cpu_count() or 1)
        pool = multiprocessing.get_context('fork').Pool(nproc)
    try:
        # 1. every path over the small alphabet
        depth = 5 if thorough else 4
        if thorough:
            w0 = World(nslots)
            firsts = [[e] for e in SMALL if w0.enabled(e)]
            prefixes = []
            for f in firsts:
                w, v = _replay(f, nslots)
                if v is None:
                    prefixes.extend(f + [e] for e in SMALL if w.enabled(e))
            jobs = [(depth, nslots, SMALL, p, 100.0) for p in prefixes]
            results = pool.map(_explore_job, jobs, chunksize=1)
            results.append(_explore_job((1, nslots, SMALL, [], 60.0)))
        else:
            results = [_explore_job((depth, nslots, SMALL, [], 8.0))]
        exhaustive = True
        for cs, sg, fd, sm, complete in results:
            cases += cs
            sigs |= sg
            exhaustive = exhaustive and complete
            merge(fd)
            for h in sm:
                if len(samples) < 2:
                    samples.append([list(e) for e in h])

        # 2. one history per distinct state
        merged = []
        for alpha, mdepth, label in (
            (SMALL, 8 if thorough else 5, 'small'),
            (FULL, 7 if thorough else 4, 'full'),
        ):
            mcases, msigs, mfound, mcomplete, mreached = _merged_bfs(
                mdepth,
                nslots,
                alpha,
                t0 + (190.0 if thorough else 11.0),
                pool,
                nproc,
            )
            cases += mcases
            sigs |= msigs
            merge(mfound)
            exhaustive = exhaustive and mcomplete
            merged.append(
                {
                    'alphabet': label,
                    'depth': mdepth,
                    'reached': mreached,
                    'complete': bool(mcomplete),
                    'states': len(msigs),
                    'cases': mcases,
                }
            )
    finally:
        if pool is not None:
            pool.close()
            pool.join()

    # 3. sampled histories (2 of 3 with protocol-conformant workers)
    rng = random.Random(seed)
    nrand = 60000 if thorough else 5000
    length = 10 if thorough else 7
    stop = t0 + (260.0 if thorough else 15.0)
    nsampled = 0
    for i in range(nrand):
        if time.time() > stop:
            break
        hist, vio, sig = _random_history(rng, length, nslots, i % 3 != 0)
        cases += 1
        nsampled += 1
        sigs.add(sig)
        if i < 2:
            samples.append([list(e) for e in hist])
        if vio is not None:
            key = (vio.clause, vio.signature)
            if key not in found:
                small = _shrink(hist, vio.clause, vio.signature, nslots)
                v2 = run_history(small, nslots)[0] or vio
                found[key] = {
                    'history': small,
                    'observed': v2.observed,
                    'expected': v2.expected,
                    'step': v2.step,
                }

    return {
        'cases': cases,
        'distinct': len(sigs),
        'rule': (
            'a case is one history replayed from an empty farm on the real '
            'code with the oracle applied after every event; only enabled '
            'events are generated (so no event is a no-op by construction); '
            'distinct = number of distinct end states (farm lists + ghost of '
            'every slot + life-cycle); a history stops at its first '
            'violation'
        ),
        'exhaustive': bool(exhaustive),
        'samples': [{'history': h, 'nslots': 3} for h in samples[:4]],
        'violations': [_record(k, r) for k, r in sorted(found.items())],
        'clauses': list(CLAUSES),
        'path_depth': depth,
        'merged': merged,
        'sampled': nsampled,
        'wall_s': round(time.time() - t0, 2),
    }


def replay(case: dict) -> dict:
    inp = case.get('input', case)
    vio, done, w = run_history(
        [tuple(e) for e in inp['history']], inp.get('nslots', 3)
    )
    if vio is None:
        return {
            'reproduced': False,
            'observed': {
                'executed': [list(e) for e in done],
                'trace': pc.jsonable(w.trace),
            },
            'expected': 'no violation',
        }
    return {
        'reproduced': True,
        'clause': vio.clause,
        'signature': vio.signature,
        'observed': pc.jsonable(vio.observed),
        'expected': pc.jsonable(vio.expected),
        'step': vio.step,
        'trace': pc.jsonable(w.trace),
    }


if __name__ == '__main__':
    import json

    print(
        json.dumps(
            run(sys.argv[1] if len(sys.argv) > 1 else 'quick', 0), indent=1
        )[:6000]
    )
